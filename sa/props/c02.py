"""C02 - model intensity equals the helicity formula evaluated on the transitions.

R-TERM  argument roles of the Wigner-D and of the two Clebsch-Gordan coefficients equal the
        formula stated in the property.
R-FOLD  every transition of a group and every node of a transition reaches the accumulator,
        and the accumulator is folded whole (sum over transitions, product over nodes).

How the rules read the code (second robustness round): R-TERM evaluates the functions into terms (sa/terms.py) and
compares argument roles; R-FOLD and R-GROUPKEY execute the code symbolically (sa/symex.py) with the whole fold
chain inlined and judge the VALUES that reach ``model.amplitudes`` / ``model.components`` / the returned intensity
resp. the key under which a transition is grouped - loops, comprehensions, generator helpers, ``map`` / ``chain`` /
``reduce`` / ``sum`` / ``math.prod``, running sums, accumulators passed down, temporaries and helper methods all
give the same value.  Every verdict is three-valued: a completely followed value that breaks the condition is a
VIOLATION, a value (or an absence) that the execution did not follow completely is an ANALYSIS-ERROR.
"""

from __future__ import annotations

import ast

from ..loader import AnalysisError, Tree, ancestors, unparse
from ..poly import RF, D, equal, sym
from ..report import Check
from ..symex import (SymEx, addends, as_number, calls_of, cases, contains, expand_ranges, factors, flatten_each, free_eaches, func_name, not_followed, show, show_pc,
                     subst, subterms, unwrap)
from ..terms import ExtractionError, Opaque, TermEval, Tup, vkey

PID = "C02"
HEL = "ampform.helicity"
FROM_TRANSITION = "ampform.helicity.decay::TwoBodyDecay.from_transition"
GEN_KIN = "ampform.helicity::_generate_kinematic_variables"
BUILDER = f"{HEL}::HelicityAmplitudeBuilder"


DECAY_CLASS = "ampform.helicity.decay::TwoBodyDecay"


def abstract_instance(te: TermEval, tree: Tree, cls_qual: str, key: tuple):
    """An abstract instance of a declared record class: one entry per annotated field.  A field declared
    as a fixed-length ``tuple[A, B]`` is a tuple value of that length whose items are the very atoms that
    indexing the field produces (``x.children[0]``), so that indexing, unpacking (``a, b = x.children``)
    and iterating (``for c in x.children``) all denote the same elements; every other field is the opaque
    attribute path.  The length comes from the declaration, not from the use."""
    cls = tree.cls(cls_qual)
    base = Opaque(key)
    struct: dict = {}
    for st in cls.node.body:
        if not (isinstance(st, ast.AnnAssign) and isinstance(st.target, ast.Name)):
            continue
        name = st.target.id
        attr = te._attr_of(base, [name], st)
        ann = st.annotation
        if isinstance(ann, ast.Constant) and isinstance(ann.value, str):
            try:
                ann = ast.parse(ann.value, mode="eval").body
            except SyntaxError:
                ann = st.annotation
        elts = None
        if isinstance(ann, ast.Subscript) and unparse(ann.value) in {"tuple", "Tuple", "typing.Tuple"}:
            elts = ann.slice.elts if isinstance(ann.slice, ast.Tuple) else [ann.slice]
            if any(isinstance(e, ast.Constant) and e.value is Ellipsis for e in elts):
                elts = None
        if elts is not None:
            struct[name] = Tup([te.ev(ast.parse(f"_[{i}]", mode="eval").body, {"_": attr}) for i in range(len(elts))])
        else:
            struct[name] = attr
    if not struct:
        raise AnalysisError(f"vanished anchor: {cls_qual} declares no fields")
    return struct


def decay_value(te: TermEval, tree: Tree, key: tuple = ("decay",)):
    return abstract_instance(te, tree, DECAY_CLASS, key)


MASS_SYMBOL = "ampform.kinematics.lorentz::get_invariant_mass_symbol"
ANGLE_SYMBOLS = "ampform.helicity.naming::get_helicity_angle_symbols"
TRANSITION = Opaque(("transition",))
NODE_ID = sym("node_id")


class DecayTermEval(TermEval):
    """The term evaluator of the decay rules.  In addition to sa/terms.py it reads a PROPERTY of a plain record
    object built on the way (``view = _LSCoupling(decay.interaction); view.angular_momentum``): a frozen record
    holds nothing but its constructor arguments, so the value of the property is the value its body returns for that
    record - ``view.angular_momentum`` IS ``decay.interaction.l_magnitude`` when that is what the property reads."""

    _property_depth = 0

    def _record_property(self, base, name: str):
        if not isinstance(base, RF):
            return None
        rec = self.record_of(base)
        if rec is None or name in dict(rec[1]):
            return None
        m = self.tree.lookup_method(rec[0], name)
        if m is None:
            return None
        decorators = {unparse(d).split(".")[-1] for d in m.node.decorator_list}
        if not decorators & {"property", "cached_property"}:
            return None
        if decorators - {"property", "cached_property"}:
            raise ExtractionError(f"property `{name}` of {rec[0].qual} carries further decorators: not read")
        return m

    def _attr_of(self, base, attrs, node):
        for a in attrs:
            prop = self._record_property(base, a)
            if prop is None:
                base = super()._attr_of(base, [a], node)
                continue
            if self._property_depth >= self.inline_depth:
                raise ExtractionError(f"inlining depth exceeded at {prop.qual}")
            self._property_depth += 1
            try:
                base = self.eval_function(prop, [base], {}, self._property_depth)
            finally:
                self._property_depth -= 1
        return base


def unread_object_attribute(te: TermEval, value):
    """``(attribute, class)`` if the scalar term ``value`` contains an attribute read on an object of a class of the
    package that the evaluator constructed but did not look into (a property / a computed attribute of a helper
    object): such an atom is a NAME for a value the evaluation did not follow, not the value."""
    try:
        term = te._rf(value)
    except AnalysisError:
        return None
    for atom in term.atoms():
        key = atom[1] if isinstance(atom, tuple) and len(atom) == 2 and atom[0] == "sym" else None
        while isinstance(key, tuple) and len(key) == 3 and key[0] == "attr":
            inner = key[1]
            if isinstance(inner, tuple) and inner and inner[0] == "app" and inner in te.apps:
                cls = te.apps[inner].cls
                if any(c.name == cls or q == cls for q, c in te.tree.classes.items()):
                    return key[2], cls
            key = inner
    return None


def decay_evaluator(tree: Tree) -> TermEval:
    """A term evaluator for functions of ``(transition, node_id)``.  The decay of THAT node is the abstract
    record ``decay`` (any other arguments give another record); the functions that NAME the kinematic symbols
    are the leaves: the invariant mass symbol of decay.parent / children[0] / children[1] in the transition's
    topology is MASS / MASS1 / MASS2, the angle symbols of decay.children[0] are (PHI, THETA), and any other
    (topology, state) is an opaque application.  Everything between (``_generate_kinematic_variables`` or
    whatever helper the package uses) is evaluated, so PHI means "phi of children[0] of this decay" however
    the code gets there."""
    te = DecayTermEval(tree)
    ft = tree.func(FROM_TRANSITION)
    names = ft.params[1:] if ft.params and ft.params[0] in {"cls", "self"} else ft.params

    def from_transition(_te, args, kwargs):
        given = {**dict(zip(names, args)), **kwargs}
        if len(args) > len(names) or set(given) != set(names):
            raise AnalysisError("TwoBodyDecay.from_transition: call does not bind (transition, node_id)")
        keys = tuple(vkey(given[n]) for n in names)
        if keys == (vkey(TRANSITION), vkey(NODE_ID)):
            return decay_value(_te, tree)
        return decay_value(_te, tree, ("decay", keys))

    te.overrides[FROM_TRANSITION] = from_transition
    env = {"decay": decay_value(te, tree), "transition": TRANSITION}
    topo = vkey(te.ev(ast.parse("transition.topology", mode="eval").body, env))
    state = {vkey(te.ev(ast.parse(text, mode="eval").body, env)): role
             for role, text in (("MASS", "decay.parent.id"), ("MASS1", "decay.children[0].id"), ("MASS2", "decay.children[1].id"))}

    def leaf(qual, make):
        f = tree.func(qual)
        if len(f.params) != 2:
            raise AnalysisError(f"vanished anchor: {qual}(topology, state_id)")

        def override(_te, args, kwargs):
            bound = _te.bind_params(f, args, kwargs)
            vals = [bound[p_] for p_ in f.params]
            role = state.get(vkey(vals[1])) if vkey(vals[0]) == topo else None
            return make(_te, role, vals)

        te.overrides[qual] = override

    leaf(MASS_SYMBOL, lambda _te, role, vals: sym(role) if role else _te.app("mass-symbol", vals))
    leaf(ANGLE_SYMBOLS, lambda _te, role, vals: Tup([sym("PHI"), sym("THETA")]) if role == "MASS1" else Tup([_te.app("phi-symbol", vals), _te.app("theta-symbol", vals)]))
    return te


def path(te: TermEval, text: str) -> RF:
    """The atom that the evaluator produces for an attribute path on ``decay``."""
    node = ast.parse(text, mode="eval").body
    return te._rf(te.ev(node, {"decay": decay_value(te, te.tree)}))


def _show_val(v) -> str:
    if isinstance(v, Opaque) and isinstance(v.key, tuple) and v.key:
        if v.key[0] == "attr" and len(v.key) == 3:
            return f"{_show_val(Opaque(v.key[1]))}.{v.key[2]}"
        if len(v.key) == 1:
            return str(v.key[0])
    return repr(v)


def _show_cond(cond) -> str:
    from ..terms import Rel, Tup

    if isinstance(cond, Tup):
        return " and ".join(_show_cond(c) for c in cond.items)
    if isinstance(cond, Rel):
        return f"{_show_val(cond.lhs)} {cond.op} {_show_val(cond.rhs)}"[:80]
    if isinstance(cond, Opaque) and cond.key and cond.key[0] == "else-of":
        return "otherwise"
    if isinstance(cond, Opaque) and isinstance(cond.key, tuple) and len(cond.key) == 2 and cond.key[0] == "test":
        return str(cond.key[1])[:80]  # a test outside the term grammar: its text with the locals numbered
    return repr(cond)[:60]


def extract_apps(te: TermEval, value, name: str) -> list[dict]:
    """All applications of ``name`` inside a product value, as keyword dicts."""
    out = []
    if isinstance(value, RF):
        for a in value.atoms():
            if te.is_app(a) and te.apps[a].cls == name:
                out.append(te.apps[a].kwargs)
    return out


def _same(te: TermEval, got, want: RF) -> bool:
    if got is None:
        return False
    try:
        return equal(te._rf(got), want)
    except Exception:  # noqa: BLE001
        return False


def _role_differs(te: TermEval, got, want: RF, role: str) -> bool:
    """Three-valued comparison of one argument role: False (equal), True (a scalar term that differs) - or
    ANALYSIS-ERROR when the argument did not evaluate to a scalar term at all."""
    try:
        term = te._rf(got)
    except AnalysisError as exc:
        raise AnalysisError(f"the argument `{role}` does not evaluate to a scalar term: {exc}") from None
    if equal(term, want):
        return False
    unread = unread_object_attribute(te, term)
    if unread is not None:
        raise AnalysisError(f"the argument `{role}` reads `.{unread[0]}` of a `{unread[1]}` object that the term evaluation did not look into: its value is not known")
    return True


def check_wigner_d(ctx: Check, tree: Tree) -> None:
    D.reset()
    te = decay_evaluator(tree)
    te.fork = True  # every path of the function (and of the helpers it calls) is judged separately
    fn = tree.func(f"{HEL}::formulate_isobar_wigner_d")
    res = te.eval_function(fn, [TRANSITION, NODE_ID])
    from ..terms import PW

    paths = [(v, c) for v, c in res.branches] if isinstance(res, PW) else [(res, None)]
    for val, cond in paths:
        on = "" if cond is None else f" on the path `{_show_cond(cond)}`"
        suffix = "" if cond is None else f"::path {_show_cond(cond)}"
        apps = extract_apps(te, val, "D")
        if len(apps) != 1:
            raise AnalysisError(f"formulate_isobar_wigner_d does not return exactly one Wigner-D{on}")
        got = apps[0]
        want = {
            "j": path(te, "decay.parent.particle.spin"),
            "m": path(te, "decay.parent.spin_projection"),
            "mp": path(te, "decay.children[0].spin_projection") - path(te, "decay.children[1].spin_projection"),
            "alpha": -sym("PHI"),
            "beta": sym("THETA"),
            "gamma": RF.const(0),
        }
        problems = []
        for role, w in want.items():
            g = got.get(role)
            if g is None:
                problems.append(f"{role} missing")
            elif _role_differs(te, g, w, role):
                problems.append(f"{role} = {g!r} instead of {w!r}")
        ctx.verdict(not problems, "R-TERM", f"{fn.qual}::roles{suffix}", tree.loc(fn.node),
                    f"Wigner-D of a node{on}: D^J_{{m, l1-l2}}(-phi, theta, 0) with J, m of the parent, l1, l2 of children[0], children[1] and the angle symbols of children[0]", problems or None)
        is_single = te.single_atom(val) is not None
        ctx.verdict(is_single, "R-TERM", f"{fn.qual}::bare{suffix}", tree.loc(fn.node), f"formulate_isobar_wigner_d returns the bare Wigner-D (no extra factor){on}")


def check_cg(ctx: Check, tree: Tree) -> None:
    D.reset()
    te = decay_evaluator(tree)
    te.fork = True  # every path of the function is judged separately
    fn = tree.func(f"{HEL}::formulate_isobar_cg_coefficients")
    res = te.eval_function(fn, [TRANSITION, NODE_ID])
    from ..terms import PW

    paths = [(v, c) for v, c in res.branches] if isinstance(res, PW) else [(res, None)]
    for val, cond in paths:
        _check_cg_path(ctx, tree, te, fn, val, cond)


def _check_cg_path(ctx: Check, tree: Tree, te: TermEval, fn, val, cond) -> None:
    on = "" if cond is None else f" on the path `{_show_cond(cond)}`"
    suffix = "" if cond is None else f"::path {_show_cond(cond)}"
    apps = extract_apps(te, val, "CG")
    if len(apps) != 2:
        if len(apps) == 0 and cond is None:
            raise AnalysisError("formulate_isobar_cg_coefficients returns no CG factor (shape outside the grammar)")
        # a special case that returns fewer coefficients: CG(j1 m1; j2 m2 | 0 0) = (-1)^(j1-m1)/sqrt(2 j1+1),
        # CG(L 0; S d | J d) != 1 in general - a factor may only be dropped where it is identically 1,
        # i.e. never on a condition that leaves the spins of the coupled pair open
        ctx.violation("R-TERM", f"{fn.qual}::roles{suffix}", tree.loc(fn.node),
                      f"formulate_isobar_cg_coefficients returns {len(apps)} distinct Clebsch-Gordan factor(s) instead of the two of the formula{on}",
                      "e.g. the spin-spin coefficient for S = 0 is (-1)^(s1-l1)/sqrt(2 s1+1), which alternates in sign with the helicity: dropping it changes the relative sign of the helicity amplitudes of a fermion pair")
        return
    delta = path(te, "decay.children[0].spin_projection") - path(te, "decay.children[1].spin_projection")
    ls = {
        "j1": path(te, "decay.interaction.l_magnitude"), "m1": RF.const(0),
        "j2": path(te, "decay.interaction.s_magnitude"), "m2": delta,
        "j3": path(te, "decay.parent.particle.spin"), "m3": delta,
    }
    ss = {
        "j1": path(te, "decay.children[0].particle.spin"), "m1": path(te, "decay.children[0].spin_projection"),
        "j2": path(te, "decay.children[1].particle.spin"), "m2": -path(te, "decay.children[1].spin_projection"),
        "j3": path(te, "decay.interaction.s_magnitude"), "m3": delta,
    }

    def matches(got, want):
        return [f"{k} = {got.get(k)!r} instead of {w!r}" for k, w in want.items() if got.get(k) is None or _role_differs(te, got.get(k), w, k)]

    # assign the two factors to the two specifications (order of the product is irrelevant)
    best = None
    for a, b in ((apps[0], apps[1]), (apps[1], apps[0])):
        probs = [f"CG(L0;S d|J d): {p}" for p in matches(a, ls)] + [f"CG(s1 l1;s2 -l2|S d): {p}" for p in matches(b, ss)]
        if best is None or len(probs) < len(best):
            best = probs
    ctx.verdict(not best, "R-TERM", f"{fn.qual}::roles{suffix}", tree.loc(fn.node),
                f"canonical basis{on}: CG(L,0;S,d|J,d) * CG(s1,l1;s2,-l2|S,d) with d = l1 - l2 of children[0], children[1]", best or None)
    # the product of exactly these two
    from ..terms import deep_atoms

    n_atoms = len([a for a in val.atoms() if te.is_app(a)])
    r = val.normalized()
    ok = n_atoms == 2 and r.d.is_const() and len(r.n.t) == 1 and list(r.n.t.values())[0] / r.d.const_value() == 1
    ctx.verdict(ok, "R-TERM", f"{fn.qual}::product{suffix}", tree.loc(fn.node), "the result is the plain product of the two coefficients")


# --------------------------------------------------------------------------- R-FOLD
# The fold chain (top expression -> register -> topology amplitude -> sequential decay) is executed symbolically as
# ONE function (sa/symex.py): private helpers, generator functions, comprehensions, accumulator loops, `sum` / `reduce`
# / `math.prod`, temporaries and aliases all reduce to the same values.  The rules read WHAT ends up in
# `model.amplitudes`, `model.components` and the returned intensity - not how the chain is cut into methods:
#
#   amplitudes[create_amplitude_symbol(..)] = sum over every transition t of the topology group and every graph g of
#       _perform_combinatorics(t) of   [coefficient(c) *] prod over every node n of c.topology.nodes of
#       _formulate_partial_decay(c, n) [* prefactor(c) iff it is not None],   c = _freeze(g)
#   components["A_{name(c)}"] (+)= that chain amplitude;   components["I_{..}"] = |sum over the topologies|^2
#   intensity = PoolSum(|formulate_amplitude(..)|^2, ...)
#
# Three-valued: a value that was completely followed and breaks the condition is a VIOLATION, a value the symbolic
# execution (or this reading) cannot interpret is an ANALYSIS-ERROR.

CHAIN_ATOMS = frozenset({
    "_perform_combinatorics", "_freeze", "_formulate_partial_decay", "__generate_amplitude_coefficient", "__generate_amplitude_prefactor",
    "__register_vanishing_amplitudes", "group_by_spin_projection", "group_by_topology", "__generate_helicity_coupling", "__formulate_dynamics",
    "formulate_isobar_wigner_d", "formulate_isobar_cg_coefficients",
})
# functions whose meaning the rules know (a value built from them and from plain Python is "completely followed")
KNOWN = (
    "_perform_combinatorics", "_freeze", "_formulate_partial_decay", "__generate_amplitude_coefficient", "__generate_amplitude_prefactor",
    "group_by_spin_projection", "group_by_topology", "create_amplitude_symbol", "generate_amplitude_name", "generate_transition_label",
    "collect_spin_projections", "formulate_amplitude", "PoolSum", "__generate_helicity_coupling", "__formulate_dynamics",
    "formulate_isobar_wigner_d", "formulate_isobar_cg_coefficients", "generate_sequential_amplitude_suffix", "generate_two_body_decay_suffix",
    "TwoBodyDecay.from_transition", "TwoBodyDecay.create",
    "__register_vanishing_amplitudes",  # defines the amplitude symbols without a transition as 0 (C01); never a coherent sum
)
SEQ = f"{BUILDER}.__formulate_sequential_decay"
TAM = f"{BUILDER}.__formulate_topology_amplitude"
REG = f"{BUILDER}.__register_amplitudes"
TOP = f"{BUILDER}.__formulate_top_expression"
WHOLE_BUILTINS = {"list", "tuple", "sorted", "reversed", "iter"}
PARTIAL_BUILTINS = {"filter", "next", "min", "max"}
PARTIAL_LIBRARY = {"itertools.islice", "itertools.takewhile", "itertools.dropwhile", "itertools.filterfalse", "itertools.compress", "random.sample", "random.choice", "heapq.nsmallest", "heapq.nlargest"}


def same_self(v):
    """``self`` inside a loop that writes through it (``self.x[k] = v``) is still ``self``."""
    if isinstance(v, tuple):
        carried = {t: ("param", "self") for t in subterms(v) if t[0] == "carried" and t[1] == "self"}
        if carried:
            v = subst(v, carried)
    return v


def _self_mapping(v) -> str | None:
    """``"amplitudes"`` for the value of ``self.<...>.amplitudes`` (an attribute path on ``self``)."""
    if not (isinstance(v, tuple) and v and v[0] == "attr"):
        return None
    root = v
    while isinstance(root, tuple) and root and root[0] == "attr":
        root = root[1]
    return v[2] if root == ("param", "self") else None


def whole_collection(it):
    """(True, None) if iterating ``it`` visits every element of a collection, (False, why) if it definitely visits
    only part of one, (None, why) if this reading cannot tell."""
    if not (isinstance(it, tuple) and it):
        return None, f"iterable {it!r}"
    k = it[0]
    if k in {"param", "attr", "each", "item", "global", "list", "tuple", "set", "dict", "foreach"}:
        return True, None
    if k == "sub":
        if isinstance(it[2], tuple) and it[2] and it[2][0] == "slice":
            return False, f"`{sx_show(it)[:60]}` is a slice of the collection"
        return True, None  # one element of a mapping / sequence, iterated completely
    if k == "phi":
        verdicts = [whole_collection(x) for _, x in it[1]]
        for ok, why in verdicts:
            if ok is not True:
                return ok, why
        return True, None
    if k == "call":
        f = it[1]
        if f[0] == "builtin":
            if f[1] in WHOLE_BUILTINS and it[2]:
                return whole_collection(it[2][0])
            if f[1] in {"map", "zip", "enumerate"} and it[2]:
                # visits every element of its iterables (a `map` that the execution could not expand element-wise)
                for x in (it[2][1:] if f[1] == "map" else it[2]):
                    ok, why = whole_collection(x)
                    if ok is not True:
                        return ok, why
                return True, None
            if f[1] in PARTIAL_BUILTINS:
                return False, f"`{sx_show(it)[:60]}` selects part of the collection"
            return None, f"`{sx_show(it)[:60]}`: a builtin this reading does not know"
        if f[0] == "attr" and f[2] in {"values", "keys", "items", "copy"} and not it[2]:
            return True, None
        name = func_name(it)
        if name in PARTIAL_LIBRARY:
            return False, f"`{sx_show(it)[:60]}` selects part of the collection"
        if f[0] in {"method", "localfunc"} or name.startswith("ampform") or name.startswith("qrules"):
            return True, None  # the result of a function of the package IS the collection (what it contains is that function's business)
        return None, f"`{sx_show(it)[:60]}`: whether this yields the whole collection is not known"
    return None, f"`{sx_show(it)[:60]}`"


def early_exits(sx, eaches) -> list[str]:
    """`break` / `return` statements inside the `for` loops (of the analysed function or of an inlined helper /
    generator function) whose generic element is one of ``eaches``: the loop does not visit every element."""
    wanted = {e for e in eaches}
    out = []
    for info in sx.loops.values():
        if info.each is None:
            continue
        e = flatten_each(same_self(info.each))
        if e not in wanted and same_self(info.each) not in wanted:
            continue
        todo = list(info.node.body)
        while todo:
            n = todo.pop()
            if isinstance(n, (ast.FunctionDef, ast.AsyncFunctionDef, ast.Lambda, ast.ClassDef)):
                continue
            if isinstance(n, ast.Return) or (isinstance(n, ast.Break) and _innermost_loop_node(n) is info.node):
                out.append(f"`{type(n).__name__.lower()}` inside the loop over `{show(info.each[1])[:50]}` (line {getattr(n, 'lineno', '?')}): later elements never contribute")
            todo.extend(ast.iter_child_nodes(n))
    return sorted(set(out))


def _innermost_loop_node(node: ast.AST):
    for a in ancestors(node):
        if isinstance(a, (ast.For, ast.While, ast.AsyncFor)):
            return a
    return None


def mentions(v, name: str) -> bool:
    """Is the function ``name`` called inside ``v`` - or handed over as a function value (``map(name, xs)``)?"""
    return bool(calls_of(v, name)) or any(x[0] in {"global", "localfunc"} and isinstance(x[1], str) and x[1].endswith(name) for x in subterms(v))


class Store:
    """One write ``self.<..>.<mapping>[key] = value``: where it runs (ranges, conditions) and what it writes."""

    def __init__(self, mapping: str, pc: tuple, key, value, ranges: tuple, text: str) -> None:
        self.mapping, self.pc, self.key, self.value, self.ranges, self.text = mapping, pc, key, value, ranges, text


class ChainModel:
    """The effects of ``HelicityAmplitudeBuilder.__formulate_top_expression`` with the whole fold chain inlined."""

    def __init__(self, tree: Tree) -> None:
        self.tree = tree
        self.top = tree.func(TOP)
        sx = SymEx(tree, atoms=CHAIN_ATOMS, inline_depth=8)
        ret, _ = sx.run(self.top)
        self.sx = sx
        self.ret = flatten_each(same_self(ret))
        self.stores: list[Store] = []
        self.unread: list[str] = []  # modifications of the two mappings that this reading cannot interpret
        loops = {info.uid: info for info in sx.loops.values()}
        for ev in sx.events:
            kind, pc, ctx_loops = ev[0], same_self(ev[1]), ev[-1]
            if kind == "store":
                target, value = same_self(ev[2]), same_self(ev[3])
                if target[0] == "sub" and _self_mapping(target[1]) in {"amplitudes", "components"}:
                    self._add(_self_mapping(target[1]), pc, target[2], value, ctx_loops, loops, sx_show(target)[:80])
                elif _self_mapping(target) in {"amplitudes", "components"}:
                    if not (isinstance(value, tuple) and value and value[0] == "dict" and not value[1]):
                        self.unread.append(f"`{sx_show(target)[:50]}` is re-bound to `{sx_show(value)[:50]}`")
            elif kind == "call":
                v = same_self(ev[2])
                f = v[1]
                if f[0] == "attr" and _self_mapping(f[1]) in {"amplitudes", "components"}:
                    mapping = _self_mapping(f[1])
                    arg = v[2][0] if len(v[2]) == 1 and not v[3] else None
                    if f[2] == "update" and isinstance(arg, tuple) and arg and arg[0] == "dict" and not any(k[0] == "star" for k, _ in arg[1]):
                        for k, x in arg[1]:
                            eaches, pcs, key = unwrap(k)
                            self._add(mapping, pc + pcs, key, x, ctx_loops, loops, sx_show(v)[:80], extra=eaches)
                    elif f[2] == "setdefault" and len(v[2]) == 2 and not v[3] and as_number(v[2][1]) == 0:
                        pass  # `m.setdefault(k, 0)` in front of `m[k] += x`: the entry exists, its value is untouched
                    elif f[2] not in {"get", "keys", "values", "items", "copy"}:
                        self.unread.append(f"`{sx_show(v)[:80]}`")

    def _add(self, mapping, pc, key, value, ctx_loops, loops, text, extra=()) -> None:
        eaches = []
        for uid in ctx_loops:
            info = loops.get(uid)
            if info is None or info.each is None:
                self.unread.append(f"{text}: written inside a `while` loop")
                return
            eaches.append(same_self(info.each))
        eaches += list(extra)
        ranges, conds = expand_ranges(eaches)
        key, value = flatten_each(key), flatten_each(value)
        pc = tuple(flatten_each(pc)) + conds if pc else conds
        for e in free_eaches(("tuple", (key, value, pc))):
            if e not in ranges:
                ranges += (e,)
        self.stores.append(Store(mapping, pc, key, value, ranges, text))

    # ------------------------------------------------------------ the three writes the rules read
    def _pick(self, mapping: str, marker: str) -> list[Store]:
        return [s for s in self.stores if s.mapping == mapping and calls_of(s.key, marker)]

    def amplitude_stores(self) -> list[Store]:
        return [s for s in self.stores if s.mapping == "amplitudes" and not _is_zero(s.value)]

    def chain_component_stores(self) -> list[Store]:
        return self._pick("components", "generate_amplitude_name")

    def group_component_stores(self) -> list[Store]:
        return self._pick("components", "generate_transition_label")

    def loose_ends(self) -> list[str]:
        """Why the absence of an effect proves nothing: parts of the chain that were not followed (calls of methods /
        package functions that were not inlined and whose meaning the rules do not know, unmodelled statements)."""
        out = [*self.unread, *self.sx.imprecise]
        # a statement that calls a method of the object that HOLDS the two mappings (``self.<holder>.m(...)``), or of an
        # object on the way to it, and that was not executed: what it writes into them is not known
        holders = set()
        for ev in self.sx.events:
            for x in ev[2:4]:
                if isinstance(x, tuple) and x and isinstance(x[0], str):
                    holders |= {t[1] for t in subterms(same_self(x)) if _self_mapping(t) in {"amplitudes", "components"}}
        for ev in self.sx.events:
            if ev[0] != "call":
                continue
            v = same_self(ev[2])
            f = v[1]
            if f[0] != "attr" or _self_mapping(("attr", f[1], "")) is None or any(f[2] == q or f[2].endswith(q) for q in KNOWN):
                continue
            if not holders or any(_is_prefix(f[1], h) for h in holders):
                why = f"`{sx_show(v)[:70]}` is a method call on an object of the builder that was not followed"
                if why not in out:
                    out.append(why)
        for ev in self.sx.events:
            if ev[0] in {"call", "localcall", "store"}:
                for x in ev[2:4]:
                    if isinstance(x, tuple) and x and isinstance(x[0], str):
                        why = not_followed(same_self(x), KNOWN)
                        if why and why not in out:
                            out.append(why)
        why = not_followed(self.ret, KNOWN)
        if why:
            out.append(why)
        return out

    def undecided(self, what: str) -> AnalysisError:
        more = "; ".join(self.loose_ends()[:3])
        return AnalysisError(f"{what}" + (f" ({more})" if more else ""))

    def where(self, qual: str) -> str:
        fn = self.tree.funcs.get(qual)
        return self.tree.loc((fn or self.top).node)


def _is_prefix(path, whole) -> bool:
    """Is the attribute path ``path`` equal to ``whole`` or an object on the way to it (``self.a`` for ``self.a.b``)?"""
    while True:
        if whole == path:
            return True
        if not (isinstance(whole, tuple) and whole and whole[0] == "attr"):
            return False
        whole = whole[1]


def _is_zero(v) -> bool:
    return as_number(v) == 0


def sx_show(v) -> str:
    return show(v)


def chain_model(tree: Tree) -> ChainModel:
    cached = getattr(tree, "_c02_chain_model", None)
    if cached is None:
        cached = ChainModel(tree)
        try:
            tree._c02_chain_model = cached
        except AttributeError:
            pass
    return cached


def chain_factors(v, sx) -> list:
    """``symex.factors`` plus multiplication folds whose step is conditional (a filtered comprehension / a guarded
    accumulation): the generic factor then carries the condition (``foreach(e, when(pc, x))``)."""
    out: list = []
    for f in factors(v, sx):
        if f[0] == "fold":
            step, head, conds = f[3], f[4], ()
            if step[0] == "when":
                conds, step = step[1], step[2]
            if step[0] == "mul" and list(step[1]).count(head) == 1:
                rest = tuple(x for x in step[1] if x != head)
                term = rest[0] if len(rest) == 1 else ("mul", rest)
                if conds:
                    term = ("when", conds, term)
                for e in reversed(f[1]):
                    term = ("foreach", e, term)
                out += ([] if as_number(f[2]) == 1 else chain_factors(f[2], sx)) + [term]
                continue
        out.append(f)
    return out


def _sum_terms(v, sx):
    """[(eaches, conditions, term)] of a sum value (None if ``v`` is not a sum; a zero start is dropped)."""
    parts = addends(v, sx)
    if parts is None:
        return None
    start, items = parts
    out = []
    if as_number(start) != 0:
        out.append(unwrap(start))
    for item in items:
        if as_number(item) == 0:
            continue
        out.append(unwrap(item))
    return out


def coherent_sum(model: ChainModel):
    """(store, [(eaches, conditions, chain term)]) of the one write into ``amplitudes`` that holds a sum over chains."""
    stores = model.amplitude_stores()
    if model.unread:
        raise model.undecided("the amplitudes / components of the model are modified in a way the rule cannot read")
    if len(stores) != 1:
        return stores, None
    terms = _sum_terms(stores[0].value, model.sx)
    return stores, terms


def _chain_of(term):
    """The transition whose chain amplitude ``term`` is: the common first argument of its coefficient / prefactor /
    partial-decay calls (None if there are none, False if they disagree)."""
    firsts = set()
    for name in ("_formulate_partial_decay", "__generate_amplitude_coefficient", "__generate_amplitude_prefactor"):
        for c in calls_of(term, name):
            if c[2]:
                firsts.add(c[2][0])
    if not firsts:
        return None
    return next(iter(firsts)) if len(firsts) == 1 else False


def check_fold(ctx: Check, tree: Tree) -> None:
    """R-FOLD: every transition of a topology group, every graph of its identical-particle symmetrisation and every
    node of the chain reaches the amplitude, unconditionally, and the accumulated terms are folded whole."""
    model = chain_model(tree)
    sx = model.sx
    stores, terms = coherent_sum(model)
    key = f"{TAM}::coherent-sum"
    where = model.where(TAM)
    if len(stores) != 1:
        if not stores and not model.loose_ends():
            ctx.violation("R-FOLD", key, where, "no coherent sum over the chains of a topology group is stored as an amplitude of the model", None)
            return
        raise model.undecided(f"{len(stores)} writes into the amplitudes of the model (one expected)")
    store = stores[0]
    if terms is None:
        why = not_followed(store.value, KNOWN)
        if why:
            raise model.undecided(f"the amplitude stored by `{store.text}` is not a sum the rule can read: {why}")
        ctx.violation("R-FOLD", key, where, "the amplitude of a topology group is the sum over its chains", f"`{sx_show(store.value)[:200]}` is not a sum")
        return
    problems: list[str] = []
    chain_terms = []
    for eaches, pcs, term in terms:
        if not eaches:
            why = not_followed(term, KNOWN)
            if why:
                raise model.undecided(f"an addend of the amplitude is not read: {why}")
            problems.append(f"`{sx_show(term)[:80]}` is added once, not per transition and symmetrisation graph")
            continue
        if pcs:
            problems.append(f"terms are only added when `{show_pc(pcs)[:100]}`: chains are dropped from the coherent sum")
        levels = list(eaches)
        for i, e in enumerate(levels):
            ok, why = whole_collection(e[1])
            if ok is False:
                problems.append(f"not every element is summed: {why}")
            elif ok is None:
                raise model.undecided(f"cannot decide whether the sum runs over a whole collection: {why}")
            later = [x[1] for x in levels[i + 1:]] + [term]
            if not any(contains(x, e) for x in later):
                problems.append(f"neither the summed term nor an inner level depends on the element of `{sx_show(e[1])[:60]}`: every element contributes the same term")
        graphs = [e for e in levels if calls_of(e[1], "_perform_combinatorics")]
        if not graphs:
            raise model.undecided("the sum over the identical-particle symmetrisation (_perform_combinatorics) was not found in the amplitude")
        for g in graphs:
            arg = calls_of(g[1], "_perform_combinatorics")[0][2]
            if not (arg and arg[0] in levels):
                problems.append(f"`{sx_show(g[1])[:60]}` does not symmetrise the transition of the enclosing level")
        chain_terms.append((eaches, term))
    if store.pc:
        problems.append(f"the amplitude is only stored when `{show_pc(store.pc)[:100]}`")
    problems += early_exits(sx, [e for eaches, _, _ in terms for e in eaches])
    per_graph = [e for e in store.ranges if calls_of(e[1], "_perform_combinatorics")]
    if per_graph:
        problems.append("the amplitude symbol is written once per symmetrisation graph: no entry holds the sum over all chains of the group")
    ctx.verdict(not problems, "R-FOLD", key, where,
                f"amplitude of a topology group = sum over every transition and every graph of _perform_combinatorics ({len(terms)} generic term(s), folded whole, unconditional)", problems or None)
    ctx.stats["fold_levels"] = sum(len(e) for e, _ in chain_terms)
    # ---- product over the nodes of each chain
    problems = []
    n_products = 0
    for eaches, term in chain_terms:
        chain = _chain_of(term)
        for pc, val in cases(term):
            for f in chain_factors(val, sx):
                if f[0] != "foreach":
                    continue
                lv, pcs, x = unwrap(f)
                n_products += 1
                if pcs:
                    problems.append(f"node factors are only multiplied in when `{show_pc(pcs)[:80]}`: nodes are skipped")
                for e in lv:
                    ok, why = whole_collection(e[1])
                    if ok is False:
                        problems.append(f"not every node is multiplied in: {why}")
                    elif ok is None:
                        raise model.undecided(f"cannot decide whether the product runs over all nodes: {why}")
                    base = e[1]
                    while (base[0] == "call" and base[1][0] == "builtin" and base[1][1] in WHOLE_BUILTINS and base[2]) or (base[0] == "sub" and base[2][0] == "slice"):
                        base = base[2][0] if base[0] == "call" else base[1]
                    if chain not in (None, False) and not (base[0] == "attr" and base[2] == "nodes" and base[1] == ("attr", chain, "topology")):
                        if not_followed(base, KNOWN) is None and base[0] == "attr" and base[2] == "nodes":
                            problems.append(f"the product runs over `{sx_show(base)[:60]}`, not over the nodes of the chain `{sx_show(chain)[:40]}`")
                        else:
                            raise model.undecided(f"the product runs over `{sx_show(base)[:60]}`: not recognised as the nodes of the chain")
                    if not contains(x, e):
                        problems.append("the node factor does not depend on the node")
                problems += early_exits(sx, lv)
    if not n_products and not any(p for p in problems):
        pass  # reported by `returns-product` (check_products)
    ctx.verdict(not problems, "R-FOLD", f"{SEQ}::product-over-nodes", model.where(SEQ),
                f"every node of the chain's topology contributes its factor, unconditionally ({n_products} product(s) on the paths of the chain amplitude)", sorted(set(problems)) or None)
    # ---- every group of outer spin projections / every topology is registered
    problems = []
    groups = model.group_component_stores()
    for s in [store, *groups]:
        if s.pc and s is not store:
            problems.append(f"`{s.text}` only runs when `{show_pc(s.pc)[:80]}`")
        for e in s.ranges:
            ok, why = whole_collection(e[1])
            if ok is False:
                problems.append(f"`{s.text}` does not run for every element: {why}")
            elif ok is None:
                raise model.undecided(f"cannot decide whether `{s.text}` runs for a whole collection: {why}")
    outer = [e for s in [store, *groups] for e in s.ranges]
    problems += early_exits(sx, outer)
    if not any(calls_of(e[1], "group_by_spin_projection") for e in outer):
        raise model.undecided("the iteration over group_by_spin_projection(...) was not found around the stored amplitudes")
    ctx.verdict(not problems, "R-FOLD", f"{TOP}::every-group", model.where(TOP),
                "every group of outer spin projections and every topology of a group is registered, unconditionally", problems or None)


def _chain_cases(model: ChainModel):
    """[(path condition, factors)] of the chain amplitude (the generic term of the coherent sum)."""
    stores, terms = coherent_sum(model)
    if len(stores) != 1 or not terms:
        return None
    generic = [t for e, _, t in terms if e]
    if len(generic) != 1:
        return None
    term = generic[0]
    return term, [(pc, chain_factors(val, model.sx)) for pc, val in cases(term)]


def check_amplitude_stored(ctx: Check, tree: Tree) -> None:
    """The coherent sum over the chains of a topology group is stored, unconditionally, as the
    definition of the amplitude symbol the intensity refers to."""
    model = chain_model(tree)
    stores = model.amplitude_stores()
    if model.unread:
        raise model.undecided("the amplitudes of the model are modified in a way the rule cannot read")
    key = f"{TAM}::amplitude-stored"
    where = model.where(TAM)
    what = "the coherent sum that is returned is also stored unconditionally as model.amplitudes[create_amplitude_symbol(...)]"
    if not stores:
        if model.loose_ends():
            raise model.undecided("no write into the amplitudes of the model was found")
        ctx.violation("R-FOLD", key, where, what, "no write into the amplitudes of the model on the formulate path")
        return
    problems = []
    if len(stores) != 1:
        raise model.undecided(f"{len(stores)} writes into the amplitudes of the model (one expected)")
    s = stores[0]
    if s.pc:
        problems.append(f"stored only when `{show_pc(s.pc)[:100]}`")
    if not calls_of(s.key, "create_amplitude_symbol"):
        why = not_followed(s.key, KNOWN)
        if why:
            raise model.undecided(f"the key of `{s.text}` is not read: {why}")
        problems.append(f"the key `{sx_show(s.key)[:60]}` is not create_amplitude_symbol(...)")
    if [e for e in s.ranges if calls_of(e[1], "_perform_combinatorics")]:
        problems.append("written once per symmetrisation graph (the key follows the permuted graph): the symbol the intensity refers to does not hold the sum over all chains")
    # the very value that flows on into the intensity component of the group
    groups = model.group_component_stores()
    if len(groups) == 1 and not contains(groups[0].value, s.value):
        why = not_followed(groups[0].value, KNOWN) or not_followed(s.value, KNOWN)
        if why:
            raise model.undecided(f"cannot compare the stored amplitude with the sum that is returned: {why}")
        problems.append("the stored value is not the coherent sum that the group intensity is built from")
    ctx.verdict(not problems, "R-FOLD", key, where, what, problems or None)


def _prefactor_state(pc):
    """True: the path condition says the prefactor is None; False: it is not None; None: the path says nothing;
    "?" : it tests the prefactor in a way this reading does not interpret."""
    state = None
    for t, o in pc:
        if not calls_of(t, "__generate_amplitude_prefactor"):
            continue
        if t[0] == "cmp" and t[1] in {"is", "=="} and ("const", None) in (t[2], t[3]):
            other = t[2] if t[3] == ("const", None) else t[3]
            if other[0] == "call" and func_name(other).endswith("__generate_amplitude_prefactor"):
                state = o
                continue
        return "?"
    return state


def check_products(ctx: Check, tree: Tree, symmetrisation: bool = True) -> None:
    """coefficient x product(nodes) x prefactor; |coherent sum|^2 ; D x dynamics (x CG)."""
    model = chain_model(tree)
    sx = model.sx
    where = model.where(SEQ)
    got = _chain_cases(model)
    if got is None:
        stores, terms = coherent_sum(model)
        if model.loose_ends() or (len(stores) == 1 and not_followed(stores[0].value, KNOWN)):
            raise model.undecided("the chain amplitude (the term of the coherent sum) was not found")
        ctx.violation("R-FOLD", f"{SEQ}::returns-product", where, "sequential amplitude = coefficient x product of the partial decays of all nodes [x prefactor]",
                      f"no single generic term in the coherent sum ({len(stores)} amplitude writes)")
        check_amplitude_stored(ctx, tree)
        return
    term, per_case = got
    chain = _chain_of(term)
    if chain is False:
        raise model.undecided("the coefficient / prefactor / partial decays of one chain amplitude refer to different transitions")
    shape, prefactor, plain, folds = [], [], [], []
    for c in subterms(term):
        if c[0] == "call" and func_name(c) in {"sympy.Mul", "sympy.Add"} and any(k == "evaluate" and as_number(x) == 0 or (k == "evaluate" and x == ("const", False)) for k, x in c[3]):
            plain.append(f"`{sx_show(c)[:100]}` is an UNEVALUATED {func_name(c).split('.')[-1]}: the amplitude is not the canonical product (rebuilding the expression - xreplace, pickle - changes it)")
    for pc, fs in per_case:
        on = f" on the path `{show_pc(pc)[:80]}`" if pc else ""
        coeff = [f for f in fs if f[0] == "call" and func_name(f).endswith("__generate_amplitude_coefficient")]
        pref = [f for f in fs if f[0] == "call" and func_name(f).endswith("__generate_amplitude_prefactor")]
        prods = [f for f in fs if f[0] == "foreach"]
        rest = [f for f in fs if f not in coeff and f not in pref and f not in prods and as_number(f) != 1]
        for f in rest:
            if f[0] == "fold" and addends(f, sx) is not None:
                folds.append(f"the per-node factors are ADDED{on}: `{sx_show(f)[:80]}`")
            elif f[0] == "binop" and f[1] in {"/", "+", "-", "**", "//", "%"} and not_followed(f, KNOWN) is None:
                plain.append(f"`{sx_show(f)[:100]}`{on} is not a product")
            elif f[0] == "call" and func_name(f) in {"sympy.Add"} and not_followed(f, KNOWN) is None:
                plain.append(f"`{sx_show(f)[:100]}`{on} is not a product")
            else:
                raise model.undecided(f"a factor of the chain amplitude is not understood: `{sx_show(f)[:100]}` ({not_followed(f, KNOWN) or 'not a coefficient, prefactor or product over the nodes'})")
        couplings = any(o is True and any(x[0] == "attr" and x[2] == "use_helicity_couplings" for x in subterms(t)) for t, o in pc)
        if len(prods) != 1 and not any("ADDED" in x for x in folds):
            shape.append(f"{len(prods)} products over the nodes{on} (one expected)")
        for p in prods:
            _, _, x = unwrap(p)
            direct = x[0] == "call" and func_name(x).endswith("_formulate_partial_decay")
            if not direct:
                why = not_followed(x, KNOWN)
                if why:
                    raise model.undecided(f"the factor of a node is not read: {why}")
                shape.append(f"the factor of a node is `{sx_show(x)[:100]}`{on}, not the value of _formulate_partial_decay(chain, node) (the overridable per-node amplitude)")
            elif chain is not None and (len(x[2]) < 2 or x[2][0] != chain):
                shape.append(f"the factor of a node is formulated for `{sx_show(x[2][0])[:40] if x[2] else ''}`, not for the chain")
        if not coeff and not couplings:
            shape.append(f"the amplitude coefficient is not a factor{on}")
        if len(coeff) > 1:
            shape.append(f"the amplitude coefficient is multiplied in {len(coeff)} times{on}")
        state = _prefactor_state(pc)
        if state == "?":
            raise model.undecided(f"the parity prefactor is tested in a way the rule does not interpret (`{show_pc(pc)[:100]}`)")
        if state is True and pref:
            prefactor.append("the prefactor is multiplied in on the path where it is None")
        if state is False and len(pref) != 1:
            prefactor.append(f"{len(pref)} multiplications by the prefactor on the path where it is not None (one expected)")
        if state is None and len(pref) != 1:
            prefactor.append(f"{len(pref)} multiplications by the parity prefactor{on} (one expected)" if pref else f"the parity prefactor never multiplies the amplitude{on}")
    ctx.verdict(not shape, "R-FOLD", f"{SEQ}::returns-product", where,
                "sequential amplitude = coefficient x product over the nodes of _formulate_partial_decay(chain, node) [x prefactor]", sorted(set(shape)) or None)
    ctx.verdict(not prefactor, "R-FOLD", f"{SEQ}::prefactor-multiplies", where, "the parity prefactor multiplies the whole sequential amplitude whenever there is one", sorted(set(prefactor)) or None)
    ctx.verdict(not plain, "R-FOLD", f"{SEQ}::plain-product", where, "every path of the sequential amplitude is a plain product (coefficient * product of the node factors)", sorted(set(plain)) or None)
    ctx.verdict(not folds, "R-FOLD", f"{SEQ}::reduce-mul", where, "the per-node factors are combined by multiplication", folds or None)
    check_amplitude_stored(ctx, tree)
    # ---- the chain component A_{...}
    comps = model.chain_component_stores()
    problems = []
    accumulates = False
    if len(comps) != 1:
        if not comps and not model.loose_ends():
            problems.append("no A_{...} component is stored for the chain")
        else:
            raise model.undecided(f"{len(comps)} writes of chain components (one expected)")
    else:
        c = comps[0]
        if c.pc:
            problems.append(f"the component is only stored when `{show_pc(c.pc)[:80]}`")
        stored = c.value
        parts = addends(stored, sx)
        if stored != term and parts is not None:
            start, items = parts
            items = ([] if as_number(start) == 0 else [start]) + list(items)
            prev = [x for x in items if _is_previous_entry(x, c)]
            new = [x for x in items if x not in prev]
            if prev and len(new) == 1:
                accumulates, stored = True, new[0]
        if stored != term:
            why = not_followed(stored, KNOWN)
            if why:
                raise model.undecided(f"the stored chain component is not read: {why}")
            problems.append(f"the stored component `{sx_show(stored)[:120]}` is not the complete chain amplitude that enters the coherent sum")
    ctx.verdict(not problems, "R-FOLD", f"{SEQ}::component-stored", where, "every chain amplitude that enters the coherent sum is stored unconditionally as component A_{...} (the complete expression incl. prefactor)", problems or None)
    # the store runs once per graph of the identical-particle symmetrisation, and the key is a LABEL of the
    # chain (particle names and projections): the permuted graphs of one transition have equal labels by
    # construction (qrules permutes final states of equal name).  A plain assignment keeps the last
    # permutation only; the component of a chain must hold the chain and its symmetrisation partners.
    if symmetrisation and len(comps) == 1 and not problems:
        c = comps[0]
        per_graph = bool([e for e in c.ranges if calls_of(e[1], "_perform_combinatorics")])
        ok_acc = accumulates or not per_graph
        ctx.verdict(ok_acc, "R-FOLD", f"{SEQ}::component-accumulates-over-symmetrisation", where,
                    "the A_{...} component of a chain holds the chain AND its identical-particle permutations (equal labels): the store accumulates",
                    None if ok_acc else f"`{c.text}` overwrites: of the graphs returned by _perform_combinatorics only the last one is kept under the shared name, "
                                        "so the components no longer add up to the amplitudes")
    # ---- intensity = PoolSum(|A|^2, ...)
    ret = model.ret
    pools = [x for x in subterms(ret) if x[0] == "call" and func_name(x).endswith("PoolSum")]
    ok, detail = False, None
    if len(pools) != 1 or not pools[0][2]:
        why = not_followed(ret, KNOWN)
        if why or len(pools) > 1:
            raise model.undecided(f"the returned intensity is not read: {why or 'several PoolSum'}")
        detail = f"`{sx_show(ret)[:120]}` is not a PoolSum"
    else:
        inner = _abs_squared(pools[0][2][0])
        if inner is None:
            why = not_followed(pools[0][2][0], KNOWN)
            if why:
                raise model.undecided(f"the summand of the intensity is not read: {why}")
            detail = sx_show(pools[0][2][0])[:160]
        elif not calls_of(inner, "formulate_amplitude"):
            why = not_followed(inner, KNOWN)
            if why:
                raise model.undecided(f"the amplitude of the intensity is not read: {why}")
            detail = f"|{sx_show(inner)[:100]}|^2 is not built from formulate_amplitude(...)"
        else:
            ok = True
    ctx.verdict(ok, "R-FOLD", f"{TOP}::abs-squared", model.where(TOP), "intensity = PoolSum(|coherent amplitude|^2, outer spin projections)", detail)
    for qual, wanted in ((f"{BUILDER}._formulate_partial_decay", ("formulate_isobar_wigner_d", "__formulate_dynamics")),
                         (f"{HEL}::CanonicalAmplitudeBuilder._formulate_partial_decay", ("formulate_isobar_cg_coefficients", "_formulate_partial_decay"))):
        _check_partial_decay(ctx, tree, qual, wanted)
    # ---- the group component I_{...} = |sum over the topologies|^2
    groups = model.group_component_stores()
    if len(groups) != 1:
        if not groups and not model.loose_ends():
            ctx.violation("R-FOLD", f"{REG}::component", model.where(REG), "component I_{...} = |sum over the topologies of the group|^2", "no I_{...} component is stored")
            return
        raise model.undecided(f"{len(groups)} writes of group components (one expected)")
    g = groups[0]
    inner = _abs_squared(g.value)
    problems = []
    if inner is None:
        why = not_followed(g.value, KNOWN)
        if why:
            raise model.undecided(f"the group component is not read: {why}")
        problems.append(f"`{sx_show(g.value)[:120]}` is not |...|^2")
    else:
        terms = _sum_terms(inner, sx)
        amp = model.amplitude_stores()
        if terms is None or len(amp) != 1:
            why = not_followed(inner, KNOWN)
            if why or len(amp) != 1:
                raise model.undecided(f"the sum inside the group component is not read: {why or 'amplitude writes'}")
            problems.append(f"`{sx_show(inner)[:120]}` is not a sum over the topologies")
        else:
            for eaches, pcs, t in terms:
                if pcs:
                    problems.append(f"topologies are only added when `{show_pc(pcs)[:80]}`")
                if t != amp[0].value:
                    why = not_followed(t, KNOWN)
                    if why:
                        raise model.undecided(f"a term of the group component is not read: {why}")
                    problems.append("a term of the group component is not the stored topology amplitude")
                for e in eaches:
                    okw, why = whole_collection(e[1])
                    if okw is False:
                        problems.append(f"not every topology is summed: {why}")
                    elif okw is None:
                        raise model.undecided(f"cannot decide whether every topology is summed: {why}")
    ctx.verdict(not problems, "R-FOLD", f"{REG}::component", model.where(REG), "component I_{...} = |sum over the topologies of the group|^2", problems or None)


def _is_previous_entry(x, store: Store) -> bool:
    """``mapping.get(key, 0)`` / ``mapping[key]`` of the very mapping and key that ``store`` writes."""
    if x[0] == "sub" and _self_mapping(x[1]) == store.mapping and x[2] == store.key:
        return True
    if x[0] == "call" and x[1][0] == "attr" and x[1][2] in {"get", "setdefault", "pop"} and _self_mapping(x[1][1]) == store.mapping and len(x[2]) == 2 and not x[3]:
        return x[2][0] == store.key and as_number(x[2][1]) == 0
    return False


def _abs_squared(v):
    """``x`` if ``v`` is ``|x|^2`` (``Abs(x)**2``, ``abs(x)**2``, ``x * conjugate(x)``), else None."""
    def absolute(t):
        if t[0] == "call" and func_name(t) in {"sympy.Abs", "abs"} and len(t[2]) == 1 and not t[3]:
            return t[2][0]
        return None

    if v[0] == "binop" and v[1] == "**" and as_number(v[3]) == 2:
        return absolute(v[2])
    if v[0] == "call" and func_name(v) == "sympy.Pow" and len(v[2]) == 2 and as_number(v[2][1]) == 2:
        return absolute(v[2][0])
    if v[0] == "mul" and len(v[1]) == 2:
        a, b = v[1]
        for x, y in ((a, b), (b, a)):
            if y[0] == "call" and func_name(y) in {"sympy.conjugate"} and y[2] == (x,):
                return x
            if y[0] == "call" and y[1][0] == "attr" and y[1][2] == "conjugate" and y[1][1] == x and not y[2]:
                return x
    return None


def _check_partial_decay(ctx: Check, tree: Tree, qual: str, wanted: tuple) -> None:
    """``_formulate_partial_decay`` returns, on every path, a plain product that contains the results of the wanted
    functions for ITS (transition, node)."""
    fn = tree.func(qual)
    sx = SymEx(tree, atoms=frozenset({"formulate_isobar_wigner_d", "__formulate_dynamics", "__generate_helicity_coupling", "formulate_isobar_cg_coefficients", "_formulate_partial_decay"}))
    ret, _ = sx.run(fn)
    params = [("param", p) for p in fn.params[1:3]]
    bad = []
    for pc, val in cases(flatten_each(ret)):
        on = f" on the path `{show_pc(pc)[:60]}`" if pc else ""
        fs = factors(val, sx)
        for name in wanted:
            hits = [f for f in fs if f[0] == "call" and func_name(f).endswith(name)]
            if not hits:
                why = not_followed(val, (*KNOWN, "_formulate_partial_decay"))
                if why:
                    raise AnalysisError(f"{qual}: the returned value is not read: {why}")
                bad.append(f"`{sx_show(val)[:100]}`{on} has no factor {name}(...)")
            elif any(tuple(h[2][:2]) != tuple(params) for h in hits):
                bad.append(f"`{sx_show(hits[0])[:80]}`{on} is not formulated for the (transition, node) of the call")
        for f in fs:
            if f[0] in {"binop", "fold"} or (f[0] == "call" and func_name(f) == "sympy.Add"):
                if not_followed(f, (*KNOWN, "_formulate_partial_decay")) is None:
                    bad.append(f"`{sx_show(f)[:80]}`{on} is not a factor of a plain product")
    ctx.verdict(not bad, "R-FOLD", f"{qual}::product", tree.loc(fn.node), f"{qual.split('::')[-1]} returns the product of the results of {sorted(wanted)}", bad or None)



LOSSY = {"int", "round", "abs", "bool", "floor", "ceil", "trunc", "len", "hash"}
INJECTIVE = {"tuple", "sorted", "list", "float", "Rational", "Fraction", "str", "repr", "frozenset", "Decimal", "sympify", "Integer"}
GROUP_FN = "ampform.helicity.decay::group_by_spin_projection"


def _no_uid(v):
    """Function values compared up to the serial number of a lambda."""
    if isinstance(v, tuple) and v and v[0] == "lambda" and len(v) == 3:
        return ("lambda", v[1])
    return v


def _strip_copies(v):
    while isinstance(v, tuple) and v and v[0] == "call" and v[1][0] == "builtin" and v[1][1] in {"list", "tuple", "iter"} and len(v[2]) == 1 and not v[3]:
        v = v[2][0]
    return v


def _grouping_keys(sx, ret, final) -> list:
    """The key values under which ``group_by_spin_projection`` files a transition: ``m[key].append(t)``,
    ``m.setdefault(key, []).append(t)``, ``m[key] = m.get(key, []) + [t]``, a dict (comprehension) whose entries are
    keyed by it, ``itertools.groupby(sorted(ts, key=f), key=f)`` (then the key is ``f(t)``)."""
    keys: list = []

    def add(k):
        k = flatten_each(k)
        if k not in keys:
            keys.append(k)

    for ev in sx.events:
        kind = ev[0]
        if kind == "call":
            v = ev[2]
            f = v[1]
            if f[0] == "attr" and f[2] in {"append", "extend", "add"}:
                recv = f[1]
                if recv[0] == "sub":
                    add(recv[2])
                elif recv[0] == "call" and recv[1][0] == "attr" and recv[1][2] == "setdefault" and len(recv[2]) == 2:
                    add(recv[2][0])
        elif kind == "mutate" and len(ev) >= 5 and ev[3] == "setdefault" and ev[4]:
            add(ev[4][0])
        elif kind == "store":
            target = ev[2]
            if target[0] == "sub" and ev[-1]:
                add(target[2])
    for v in [ret, *[x for s in final.scopes for x in s.values() if isinstance(x, tuple)]]:
        for d in subterms(v):
            if d[0] == "dict":
                for k, _ in d[1]:
                    if isinstance(k, tuple) and k and k[0] == "foreach":
                        add(unwrap(k)[2])
            elif d[0] == "dictcomp":
                for item in d[1]:
                    _, _, pair = unwrap(item)
                    if pair[0] == "tuple" and len(pair[1]) == 2:
                        add(pair[1][0])
    return keys


def check_group_key(ctx: Check, tree: Tree, state_identity: bool = True) -> None:
    """What is summed coherently is decided by the key of group_by_spin_projection: it must
    separate transitions by the (particle, spin projection) of EVERY outer state.  A key
    that maps different projections to one value merges groups: amplitudes that belong to
    different terms of the incoherent sum are added coherently.  The key is read as a VALUE (symbolic execution of
    the function with its helpers inlined): which attributes of which states it contains, in which order, through
    which conversions - not how the code that builds it is spelled."""
    from ..symex import State

    fn = tree.func(GROUP_FN)
    sx = SymEx(tree, inline_depth=6)
    ret, final = sx.run(fn)
    everything = [ret, *[x for ev in sx.events for x in ev[2:-1] if isinstance(x, tuple) and x and isinstance(x[0], str)],
                  *[x for s in final.scopes for x in s.values() if isinstance(x, tuple)]]
    # itertools.groupby only merges ADJACENT items: on an input that is not sorted by the same key the
    # items of one group arrive in several runs, and a dict built from the runs keeps only the last one
    groupbys = []
    for v in everything:
        for c in subterms(v):
            if c[0] == "call" and func_name(c) == "itertools.groupby" and c not in groupbys:
                groupbys.append(c)
    keys = []
    for gb in groupbys:
        kw = dict(gb[3])
        it = gb[2][0] if gb[2] else kw.get("iterable")
        keyf = kw.get("key", gb[2][1] if len(gb[2]) > 1 else None)
        if it is None:
            raise AnalysisError("group_by_spin_projection: itertools.groupby without an iterable")
        src = _strip_copies(it)
        is_sorted = src[0] == "call" and src[1] == ("builtin", "sorted") and src[2]
        sort_key = dict(src[3]).get("key") if is_sorted else None
        sorted_same = bool(is_sorted) and _no_uid(sort_key) == _no_uid(keyf)
        if not sorted_same:
            # understood and broken: not sorted at all, or sorted by another NAMED function; two different lambdas are not compared
            why = not_followed(src, ("group_by_spin_projection",))
            if why or (is_sorted and {(sort_key or ("x",))[0], (keyf or ("x",))[0]} & {"lambda", "partial", "unknown"}):
                raise AnalysisError(f"group_by_spin_projection: cannot decide whether the input of itertools.groupby is sorted by the group key ({why or 'two function values'})")
        ctx.verdict(sorted_same, "R-GROUPKEY", f"{fn.qual}::groupby-on-unsorted-input", tree.loc(fn.node),
                    f"`{show(gb)[:70]}` runs over an input sorted by the same key",
                    None if sorted_same else "transitions are ordered by topology first, so the same outer helicities recur once per topology: all but the last run of each key are dropped - whole topologies vanish from the coherent sum")
        if not sorted_same:
            return
        if keyf is None:
            raise AnalysisError("group_by_spin_projection: itertools.groupby without a key function")
        element = ("each", _strip_copies(src[2][0]), sx.uid())
        keys.append(flatten_each(sx.apply(keyf, (element,), (), State([{}]))))
    if not keys:
        keys = _grouping_keys(sx, ret, final)
    if len(keys) != 1:
        raise AnalysisError(f"group_by_spin_projection: expected one store of the transition into the list of its key "
                            f"(`groups[key].append(t)` / `groups.setdefault(key, []).append(t)`), found {len(keys)}" + (f" ({sx.imprecise[0]})" if sx.imprecise else ""))
    key = keys[0]
    known = ("group_by_spin_projection",)
    unfollowed = not_followed(key, known)
    if unfollowed is None:
        # a function VALUE applied to a state (the result of a call, a getter the execution could not apply) hides what it reads
        opaque = [c for c in subterms(key) if c[0] == "call" and c[1][0] not in {"global", "builtin", "method", "localfunc", "attr"}]
        external = [c for c in subterms(key) if c[0] == "call" and c[1][0] == "global" and not c[1][1].startswith(("sympy.", "fractions.", "decimal.", "builtins.")) and func_name(c).split(".")[-1] not in INJECTIVE | LOSSY]
        if opaque or external:
            unfollowed = f"`{show((opaque or external)[0])[:60]}` is applied to the states: what it reads of them is not known"
    transitions = [e for e in free_eaches(key)]
    if len(transitions) != 1:
        raise AnalysisError(f"group_by_spin_projection: the key depends on {len(transitions)} loop elements (the transition expected)")
    t = transitions[0]
    ok_whole, why = whole_collection(t[1])
    if ok_whole is None:
        raise AnalysisError(f"group_by_spin_projection: cannot decide whether every transition is grouped: {why}")
    # ---- the (name, projection) sequences of the key: where they range, what they contain, how they are ordered
    sequences = []  # (each over the state ids / states, element, wrappers between the key and the sequence)

    def walk(v, wrappers):
        if not isinstance(v, tuple) or not v or not isinstance(v[0], str):
            return
        if v[0] in {"list", "tuple", "set"} and any(isinstance(x, tuple) and x and x[0] == "foreach" for x in v[1]):
            for x in v[1]:
                eaches, pcs, elt = unwrap(x)
                if eaches and any(y[0] == "attr" and y[2] == "spin_projection" for y in subterms(elt)):
                    sequences.append((eaches, pcs, elt, wrappers))
                else:
                    walk(elt, wrappers)
            return
        if v[0] == "call":
            name = func_name(v)
            for a in v[2]:
                walk(a, wrappers + [(name.split(".")[-1].split("::")[-1].lstrip("."), v)])
            return
        for x in v[1:]:
            if isinstance(x, tuple):
                if x and isinstance(x[0], str):
                    walk(x, wrappers)
                else:
                    for y in x:
                        walk(y, wrappers)

    walk(key, [])
    problems, id_problems = [], []
    sides = set()
    names_found = False
    for eaches, pcs, elt, wrappers in sequences:
        e = eaches[-1]
        src = e[1]
        ordered_ids = False
        while src[0] == "call" and src[1][0] == "builtin" and src[1][1] in {"sorted", "list", "tuple", "iter", "reversed"} and src[2]:
            ordered_ids = ordered_ids or (src[1][1] == "sorted" and not src[3])
            src = src[2][0]
        kinds = {x[2] for x in subterms(src) if x[0] == "attr" and x[2] in {"incoming_edge_ids", "outgoing_edge_ids", "initial_state", "final_state"}}
        sides |= {"incoming_edge_ids" if k in {"incoming_edge_ids", "initial_state"} else "outgoing_edge_ids" for k in kinds}
        if pcs:
            problems.append(f"states are left out of the key when not `{show_pc(pcs)[:60]}`")
        ok_w, why_w = whole_collection(e[1])
        if ok_w is False:
            problems.append(f"not every outer state enters the key: {why_w}")
        parts = list(elt[1]) if elt[0] in {"tuple", "list"} else [elt]
        if any(x[0] == "attr" and x[2] == "name" and x[1][0] == "attr" and x[1][2] == "particle" for x in subterms(elt)):
            names_found = True
        carries_id = any(p == e or (p[0] == "item" and p[1] == e and p[2] == 0) for p in parts)
        # conversions between the projection and the key
        def conversions(v, path):
            if v[0] == "attr" and v[2] == "spin_projection":
                yield path
                return
            for x in v[1:]:
                for y in ([x] if isinstance(x, tuple) and x and isinstance(x[0], str) else x if isinstance(x, tuple) else []):
                    if isinstance(y, tuple) and y and isinstance(y[0], str):
                        yield from conversions(y, path + [v])

        for path in conversions(elt, []):
            for node in path:
                if node[0] == "call":
                    name = func_name(node).split(".")[-1].split("::")[-1]
                    if name in LOSSY:
                        problems.append(f"`{show(node)[:60]}` maps different spin projections to one key value (e.g. int(+1/2) == int(-1/2))")
                    elif name not in INJECTIVE and name and not name[0].isupper():
                        raise AnalysisError(f"group_by_spin_projection: the spin projection passes through `{name}(...)`, which is not known to be injective")
                elif node[0] == "binop" and node[1] in {"//", "%"}:
                    problems.append(f"`{show(node)[:50]}` is not injective in the spin projection")
                elif node[0] in {"binop", "unop", "mul"}:
                    pass
        value_sorted = [w for name, w in wrappers if name == "sorted" and not w[3]]
        unordered = [w for name, w in wrappers if name in {"set", "frozenset", "Counter"}]
        keyed_sort = [w for name, w in wrappers if name == "sorted" and w[3]]
        unknown_wrappers = [name for name, w in wrappers if name not in INJECTIVE | {"set", "Counter", "dict"} and not (name and name[0].isupper())]
        if keyed_sort or unknown_wrappers:
            raise AnalysisError(f"group_by_spin_projection: the (name, projection) pairs pass through `{(keyed_sort or [None])[0] and 'sorted(..., key=...)' or unknown_wrappers[0]}`, which is not read")
        if carries_id:
            continue
        if value_sorted or unordered:
            w = (value_sorted or unordered)[0]
            id_problems.append(f"`{show(w)[:90]}` orders the (name, projection) pairs by value: which state carries which projection is lost")
        elif not ordered_ids:
            id_problems.append(f"`{show(elt)[:60]} for each of {show(e[1])[:40]}` lists the pairs in the iteration order of an id set, not by state id")
    if not sequences:
        if unfollowed:
            raise AnalysisError(f"group_by_spin_projection: the group key is not read ({unfollowed})")
        problems.append("the key does not contain the spin projections")
        id_problems.append("no (name, projection) sequence found in the key")
    names_found = names_found or any(x[0] == "attr" and x[2] == "name" and x[1][0] == "attr" and x[1][2] == "particle" for x in subterms(key))
    if not names_found:
        if unfollowed:
            raise AnalysisError(f"group_by_spin_projection: the group key is not read ({unfollowed})")
        problems.append("the key does not contain the particle names")
    if sequences and sides != {"incoming_edge_ids", "outgoing_edge_ids"}:
        if unfollowed:
            raise AnalysisError(f"group_by_spin_projection: the group key is not read ({unfollowed})")
        problems.append(f"the key covers {sorted(sides)} only (initial AND final states are required)")
    if ok_whole is False:
        problems.append(f"not every transition is grouped: {why}")
    # ... and by WHICH state carries which projection: the incoherent sum runs over the projection of
    # each outer state separately, so (state 0: +1, state 1: 0) and (state 0: 0, state 1: +1) are
    # different terms even when the two states are the same particle species.
    if state_identity:
        ctx.verdict(not id_problems, "R-GROUPKEY", f"{fn.qual}::state-identity", tree.loc(fn.node),
                    "group_by_spin_projection: the key keeps the association state id -> (particle, projection), so identical particles with exchanged projections are different groups",
                    sorted(set(id_problems)) or None)
    ctx.verdict(not problems, "R-GROUPKEY", f"{fn.qual}::injective-key", tree.loc(fn.node),
                "group_by_spin_projection: the group key separates transitions by (particle name, spin projection) of every initial and final state, without lossy conversion", sorted(set(problems)) or None)


def run(ctx: Check, tree: Tree) -> None:
    ctx.decided += [
        'R-GROUPKEY (state identity): the group key keeps which outer state carries which (particle, projection)',
        'R-FOLD (components): the A_{...} component of a chain accumulates over the identical-particle permutations that share its label',
        "R-TERM (shared with C13): the lineshape of a node is evaluated on that node's own variables - invariant mass, daughter masses and the L of the node (fallbacks only where the transition specifies no L)",
        "R-TERM: Wigner-D roles (J, m of the parent; l1 - l2 of children[0], children[1]; -phi, theta, 0) and both Clebsch-Gordan coefficients equal the formula in the property",
        "R-GROUPKEY: group_by_spin_projection separates transitions by (particle name, spin projection) of every outer state without lossy conversion",
        "R-FOLD: over the fold chain top expression -> register -> topology amplitude -> sequential decay, every transition / combinatorics graph / node reaches its accumulator unconditionally and the accumulator is folded whole; coefficient x product x prefactor; |coherent sum|^2",
    ]
    ctx.not_decided += [
        "numerical equality with an independent implementation of the helicity formula",
        "multiplicity of symmetrisation terms produced inside qrules' combinatorics",
        "components equal partial sums (value level)",
    ]
    ctx.assumptions += [
        "sympy.physics.quantum: Rotation.D(j, m, mp, alpha, beta, gamma), CG(j1, m1, j2, m2, j3, m3) argument order",
        "an edit that skips terms it can prove to vanish would be reported by R-FOLD although the value is unchanged (none exists today)",
    ]
    ctx.section(check_wigner_d, ctx, tree)
    ctx.section(check_cg, ctx, tree)
    ctx.section(check_fold, ctx, tree)
    ctx.section(check_products, ctx, tree)
    ctx.section(check_group_key, ctx, tree)
    from .c13 import check_variable_set

    ctx.section(check_variable_set, ctx, tree)  # "x the assigned lineshape"
