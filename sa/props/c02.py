"""C02 - model intensity equals the helicity formula evaluated on the transitions.

R-TERM  argument roles of the Wigner-D and of the two Clebsch-Gordan coefficients equal the
        formula stated in the property.
R-FOLD  every transition of a group and every node of a transition reaches the accumulator,
        and the accumulator is folded whole (sum over transitions, product over nodes).
"""

from __future__ import annotations

import ast

from ..dataflow import RD
from ..loader import AnalysisError, FuncInfo, Tree, ancestors, unparse, walk_function
from ..poly import RF, D, equal, sym
from ..report import Check
from ..terms import Opaque, TermEval, Tup, vkey

PID = "C02"
HEL = "ampform.helicity"
FROM_TRANSITION = "ampform.helicity.decay::TwoBodyDecay.from_transition"
GEN_KIN = "ampform.helicity::_generate_kinematic_variables"
BUILDER = f"{HEL}::HelicityAmplitudeBuilder"


DECAY_CLASS = "ampform.helicity.decay::TwoBodyDecay"


def abstract_instance(te: TermEval, tree: Tree, cls_qual: str, key: tuple):
    """An abstract instance of a declared record class: one entry per annotated field.  A field declared
    as a fixed-length ``tuple[A, B]`` is a tuple value of that length whose items are the very atoms that
    indexing the field produces (``x.children[0]``), so that indexing, unpacking (``a, b = x.children``)
    and iterating (``for c in x.children``) all denote the same elements; every other field is the opaque
    attribute path.  The length comes from the declaration, not from the use."""
    cls = tree.cls(cls_qual)
    base = Opaque(key)
    struct: dict = {}
    for st in cls.node.body:
        if not (isinstance(st, ast.AnnAssign) and isinstance(st.target, ast.Name)):
            continue
        name = st.target.id
        attr = te._attr_of(base, [name], st)
        ann = st.annotation
        if isinstance(ann, ast.Constant) and isinstance(ann.value, str):
            try:
                ann = ast.parse(ann.value, mode="eval").body
            except SyntaxError:
                ann = st.annotation
        elts = None
        if isinstance(ann, ast.Subscript) and unparse(ann.value) in {"tuple", "Tuple", "typing.Tuple"}:
            elts = ann.slice.elts if isinstance(ann.slice, ast.Tuple) else [ann.slice]
            if any(isinstance(e, ast.Constant) and e.value is Ellipsis for e in elts):
                elts = None
        if elts is not None:
            struct[name] = Tup([te.ev(ast.parse(f"_[{i}]", mode="eval").body, {"_": attr}) for i in range(len(elts))])
        else:
            struct[name] = attr
    if not struct:
        raise AnalysisError(f"vanished anchor: {cls_qual} declares no fields")
    return struct


def decay_value(te: TermEval, tree: Tree, key: tuple = ("decay",)):
    return abstract_instance(te, tree, DECAY_CLASS, key)


MASS_SYMBOL = "ampform.kinematics.lorentz::get_invariant_mass_symbol"
ANGLE_SYMBOLS = "ampform.helicity.naming::get_helicity_angle_symbols"
TRANSITION = Opaque(("transition",))
NODE_ID = sym("node_id")


def decay_evaluator(tree: Tree) -> TermEval:
    """A term evaluator for functions of ``(transition, node_id)``.  The decay of THAT node is the abstract
    record ``decay`` (any other arguments give another record); the functions that NAME the kinematic symbols
    are the leaves: the invariant mass symbol of decay.parent / children[0] / children[1] in the transition's
    topology is MASS / MASS1 / MASS2, the angle symbols of decay.children[0] are (PHI, THETA), and any other
    (topology, state) is an opaque application.  Everything between (``_generate_kinematic_variables`` or
    whatever helper the package uses) is evaluated, so PHI means "phi of children[0] of this decay" however
    the code gets there."""
    te = TermEval(tree)
    ft = tree.func(FROM_TRANSITION)
    names = ft.params[1:] if ft.params and ft.params[0] in {"cls", "self"} else ft.params

    def from_transition(_te, args, kwargs):
        given = {**dict(zip(names, args)), **kwargs}
        if len(args) > len(names) or set(given) != set(names):
            raise AnalysisError("TwoBodyDecay.from_transition: call does not bind (transition, node_id)")
        keys = tuple(vkey(given[n]) for n in names)
        if keys == (vkey(TRANSITION), vkey(NODE_ID)):
            return decay_value(_te, tree)
        return decay_value(_te, tree, ("decay", keys))

    te.overrides[FROM_TRANSITION] = from_transition
    env = {"decay": decay_value(te, tree), "transition": TRANSITION}
    topo = vkey(te.ev(ast.parse("transition.topology", mode="eval").body, env))
    state = {vkey(te.ev(ast.parse(text, mode="eval").body, env)): role
             for role, text in (("MASS", "decay.parent.id"), ("MASS1", "decay.children[0].id"), ("MASS2", "decay.children[1].id"))}

    def leaf(qual, make):
        f = tree.func(qual)
        if len(f.params) != 2:
            raise AnalysisError(f"vanished anchor: {qual}(topology, state_id)")

        def override(_te, args, kwargs):
            bound = _te.bind_params(f, args, kwargs)
            vals = [bound[p_] for p_ in f.params]
            role = state.get(vkey(vals[1])) if vkey(vals[0]) == topo else None
            return make(_te, role, vals)

        te.overrides[qual] = override

    leaf(MASS_SYMBOL, lambda _te, role, vals: sym(role) if role else _te.app("mass-symbol", vals))
    leaf(ANGLE_SYMBOLS, lambda _te, role, vals: Tup([sym("PHI"), sym("THETA")]) if role == "MASS1" else Tup([_te.app("phi-symbol", vals), _te.app("theta-symbol", vals)]))
    return te


def path(te: TermEval, text: str) -> RF:
    """The atom that the evaluator produces for an attribute path on ``decay``."""
    node = ast.parse(text, mode="eval").body
    return te._rf(te.ev(node, {"decay": decay_value(te, te.tree)}))


def _show_val(v) -> str:
    if isinstance(v, Opaque) and isinstance(v.key, tuple) and v.key:
        if v.key[0] == "attr" and len(v.key) == 3:
            return f"{_show_val(Opaque(v.key[1]))}.{v.key[2]}"
        if len(v.key) == 1:
            return str(v.key[0])
    return repr(v)


def _show_cond(cond) -> str:
    from ..terms import Rel, Tup

    if isinstance(cond, Tup):
        return " and ".join(_show_cond(c) for c in cond.items)
    if isinstance(cond, Rel):
        return f"{_show_val(cond.lhs)} {cond.op} {_show_val(cond.rhs)}"[:80]
    if isinstance(cond, Opaque) and cond.key and cond.key[0] == "else-of":
        return "otherwise"
    if isinstance(cond, Opaque) and isinstance(cond.key, tuple) and len(cond.key) == 2 and cond.key[0] == "test":
        return str(cond.key[1])[:80]  # a test outside the term grammar: its text with the locals numbered
    return repr(cond)[:60]


def extract_apps(te: TermEval, value, name: str) -> list[dict]:
    """All applications of ``name`` inside a product value, as keyword dicts."""
    out = []
    if isinstance(value, RF):
        for a in value.atoms():
            if te.is_app(a) and te.apps[a].cls == name:
                out.append(te.apps[a].kwargs)
    return out


def _same(te: TermEval, got, want: RF) -> bool:
    if got is None:
        return False
    try:
        return equal(te._rf(got), want)
    except Exception:  # noqa: BLE001
        return False


def check_wigner_d(ctx: Check, tree: Tree) -> None:
    D.reset()
    te = decay_evaluator(tree)
    te.fork = True  # every path of the function (and of the helpers it calls) is judged separately
    fn = tree.func(f"{HEL}::formulate_isobar_wigner_d")
    res = te.eval_function(fn, [TRANSITION, NODE_ID])
    from ..terms import PW

    paths = [(v, c) for v, c in res.branches] if isinstance(res, PW) else [(res, None)]
    for val, cond in paths:
        on = "" if cond is None else f" on the path `{_show_cond(cond)}`"
        suffix = "" if cond is None else f"::path {_show_cond(cond)}"
        apps = extract_apps(te, val, "D")
        if len(apps) != 1:
            raise AnalysisError(f"formulate_isobar_wigner_d does not return exactly one Wigner-D{on}")
        got = apps[0]
        want = {
            "j": path(te, "decay.parent.particle.spin"),
            "m": path(te, "decay.parent.spin_projection"),
            "mp": path(te, "decay.children[0].spin_projection") - path(te, "decay.children[1].spin_projection"),
            "alpha": -sym("PHI"),
            "beta": sym("THETA"),
            "gamma": RF.const(0),
        }
        problems = []
        for role, w in want.items():
            g = got.get(role)
            if g is None:
                problems.append(f"{role} missing")
            elif not _same(te, g, w):
                problems.append(f"{role} = {g!r} instead of {w!r}")
        ctx.verdict(not problems, "R-TERM", f"{fn.qual}::roles{suffix}", tree.loc(fn.node),
                    f"Wigner-D of a node{on}: D^J_{{m, l1-l2}}(-phi, theta, 0) with J, m of the parent, l1, l2 of children[0], children[1] and the angle symbols of children[0]", problems or None)
        is_single = te.single_atom(val) is not None
        ctx.verdict(is_single, "R-TERM", f"{fn.qual}::bare{suffix}", tree.loc(fn.node), f"formulate_isobar_wigner_d returns the bare Wigner-D (no extra factor){on}")


def check_cg(ctx: Check, tree: Tree) -> None:
    D.reset()
    te = decay_evaluator(tree)
    te.fork = True  # every path of the function is judged separately
    fn = tree.func(f"{HEL}::formulate_isobar_cg_coefficients")
    res = te.eval_function(fn, [TRANSITION, NODE_ID])
    from ..terms import PW

    paths = [(v, c) for v, c in res.branches] if isinstance(res, PW) else [(res, None)]
    for val, cond in paths:
        _check_cg_path(ctx, tree, te, fn, val, cond)


def _check_cg_path(ctx: Check, tree: Tree, te: TermEval, fn, val, cond) -> None:
    on = "" if cond is None else f" on the path `{_show_cond(cond)}`"
    suffix = "" if cond is None else f"::path {_show_cond(cond)}"
    apps = extract_apps(te, val, "CG")
    if len(apps) != 2:
        if len(apps) == 0 and cond is None:
            raise AnalysisError("formulate_isobar_cg_coefficients returns no CG factor (shape outside the grammar)")
        # a special case that returns fewer coefficients: CG(j1 m1; j2 m2 | 0 0) = (-1)^(j1-m1)/sqrt(2 j1+1),
        # CG(L 0; S d | J d) != 1 in general - a factor may only be dropped where it is identically 1,
        # i.e. never on a condition that leaves the spins of the coupled pair open
        ctx.violation("R-TERM", f"{fn.qual}::roles{suffix}", tree.loc(fn.node),
                      f"formulate_isobar_cg_coefficients returns {len(apps)} distinct Clebsch-Gordan factor(s) instead of the two of the formula{on}",
                      "e.g. the spin-spin coefficient for S = 0 is (-1)^(s1-l1)/sqrt(2 s1+1), which alternates in sign with the helicity: dropping it changes the relative sign of the helicity amplitudes of a fermion pair")
        return
    delta = path(te, "decay.children[0].spin_projection") - path(te, "decay.children[1].spin_projection")
    ls = {
        "j1": path(te, "decay.interaction.l_magnitude"), "m1": RF.const(0),
        "j2": path(te, "decay.interaction.s_magnitude"), "m2": delta,
        "j3": path(te, "decay.parent.particle.spin"), "m3": delta,
    }
    ss = {
        "j1": path(te, "decay.children[0].particle.spin"), "m1": path(te, "decay.children[0].spin_projection"),
        "j2": path(te, "decay.children[1].particle.spin"), "m2": -path(te, "decay.children[1].spin_projection"),
        "j3": path(te, "decay.interaction.s_magnitude"), "m3": delta,
    }

    def matches(got, want):
        return [f"{k} = {got.get(k)!r} instead of {w!r}" for k, w in want.items() if not _same(te, got.get(k), w)]

    # assign the two factors to the two specifications (order of the product is irrelevant)
    best = None
    for a, b in ((apps[0], apps[1]), (apps[1], apps[0])):
        probs = [f"CG(L0;S d|J d): {p}" for p in matches(a, ls)] + [f"CG(s1 l1;s2 -l2|S d): {p}" for p in matches(b, ss)]
        if best is None or len(probs) < len(best):
            best = probs
    ctx.verdict(not best, "R-TERM", f"{fn.qual}::roles{suffix}", tree.loc(fn.node),
                f"canonical basis{on}: CG(L,0;S,d|J,d) * CG(s1,l1;s2,-l2|S,d) with d = l1 - l2 of children[0], children[1]", best or None)
    # the product of exactly these two
    from ..terms import deep_atoms

    n_atoms = len([a for a in val.atoms() if te.is_app(a)])
    r = val.normalized()
    ok = n_atoms == 2 and r.d.is_const() and len(r.n.t) == 1 and list(r.n.t.values())[0] / r.d.const_value() == 1
    ctx.verdict(ok, "R-TERM", f"{fn.qual}::product{suffix}", tree.loc(fn.node), "the result is the plain product of the two coefficients")


# --------------------------------------------------------------------------- R-FOLD

FOLD_CHAIN = [
    "__formulate_top_expression",
    "__register_amplitudes",
    "__formulate_topology_amplitude",
    "__formulate_sequential_decay",
]
FOLDS = {"sum", "reduce", "Add", "Mul", "prod"}


def _iter_is_whole(it: ast.AST) -> str | None:
    """None if the iterable is a whole collection; otherwise the reason."""
    for n in ast.walk(it):
        if isinstance(n, ast.Subscript) and isinstance(n.slice, ast.Slice):
            return f"iterable `{unparse(it)[:50]}` is sliced"
        if isinstance(n, ast.Call) and isinstance(n.func, ast.Name) and n.func.id in {"filter", "islice", "takewhile", "dropwhile"}:
            return f"iterable `{unparse(it)[:50]}` is filtered with {n.func.id}"
    return None


CHAIN_SOURCES = ("transitions", "transition_group", "transition_by_topology", "spin_groups", "sequential_graphs", "topology.nodes", "_perform_combinatorics", "group_by_")


def is_chain_iterable(it: ast.AST, rd: RD) -> bool:
    """Does the iterable range over transitions / groups / symmetrisation graphs / nodes?"""
    txt = unparse(it) + " ".join(unparse(d.value) for d in rd.closure(rd.uses(it)) if d.value is not None)
    return any(sname in txt for sname in CHAIN_SOURCES)


def check_fold(ctx: Check, tree: Tree) -> None:
    n_loops = 0
    for name in FOLD_CHAIN:
        fn = tree.func(f"{BUILDER}.{name}")
        rd = RD(fn.node)
        for node in walk_function(fn.node):
            # ---- comprehensions / generator expressions
            if isinstance(node, (ast.ListComp, ast.GeneratorExp)):
                gen = node.generators[0]
                if not is_chain_iterable(gen.iter, rd):
                    continue
                # one generator clause = one loop level (`for t in ts for g in graphs(t)` is the nested loop)
                n_loops += sum(1 for i_, g_ in enumerate(node.generators) if i_ == 0 or is_chain_iterable(g_.iter, rd) or _uses_targets(g_.iter, node.generators[:i_]))
                key = f"{fn.qual}::comprehension over {unparse(gen.iter)[:40]}"
                problems = []
                for i_, g_ in enumerate(node.generators):
                    if g_.ifs:
                        problems.append(f"elements are filtered: if {unparse(g_.ifs[0])[:40]}")
                    why = _iter_is_whole(g_.iter)
                    if why:
                        problems.append(why)
                    # every level feeds the next level or the element: no level is iterated for nothing
                    later = [x.iter for x in node.generators[i_ + 1:]] + [node.elt]
                    if not any(_uses_targets(x, [g_]) for x in later):
                        problems.append(f"neither the element nor an inner level depends on the loop variable of `for {unparse(g_.target)} in {unparse(g_.iter)[:30]}`"
                                        if len(node.generators) > 1 else "the element does not depend on the loop variable")
                # the comprehension must reach a fold whole
                consumer = _fold_consumer(node, rd, fn)
                if consumer is None:
                    problems.append("the collected terms never reach sum()/reduce()/Add/Mul whole")
                ctx.verdict(not problems, "R-FOLD", key, tree.loc(node),
                            f"{name}: every element of `{unparse(gen.iter)[:40]}` contributes `{unparse(node.elt)[:50]}` and the collection is folded by {consumer}", problems or None)
            # ---- for loops
            if isinstance(node, ast.For):
                if not is_chain_iterable(node.iter, rd):
                    continue
                n_loops += 1
                key = f"{fn.qual}::for {unparse(node.target)} in {unparse(node.iter)[:40]}"
                problems = []
                why = _iter_is_whole(node.iter)
                if why:
                    problems.append(why)
                body_nodes = list(walk_function(node))
                if any(isinstance(b, (ast.Continue, ast.Break)) for b in body_nodes if _innermost_loop(b, node)):
                    problems.append("the loop body skips elements (continue/break)")
                targets = {n.id for n in ast.walk(node.target) if isinstance(n, ast.Name)}
                sinks = []
                for b in body_nodes:
                    if isinstance(b, ast.Call) and isinstance(b.func, ast.Attribute) and b.func.attr in {"append", "extend", "add"}:
                        sinks.append(b)
                    elif isinstance(b, ast.Call) and unparse(b.func).startswith("self.") and b in [s.value for s in node.body if isinstance(s, ast.Expr)]:
                        sinks.append(b)  # registration call, e.g. self.__register_amplitudes(group)
                    elif isinstance(b, ast.AugAssign):
                        sinks.append(b)
                inner_loops = [b for b in node.body if isinstance(b, ast.For)]
                if not sinks and not inner_loops:
                    problems.append("no accumulation in the loop body")
                for s in sinks:
                    if any(isinstance(a, ast.If) for a in _ancestors_until(s, node)):
                        problems.append(f"accumulation `{unparse(s)[:40]}` is conditional")
                    args = s.args if isinstance(s, ast.Call) else [s.value]
                    dep_names = set()
                    for a in args:
                        dep_names |= {d.name for d in rd.closure(rd.uses(a))} | {n.id for n in ast.walk(a) if isinstance(n, ast.Name)}
                    if not (targets & dep_names) and not inner_loops:
                        problems.append(f"`{unparse(s)[:40]}` does not depend on the loop variable {sorted(targets)}")
                # list accumulators must be folded whole afterwards
                for s in sinks:
                    if isinstance(s, ast.Call) and isinstance(s.func, ast.Attribute) and isinstance(s.func.value, ast.Name) and s.func.attr in {"append", "extend", "add"}:
                        acc = s.func.value.id
                        if not _name_folded_whole(acc, fn):
                            problems.append(f"accumulator `{acc}` is not folded whole")
                ctx.verdict(not problems, "R-FOLD", key, tree.loc(node), f"{name}: every `{unparse(node.target)}` of `{unparse(node.iter)[:40]}` is accumulated unconditionally", problems or None)
    ctx.stats["fold_loops"] = n_loops
    if n_loops < 5:
        raise AnalysisError(f"only {n_loops} loops/comprehensions in the fold chain (5 confirmed)")


def _uses_targets(expr: ast.AST, gens: list) -> bool:
    """Does ``expr`` mention a variable bound by one of the generator clauses?"""
    targets = {n.id for g in gens for n in ast.walk(g.target) if isinstance(n, ast.Name)}
    return any(isinstance(n, ast.Name) and n.id in targets for n in ast.walk(expr))


def _innermost_loop(node: ast.AST, loop: ast.For) -> bool:
    for a in ancestors(node):
        if isinstance(a, (ast.For, ast.While)):
            return a is loop
    return False


def _ancestors_until(node, stop):
    for a in ancestors(node):
        if a is stop:
            return
        yield a


def _fold_name(call: ast.Call) -> str | None:
    f = call.func
    name = f.id if isinstance(f, ast.Name) else f.attr if isinstance(f, ast.Attribute) else None
    return name if name in FOLDS else None


def _fold_consumer(comp: ast.AST, rd: RD, fn: FuncInfo) -> str | None:
    """How is the comprehension consumed: directly by a fold call, or via a local that is."""
    parent = getattr(comp, "_parent", None)
    if isinstance(parent, ast.Starred):
        parent = getattr(parent, "_parent", None)
    if isinstance(parent, ast.Call) and _fold_name(parent) and comp in [a.value if isinstance(a, ast.Starred) else a for a in parent.args]:
        return f"{_fold_name(parent)}(...)"
    if isinstance(parent, (ast.Assign, ast.AnnAssign)):
        tgt = parent.targets[0] if isinstance(parent, ast.Assign) else parent.target
        if isinstance(tgt, ast.Name) and _name_folded_whole(tgt.id, fn):
            return f"fold of `{tgt.id}`"
    return None


def _name_folded_whole(name: str, fn: FuncInfo) -> bool:
    for node in walk_function(fn.node):
        if isinstance(node, ast.Call) and _fold_name(node):
            for a in node.args:
                inner = a.value if isinstance(a, ast.Starred) else a
                if isinstance(inner, ast.Name) and inner.id == name:
                    return True
    return False


def _def_calls(tree: Tree, fn: FuncInfo, rd: RD, expr: ast.AST) -> set[str]:
    """Resolved callees (and bare callee names) in ``expr`` and in everything it derives from."""
    out: set[str] = set()
    nodes = [expr] + [d.value for d in rd.closure(rd.uses(expr)) if d.value is not None]
    for n in nodes:
        for c in ast.walk(n):
            if isinstance(c, ast.Call):
                callee = tree.callee(c, fn)
                if callee:
                    out.add(callee)
                out.add(unparse(c.func).split(".")[-1])
    return out


def check_amplitude_stored(ctx: Check, tree: Tree) -> None:
    """The coherent sum over the chains of a topology group is stored, unconditionally, as the
    definition of the amplitude symbol the intensity refers to."""
    tam = tree.func(f"{BUILDER}.__formulate_topology_amplitude")
    tard = RD(tam.node)
    stores = [n for n in walk_function(tam.node) if isinstance(n, ast.Assign) and isinstance(n.targets[0], ast.Subscript) and unparse(n.targets[0].value).endswith(".amplitudes")]
    ok = False
    if len(stores) == 1 and not any(isinstance(a, (ast.If, ast.For)) for a in ancestors(stores[0]) if a is not tam.node):
        keyc = _def_calls(tree, tam, tard, stores[0].targets[0].slice)
        rets_t = [r for r, _ in tard.returns]
        same_value = len(rets_t) == 1 and isinstance(stores[0].value, ast.Name) and isinstance(rets_t[0].value, ast.Name) and tard.reaching(stores[0].value) == tard.reaching(rets_t[0].value)
        ok = "create_amplitude_symbol" in keyc and same_value
    ctx.verdict(ok, "R-FOLD", f"{tam.qual}::amplitude-stored", tree.loc(tam.node), "the coherent sum that is returned is also stored unconditionally as model.amplitudes[create_amplitude_symbol(...)]")


def check_products(ctx: Check, tree: Tree, symmetrisation: bool = True) -> None:
    """coefficient x product(nodes) x prefactor; |coherent sum|^2 ; D x dynamics (x CG)."""
    seq = tree.func(f"{BUILDER}.__formulate_sequential_decay")
    rd = RD(seq.node)
    rets = [r for r, _ in rd.returns if r.value is not None]
    if not rets:
        raise AnalysisError("__formulate_sequential_decay: no return")
    calls = set()
    for r_ in rets:
        calls |= set(_def_calls(tree, seq, rd, r_.value))
    ok = "reduce" in calls and "__generate_amplitude_coefficient" in calls and "_formulate_partial_decay" in calls
    ctx.verdict(ok, "R-FOLD", f"{seq.qual}::returns-product", tree.loc(rets[0]),
                "sequential amplitude = coefficient x reduce(mul, partial decays of all nodes) [x prefactor]", None if ok else sorted(c for c in calls if "::" not in c))
    # `X *= P`, or the same update spelled out: `X = X * P` / `X = P * X` (the factor is `.value` of the pair)
    mults = [m for m in (_self_multiplication(n) for n in walk_function(seq.node)) if m is not None and "__generate_amplitude_prefactor" in _def_calls(tree, seq, rd, m.value)]
    problems = []
    ret_mults = [r_ for r_ in rets if isinstance(r_.value, ast.BinOp) and isinstance(r_.value.op, ast.Mult)
                 and any("__generate_amplitude_prefactor" in _def_calls(tree, seq, rd, side) for side in (r_.value.left, r_.value.right))]
    if not mults and len(ret_mults) == 1:
        # `if prefactor is None: return expression` / `return prefactor * expression`
        pside = next(side for side in (ret_mults[0].value.left, ret_mults[0].value.right) if "__generate_amplitude_prefactor" in _def_calls(tree, seq, rd, side))
        pname = unparse(pside)
        early = [n for n in walk_function(seq.node) if isinstance(n, ast.If) and isinstance(n.test, ast.Compare) and len(n.test.ops) == 1 and isinstance(n.test.ops[0], ast.Is)
                 and unparse(n.test.left) == pname and isinstance(n.test.comparators[0], ast.Constant) and n.test.comparators[0].value is None and any(isinstance(b_, ast.Return) for b_ in n.body)]
        if not early and any(r_ is not ret_mults[0] for r_ in rets):
            problems.append("a path returns the amplitude without the prefactor although it is not None")
    elif len(mults) != 1:
        problems.append(f"{len(mults)} statements multiply the prefactor into the amplitude")
    else:
        guards = [a for a in ancestors(mults[0].node) if isinstance(a, ast.If)]
        pname = unparse(mults[0].value)
        for g in guards:
            t = g.test
            ok_g = isinstance(t, ast.Compare) and len(t.ops) == 1 and isinstance(t.ops[0], ast.IsNot) and unparse(t.left) == pname and isinstance(t.comparators[0], ast.Constant) and t.comparators[0].value is None
            if not ok_g:
                problems.append(f"the multiplication is guarded by `{unparse(t)}`, not by `{pname} is not None`")
    ctx.verdict(not problems, "R-FOLD", f"{seq.qual}::prefactor-multiplies", tree.loc(seq.node), "the parity prefactor multiplies the whole sequential amplitude whenever there is one", problems or None)
    # every definition of the returned value is a plain product (coefficient x product of the nodes)
    bad = []
    if isinstance(rets[0].value, ast.Name):
        for d in rd.reaching(rets[0].value):
            if d.kind == "assign" and isinstance(d.value, ast.AST):
                leaves: list = []
                if not _product_leaves(d.value, leaves):
                    bad.append(unparse(d.node)[:80])
    ctx.verdict(not bad, "R-FOLD", f"{seq.qual}::plain-product", tree.loc(rets[0]), "every definition of the sequential amplitude is a plain product (coefficient * product of the node factors)", bad or None)
    red = [n for n in walk_function(seq.node) if isinstance(n, ast.Call) and _fold_name(n) == "reduce"]
    ok = len(red) == 1 and unparse(red[0].args[0]) in {"operator.mul", "mul"}
    ctx.verdict(ok, "R-FOLD", f"{seq.qual}::reduce-mul", tree.loc(seq.node), "the per-node factors are combined with operator.mul")
    check_amplitude_stored(ctx, tree)
    def is_components(e) -> bool:
        if unparse(e).endswith(".components"):
            return True
        if isinstance(e, ast.Name):  # a local alias of the mapping
            defs = list(rd.reaching(e))
            return bool(defs) and all(d.value is not None and d.index is None and unparse(d.value).endswith(".components") for d in defs)
        return False

    cstores = [n for n in walk_function(seq.node) if isinstance(n, ast.Assign) and isinstance(n.targets[0], ast.Subscript) and is_components(n.targets[0].value)]
    # what is stored: `C[k] = expr` (overwrite) or `C[k] = C.get(k, 0) + expr` / `C[k] += expr` after a default (accumulate)
    stored_name, accumulates = None, False
    aug = [n for n in walk_function(seq.node) if isinstance(n, ast.AugAssign) and isinstance(n.op, ast.Add) and isinstance(n.target, ast.Subscript) and is_components(n.target.value)]
    store_node = cstores[0] if len(cstores) == 1 else None
    if store_node is not None:
        v = store_node.value
        if isinstance(v, ast.Name):
            stored_name = v
        elif isinstance(v, ast.BinOp) and isinstance(v.op, ast.Add):
            mapping_txt, key_txt = unparse(store_node.targets[0].value), unparse(store_node.targets[0].slice)
            for prev, new_ in ((v.left, v.right), (v.right, v.left)):
                is_prev = (isinstance(prev, ast.Call) and isinstance(prev.func, ast.Attribute) and prev.func.attr == "get" and unparse(prev.func.value) == mapping_txt
                           and len(prev.args) == 2 and unparse(prev.args[0]) == key_txt and unparse(prev.args[1]) in {"0", "sp.S.Zero", "S.Zero", "sp.Integer(0)"})
                if is_prev and isinstance(new_, ast.Name):
                    stored_name, accumulates = new_, True
    elif not cstores and len(aug) == 1 and isinstance(aug[0].value, ast.Name):
        store_node, stored_name, accumulates = aug[0], aug[0].value, True
    ok = (store_node is not None and stored_name is not None and not any(isinstance(a, (ast.If, ast.For)) for a in ancestors(store_node) if a is not seq.node)
          and all(isinstance(r_.value, ast.Name) and rd.reaching(stored_name) == rd.reaching(r_.value) for r_ in rets))
    ctx.verdict(ok, "R-FOLD", f"{seq.qual}::component-stored", tree.loc(seq.node), "every chain amplitude that is returned is stored unconditionally as component A_{...} (the complete expression incl. prefactor)")
    # the store runs once per graph of the identical-particle symmetrisation, and the key is a LABEL of the
    # chain (particle names and projections): the permuted graphs of one transition have equal labels by
    # construction (qrules permutes final states of equal name).  A plain assignment keeps the last
    # permutation only; the component of a chain must hold the chain and its symmetrisation partners.
    if symmetrisation and store_node is not None and stored_name is not None:
        key = store_node.targets[0].slice if isinstance(store_node, ast.Assign) else store_node.target.slice
        label_only = "generate_amplitude_name" in _def_calls(tree, seq, rd, key) or any(
            "generate_amplitude_name" in unparse(d.value) for d in rd.closure(rd.uses(key)) if d.value is not None)
        graph = tree.call_graph()
        topo = f"{BUILDER}.__formulate_topology_amplitude"
        per_graph = seq.qual in tree.reachable(topo, graph) and any(
            isinstance(c, ast.Call) and unparse(c.func).endswith("_perform_combinatorics") for c in walk_function(tree.func(topo).node))
        ok_acc = accumulates or not (label_only and per_graph)
        ctx.verdict(ok_acc, "R-FOLD", f"{seq.qual}::component-accumulates-over-symmetrisation", tree.loc(store_node),
                    "the A_{...} component of a chain holds the chain AND its identical-particle permutations (equal labels): the store accumulates",
                    None if ok_acc else f"`{unparse(store_node)[:80]}` overwrites: of the graphs returned by _perform_combinatorics only the last one is kept under the shared name, "
                                        "so the components no longer add up to the amplitudes")
    top = tree.func(f"{BUILDER}.__formulate_top_expression")
    trd = RD(top.node)
    ps = [n for n in walk_function(top.node) if isinstance(n, ast.Call) and unparse(n.func) == "PoolSum"]
    ok = False
    if len(ps) == 1 and ps[0].args:
        a0 = ps[0].args[0]
        if isinstance(a0, ast.BinOp) and isinstance(a0.op, ast.Pow) and unparse(a0.right) == "2" and isinstance(a0.left, ast.Call) and unparse(a0.left.func) in {"sp.Abs", "Abs", "abs"} and len(a0.left.args) == 1:
            ok = "formulate_amplitude" in _def_calls(tree, top, trd, a0.left.args[0])
    ctx.verdict(ok, "R-FOLD", f"{top.qual}::abs-squared", tree.loc(top.node), "intensity = PoolSum(|coherent amplitude|^2, outer spin projections)",
                None if ok else (unparse(ps[0].args[0]) if ps else "no PoolSum"))
    for qual, factors in ((f"{BUILDER}._formulate_partial_decay", {"formulate_isobar_wigner_d", "__formulate_dynamics"}), (f"{HEL}::CanonicalAmplitudeBuilder._formulate_partial_decay", {"formulate_isobar_cg_coefficients", "_formulate_partial_decay"})):
        fn = tree.func(qual)
        frd = RD(fn.node)
        bad = []
        for r in walk_function(fn.node):
            if isinstance(r, ast.Return) and r.value is not None:
                leaves: list = []
                ok_shape = _product_leaves(r.value, leaves)
                got = set()
                for leaf in leaves:
                    got |= {c for c in _def_calls(tree, fn, frd, leaf) if "::" not in c}
                if not ok_shape or not factors <= got:
                    bad.append(unparse(r.value))
        ctx.verdict(not bad, "R-FOLD", f"{qual}::product", tree.loc(fn.node), f"{qual.split('::')[-1]} returns the product of the results of {sorted(factors)}", bad or None)
    reg = tree.func(f"{BUILDER}.__register_amplitudes")
    rrd = RD(reg.node)
    comp_stores = [n for n in walk_function(reg.node) if isinstance(n, ast.Assign) and isinstance(n.targets[0], ast.Subscript) and "components" in unparse(n.targets[0])]
    ok = False
    if len(comp_stores) == 1:
        v = comp_stores[0].value
        if isinstance(v, ast.BinOp) and isinstance(v.op, ast.Pow) and unparse(v.right) == "2" and isinstance(v.left, ast.Call) and unparse(v.left.func) in {"sp.Abs", "Abs"}:
            ok = "__formulate_topology_amplitude" in _def_calls(tree, reg, rrd, v.left.args[0])
    ctx.verdict(ok, "R-FOLD", f"{reg.qual}::component", tree.loc(reg.node), "component I_{...} = |sum over the topologies of the group|^2")


class _SelfMult:
    def __init__(self, node: ast.stmt, value: ast.AST) -> None:
        self.node, self.value = node, value


def _self_multiplication(n: ast.AST) -> "_SelfMult | None":
    """``X *= F`` or ``X = X * F`` / ``X = F * X`` for a plain local X: the statement and the factor F."""
    if isinstance(n, ast.AugAssign) and isinstance(n.op, ast.Mult):
        return _SelfMult(n, n.value)
    if (isinstance(n, ast.Assign) and len(n.targets) == 1 and isinstance(n.targets[0], ast.Name)
            and isinstance(n.value, ast.BinOp) and isinstance(n.value.op, ast.Mult)):
        x = n.targets[0].id
        for me, factor in ((n.value.left, n.value.right), (n.value.right, n.value.left)):
            if isinstance(me, ast.Name) and me.id == x and not any(isinstance(m, ast.Name) and m.id == x for m in ast.walk(factor)):
                return _SelfMult(n, factor)
    return None


def _product_leaves(node: ast.AST, out: list) -> bool:
    if isinstance(node, ast.BinOp) and isinstance(node.op, ast.Mult):
        return _product_leaves(node.left, out) and _product_leaves(node.right, out)
    if isinstance(node, (ast.Name, ast.Call)):
        out.append(node)
        return True
    return False


LOSSY = {"int", "round", "abs", "bool", "floor", "ceil", "trunc", "len", "hash"}
INJECTIVE = {"tuple", "sorted", "list", "float", "Rational", "Fraction", "str", "repr", "frozenset", "Decimal"}


def _anc2(node):
    from ..loader import ancestors as _a

    return _a(node)


def _group_store_key(n: ast.AST) -> ast.AST | None:
    """The key expression if ``n`` adds an element to the list kept under a key of a mapping:
    ``m[key].append(x)`` (defaultdict, or after `if key not in m: m[key] = []`), ``m.setdefault(key, []).append(x)``,
    ``m[key] = m.get(key, []) + [x]`` / ``m[key] = [*m.get(key, []), x]``."""
    if isinstance(n, ast.Call) and isinstance(n.func, ast.Attribute) and n.func.attr in {"append", "extend"}:
        recv = n.func.value
        if isinstance(recv, ast.Subscript) and not isinstance(recv.slice, ast.Slice):
            return recv.slice
        if isinstance(recv, ast.Call) and isinstance(recv.func, ast.Attribute) and recv.func.attr == "setdefault" and len(recv.args) == 2 and not recv.keywords:
            return recv.args[0]
    if isinstance(n, ast.Assign) and len(n.targets) == 1 and isinstance(n.targets[0], ast.Subscript) and not isinstance(n.targets[0].slice, ast.Slice):
        mapping, key = unparse(n.targets[0].value), unparse(n.targets[0].slice)
        gets = [c for c in ast.walk(n.value) if isinstance(c, ast.Call) and isinstance(c.func, ast.Attribute) and c.func.attr == "get"
                and unparse(c.func.value) == mapping and len(c.args) == 2 and unparse(c.args[0]) == key and isinstance(c.args[1], (ast.List, ast.Tuple)) and not c.args[1].elts]
        if len(gets) == 1 and isinstance(n.value, (ast.BinOp, ast.List)):
            return n.targets[0].slice
    return None


def check_group_key(ctx: Check, tree: Tree, state_identity: bool = True) -> None:
    """What is summed coherently is decided by the key of group_by_spin_projection: it must
    separate transitions by the (particle, spin projection) of EVERY outer state.  A key
    that maps different projections to one value merges groups: amplitudes that belong to
    different terms of the incoherent sum are added coherently."""
    fn = tree.func("ampform.helicity.decay::group_by_spin_projection")
    # itertools.groupby only merges ADJACENT items: on an input that is not sorted by the same key the
    # items of one group arrive in several runs, and a dict built from the runs keeps only the last one
    for gb in [n for n in walk_function(fn.node, nested=True) if isinstance(n, ast.Call) and unparse(n.func) in {"itertools.groupby", "groupby"}]:
        keyf = next((unparse(k.value) for k in gb.keywords if k.arg == "key"), unparse(gb.args[1]) if len(gb.args) > 1 else None)
        it = gb.args[0] if gb.args else None
        grd = RD(fn.node)
        srcs = [it] + [d.value for d in grd.closure(grd.uses(it)) if isinstance(d.value, ast.AST)] if it is not None else []
        sorted_same = any(isinstance(e, ast.Call) and unparse(e.func) == "sorted" and any(k.arg == "key" and unparse(k.value) == keyf for k in e.keywords) for e in srcs)
        ctx.verdict(sorted_same, "R-GROUPKEY", f"{fn.qual}::groupby-on-unsorted-input", tree.loc(gb),
                    f"`{unparse(gb)[:70]}` runs over an input sorted by the same key",
                    None if sorted_same else "transitions are ordered by topology first, so the same outer helicities recur once per topology: all but the last run of each key are dropped - whole topologies vanish from the coherent sum")
        if not sorted_same:
            return
    stores = [k for k in (_group_store_key(n) for n in walk_function(fn.node)) if k is not None]
    if len(stores) != 1:
        raise AnalysisError("group_by_spin_projection: expected one store of the transition into the list of its key "
                            "(`groups[key].append(t)` / `groups.setdefault(key, []).append(t)`)")
    key_expr = stores[0]
    rd = RD(fn.node)
    # all expressions the key is built from, looking into same-module helpers
    exprs: list[tuple[ast.AST, FuncInfo]] = [(key_expr, fn)] + [(d.value, fn) for d in rd.closure(rd.uses(key_expr)) if d.value is not None]
    seen_helpers = set()
    for e, owner in list(exprs):
        for c in ast.walk(e):
            if isinstance(c, ast.Call):
                callee = tree.callee(c, owner)
                if callee in tree.funcs and callee.startswith("ampform.helicity") and callee not in seen_helpers:
                    seen_helpers.add(callee)
                    h = tree.funcs[callee]
                    for r in walk_function(h.node):
                        if isinstance(r, ast.Return) and r.value is not None:
                            exprs.append((r.value, h))
                            hrd = RD(h.node)
                            exprs += [(d.value, h) for d in hrd.closure(hrd.uses(r.value)) if d.value is not None]
    proj_uses = []
    name_uses = []
    edge_sets = set()
    for e, owner in exprs:
        for n in ast.walk(e):
            if isinstance(n, ast.Attribute) and n.attr == "spin_projection":
                proj_uses.append((n, owner))
            if isinstance(n, ast.Attribute) and n.attr == "name" and unparse(n).endswith(".particle.name"):
                name_uses.append(n)
            if isinstance(n, ast.Attribute) and n.attr in {"incoming_edge_ids", "outgoing_edge_ids"}:
                edge_sets.add(n.attr)
    problems = []
    if not proj_uses:
        problems.append("the key does not contain the spin projections")
    if not name_uses:
        problems.append("the key does not contain the particle names")
    if edge_sets != {"incoming_edge_ids", "outgoing_edge_ids"}:
        problems.append(f"the key covers {sorted(edge_sets)} only (initial AND final states are required)")
    for n, owner in proj_uses:
        from ..loader import ancestors as _anc

        for a in _anc(n):
            if isinstance(a, (ast.FunctionDef, ast.Return, ast.Assign)):
                break
            if isinstance(a, ast.Call) and any(x is n or any(y is n for y in ast.walk(x)) for x in a.args):
                name = a.func.id if isinstance(a.func, ast.Name) else a.func.attr if isinstance(a.func, ast.Attribute) else None
                if name in LOSSY:
                    problems.append(f"`{unparse(a)[:60]}` maps different spin projections to one key value (e.g. int(+1/2) == int(-1/2))")
                elif name not in INJECTIVE and name is not None and not name[0].isupper():
                    problems.append(f"spin projection passes through `{name}(...)`, which is not known to be injective")
            if isinstance(a, ast.BinOp) and isinstance(a.op, (ast.FloorDiv, ast.Mod, ast.Mult)) and not isinstance(a.op, ast.Mult):
                problems.append(f"`{unparse(a)[:50]}` is not injective in the spin projection")
    # ... and by WHICH state carries which projection: the incoherent sum runs over the projection of
    # each outer state separately, so (state 0: +1, state 1: 0) and (state 0: 0, state 1: +1) are
    # different terms even when the two states are the same particle species.
    id_problems = []
    n_parts = 0
    for e, owner in exprs:
        for gen in [n for n in ast.walk(e) if isinstance(n, (ast.GeneratorExp, ast.ListComp))]:
            if not any(isinstance(n, ast.Attribute) and n.attr == "spin_projection" for n in ast.walk(gen.elt)):
                continue
            n_parts += 1
            loop_names = {n.id for g in gen.generators for n in ast.walk(g.target) if isinstance(n, ast.Name)}
            elts = gen.elt.elts if isinstance(gen.elt, (ast.Tuple, ast.List)) else [gen.elt]
            carries_id = any(isinstance(x, ast.Name) and x.id in loop_names for x in elts)
            par = next(iter(_anc2(gen)), None)
            sorted_values = isinstance(par, ast.Call) and unparse(par.func) == "sorted" and par.args and par.args[0] is gen and not par.keywords
            ordered_ids = any(isinstance(g.iter, ast.Call) and unparse(g.iter.func) == "sorted" for g in gen.generators)
            if carries_id:
                continue
            if sorted_values:
                id_problems.append(f"`{unparse(par)[:90]}` orders the (name, projection) pairs by value: which state carries which projection is lost")
            elif not ordered_ids:
                id_problems.append(f"`{unparse(gen)[:90]}` lists the pairs in the iteration order of an id set, not by state id")
    if n_parts < 1:  # (one sequence in a helper that is called for both sides is fine)
        id_problems.append("no (name, projection) sequence found in the key")
    if state_identity:
      ctx.verdict(not id_problems, "R-GROUPKEY", f"{fn.qual}::state-identity", tree.loc(fn.node),
                  "group_by_spin_projection: the key keeps the association state id -> (particle, projection), so identical particles with exchanged projections are different groups",
                  id_problems or None)
    ctx.verdict(not problems, "R-GROUPKEY", f"{fn.qual}::injective-key", tree.loc(fn.node),
                "group_by_spin_projection: the group key separates transitions by (particle name, spin projection) of every initial and final state, without lossy conversion", problems or None)


def run(ctx: Check, tree: Tree) -> None:
    ctx.decided += [
        'R-GROUPKEY (state identity): the group key keeps which outer state carries which (particle, projection)',
        'R-FOLD (components): the A_{...} component of a chain accumulates over the identical-particle permutations that share its label',
        "R-TERM (shared with C13): the lineshape of a node is evaluated on that node's own variables - invariant mass, daughter masses and the L of the node (fallbacks only where the transition specifies no L)",
        "R-TERM: Wigner-D roles (J, m of the parent; l1 - l2 of children[0], children[1]; -phi, theta, 0) and both Clebsch-Gordan coefficients equal the formula in the property",
        "R-GROUPKEY: group_by_spin_projection separates transitions by (particle name, spin projection) of every outer state without lossy conversion",
        "R-FOLD: over the fold chain top expression -> register -> topology amplitude -> sequential decay, every transition / combinatorics graph / node reaches its accumulator unconditionally and the accumulator is folded whole; coefficient x product x prefactor; |coherent sum|^2",
    ]
    ctx.not_decided += [
        "numerical equality with an independent implementation of the helicity formula",
        "multiplicity of symmetrisation terms produced inside qrules' combinatorics",
        "components equal partial sums (value level)",
    ]
    ctx.assumptions += [
        "sympy.physics.quantum: Rotation.D(j, m, mp, alpha, beta, gamma), CG(j1, m1, j2, m2, j3, m3) argument order",
        "an edit that skips terms it can prove to vanish would be reported by R-FOLD although the value is unchanged (none exists today)",
    ]
    ctx.section(check_wigner_d, ctx, tree)
    ctx.section(check_cg, ctx, tree)
    ctx.section(check_fold, ctx, tree)
    ctx.section(check_products, ctx, tree)
    ctx.section(check_group_key, ctx, tree)
    from .c13 import check_variable_set

    ctx.section(check_variable_set, ctx, tree)  # "x the assigned lineshape"
