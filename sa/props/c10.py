"""C10 - production vectors solve the K-matrix equation and honour their arguments.

Decided: (b) R-FORWARD - a phase-space factor / angular momentum / meson radius accepted
by a function is handed on to every same-package callee that accepts one;
(a) R-TERM-NC - F = (1-iK)^-1 P and the relativistic analogue; the K substituted is the
K-matrix class's own parametrisation.
"""

from __future__ import annotations

import ast

from ..dataflow import RD
from ..exprmodel import expression_classes
from ..loader import AnalysisError, ClassInfo, FuncInfo, Tree, unparse, walk_function
from ..ncterms import NC, NCEval, nc_func
from ..poly import RF, D
from ..report import Check

PID = "C10"
MOD = "ampform.dynamics.kmatrix"
FORWARDED = ("phsp_factor", "angular_momentum", "meson_radius")
DYN_MODULES = ("ampform.dynamics::", "ampform.dynamics.kmatrix::", "ampform.dynamics.form_factor::", "ampform.dynamics.builder::", "ampform.dynamics.phasespace::")
I = RF.atom("I")


def callee_signature(tree: Tree, callee: str, classes) -> list[str] | None:
    """Parameter names in positional order (fields for expression classes)."""
    if callee in classes:
        return [f.name for f in classes[callee].fields]
    if callee in tree.classes:
        init = tree.lookup_method(tree.classes[callee], "__init__") or tree.lookup_method(tree.classes[callee], "__new__")
        if init is None:
            # attrs class: annotated fields
            return [st.target.id for st in tree.classes[callee].node.body if isinstance(st, ast.AnnAssign) and isinstance(st.target, ast.Name)]
        return init.params[1:]
    if callee in tree.funcs:
        fn = tree.funcs[callee]
        params = fn.params
        if fn.cls is not None and not _is_static(fn):
            params = params[1:]
        return params
    return None


def _is_static(fn: FuncInfo) -> bool:
    return any(unparse(d) == "staticmethod" for d in fn.node.decorator_list)


def available_sources(tree: Tree, fn: FuncInfo, p: str, classes) -> dict:
    """How is the quantity ``p`` available inside ``fn``?"""
    src = {"param": p in fn.params, "self_attr": False, "param_attr": [], "self_args_index": None}
    top = fn
    while top.outer is not None:
        top = top.outer
        if p in top.params:
            src["param"] = True
    if top.cls is not None:
        cq = top.cls.qual
        if cq in classes:
            names = [f.name for f in classes[cq].fields]
            if p in names:
                src["self_attr"] = True
                sym = [f.name for f in classes[cq].sympy_fields]
                if p in sym:
                    src["self_args_index"] = sym.index(p)
        else:
            init = top.cls.methods.get("__init__")
            if init is not None and p in init.params:
                for node in walk_function(init.node):
                    if isinstance(node, ast.Attribute) and isinstance(node.ctx, ast.Store) and node.attr == p:
                        src["self_attr"] = True
    # parameters annotated with a repo class that has a field p (variable_pool.angular_momentum)
    for a in [*top.node.args.args, *fn.node.args.args]:
        if a.annotation is not None:
            tgt = tree.resolve(top.module, a.annotation) if isinstance(a.annotation, (ast.Name, ast.Attribute)) else None
            if tgt in tree.classes:
                fields = [st.target.id for st in tree.classes[tgt].node.body if isinstance(st, ast.AnnAssign) and isinstance(st.target, ast.Name)]
                if p in fields:
                    src["param_attr"].append(a.arg)
    return src


def arg_derives(tree: Tree, fn: FuncInfo, rd: RD, arg: ast.AST, p: str, src: dict) -> bool:
    closure = rd.closure(rd.uses(arg))
    if src["param"] and any(d.kind == "param" and d.name == p for d in closure):
        return True
    exprs = [arg, *[d.value for d in closure if d.value is not None]]
    for e in exprs:
        for n in ast.walk(e):
            if isinstance(n, ast.Attribute) and n.attr == p and isinstance(n.value, ast.Name):
                if n.value.id == "self" and src["self_attr"]:
                    return True
                if n.value.id in src["param_attr"]:
                    return True
    if src["self_args_index"] is not None:
        for d in closure:
            if d.index == src["self_args_index"] and d.value is not None and unparse(d.value).endswith("self.args"):
                return True
            if d.index is not None and d.value is not None and "self.args" in unparse(d.value) and d.index == src["self_args_index"]:
                return True
    return False


def check_forward(ctx: Check, tree: Tree) -> None:
    classes = expression_classes(tree)
    n_triples = 0
    for q, fn in sorted(tree.funcs.items()):
        if not q.startswith(DYN_MODULES):
            continue
        avail = {p: available_sources(tree, fn, p, classes) for p in FORWARDED}
        avail = {p: s for p, s in avail.items() if s["param"] or s["self_attr"] or s["param_attr"]}
        if not avail:
            continue
        top = fn
        while top.outer is not None:
            top = top.outer
        rd_top = RD(top.node)
        for call, callee in tree.calls_in(fn, nested=False):
            if callee is None or not callee.startswith("ampform"):
                continue
            sig = callee_signature(tree, callee, classes)
            if sig is None:
                continue
            for p, src in avail.items():
                if p not in sig:
                    continue
                n_triples += 1
                arg = next((k.value for k in call.keywords if k.arg == p), None)
                if arg is None:
                    # **mapping with a literal dict that supplies the parameter
                    for k in call.keywords:
                        if k.arg is None:
                            cand = [k.value] + [d.value for d in rd_top.reaching(k.value) if d.value is not None] if isinstance(k.value, ast.Name) else [k.value]
                            for dnode in cand:
                                if isinstance(dnode, ast.Dict):
                                    for kk, vv in zip(dnode.keys, dnode.values):
                                        if isinstance(kk, ast.Constant) and kk.value == p:
                                            arg = vv
                if arg is None:
                    i = sig.index(p)
                    if i < len(call.args) and not any(isinstance(a, ast.Starred) for a in call.args[: i + 1]):
                        arg = call.args[i]
                short = callee.split("::")[-1]
                key = f"{q}::call {short}::{p}"
                what = f"{q} -> {short}(... {p}=...)"
                if arg is None:
                    ctx.violation("R-FORWARD", key, tree.loc(call), f"{what}: `{p}` is accepted by the caller but not passed; the callee falls back to its default",
                                  {"caller_has": [k for k, v in src.items() if v], "callee_signature": sig})
                    continue
                ok = arg_derives(tree, fn, rd_top, arg, p, src)
                ctx.verdict(ok, "R-FORWARD", key, tree.loc(call), f"{what}: passes `{unparse(arg)[:40]}`",
                            None if ok else f"the value passed for `{p}` does not derive from the caller's own `{p}`")
        # accepted and never used
        for p, src in avail.items():
            if p in fn.params:
                used = any(isinstance(n, ast.Name) and n.id == p and isinstance(n.ctx, ast.Load) for n in walk_function(fn.node))
                if not used and not _is_abstract_or_stub(fn):
                    ctx.violation("R-FORWARD", f"{q}::unused::{p}", tree.loc(fn.node), f"{q} accepts `{p}` and never uses it")
    ctx.stats["forward_triples"] = n_triples
    if n_triples < 18:
        raise AnalysisError(f"only {n_triples} (caller, callee, parameter) triples found (25 confirmed by hand)")


def check_radius_reaches_barriers(ctx: Check, tree: Tree) -> None:
    """R-FORWARD at term level: inside EnergyDependentWidth (the width of every pole of the relativistic
    K-matrix and P-vector) EVERY barrier factor - FormFactor or BlattWeisskopfSquared, at s and at the
    pole - depends on the caller's meson radius and angular momentum.  A barrier factor built from a
    bare q^2 (radius 1 implied) is invisible to the keyword-level rule: it has no `meson_radius`
    parameter at all."""
    from ..poly import D, sym
    from ..terms import ExtractionError, Opaque, TermEval, deep_atoms

    D.reset()
    te = TermEval(tree)
    edw_q = "ampform.dynamics::EnergyDependentWidth"
    if edw_q not in te.classes:
        raise AnalysisError("vanished anchor: EnergyDependentWidth")
    s_, m0, g0, ma, mb, L, d = (sym(n) for n in ("s", "m0", "gamma0", "ma", "mb", "L", "d"))
    v = te.unfold_atom(te.single_atom(te.construct(edw_q, [s_, m0, g0, ma, mb, L, d], {"phsp_factor": Opaque(("ref", "PHSP"))})))
    d_atom, l_atom = next(iter(d.atoms())), next(iter(L.atoms()))
    barriers = []
    seen: set = set()

    def visit(x, depth=0):
        for a in deep_atoms(te, x):
            if not (isinstance(a, tuple) and a and a[0] == "app" and a in te.apps) or a in seen:
                continue
            seen.add(a)
            name = te.apps[a].cls.split("::")[-1]
            if name in {"FormFactor", "BlattWeisskopfSquared"}:
                barriers.append((name, a))
            if te.apps[a].cls in te.classes and name == "FormFactor" and depth < 3:
                try:
                    visit(te.unfold_atom(a), depth + 1)
                except ExtractionError:
                    pass

    visit(v)
    where = tree.loc(te.classes[edw_q].method("evaluate").node)
    if len(barriers) < 2:
        raise AnalysisError(f"EnergyDependentWidth.evaluate: {len(barriers)} barrier factors found (one at s and one at the pole expected)")
    from ..poly import RF

    bad = []
    for name, a in barriers:
        atoms = deep_atoms(te, RF.atom(a))
        missing = [n for n, at in (("meson_radius", d_atom), ("angular_momentum", l_atom)) if at not in atoms]
        if missing:
            first = te.apps[a].args[0]
            bad.append(f"{name}({'pole' if m0.atoms() <= deep_atoms(te, first) else 's'} ...) does not depend on {missing}")
    ctx.verdict(not bad, "R-FORWARD", f"{edw_q}.evaluate::radius-reaches-every-barrier-factor", where,
                f"EnergyDependentWidth: all {len(barriers)} barrier factors (at s and at the pole) depend on the caller's meson_radius and angular_momentum",
                bad or None)


def _is_abstract_or_stub(fn: FuncInfo) -> bool:
    body = [s for s in fn.node.body if not (isinstance(s, ast.Expr) and isinstance(s.value, ast.Constant))]
    return not body or any("abstractmethod" in unparse(d) or "overload" in unparse(d) for d in fn.node.decorator_list)


def accepted_f(rel: bool, return_hat: bool) -> list[NC]:
    K, P, rho, one = NC.sym("K"), NC.sym("P"), NC.sym("rho"), NC.eye()
    if not rel:
        return [(one - I * K).inv() * P]
    sq = nc_func("sqrt", rho)
    k_hat = nc_func("conj", sq).inv() * K * sq.inv()
    # rho = sqrt(rho)^2 is diagonal: K^ rho = conj(sq)^-1 K sq^-1 rho = conj(sq)^-1 K sq
    f_hat = [(one - I * k_hat * rho).inv() * P, (one - I * nc_func("conj", sq).inv() * K * sq).inv() * P]
    if return_hat:
        return f_hat
    return [sq * f for f in f_hat]


def check_f_vector(ctx: Check, tree: Tree, cls_name: str, rel: bool) -> None:
    fn = tree.func(f"{MOD}::{cls_name}._create_matrices")
    nce = NCEval(tree)
    flags_list = [{"return_f_hat": False}, {"return_f_hat": True}] if "return_f_hat" in fn.params else [{}]
    for flags in flags_list:
        res = nce.run(fn, dict(flags))
        if not res or not isinstance(res[0], NC):
            raise AnalysisError(f"{fn.qual}: no matrix term returned")
        got = res[0]
        acc = accepted_f(rel, flags.get("return_f_hat", False))
        ok = any(got == a for a in acc)
        what = {
            (False, False): "F = (1 - iK)^-1 P",
            (True, True): "F^ = (1 - i K^ rho)^-1 P with K^ = conj(sqrt rho)^-1 K sqrt(rho)^-1",
            (True, False): "F = sqrt(rho) (1 - i K^ rho)^-1 P",
        }[(rel, flags.get("return_f_hat", False))]
        ctx.verdict(ok, "R-TERM-NC", f"{fn.qual}::{sorted(flags.items())}", tree.loc(fn.node),
                    f"{cls_name}._create_matrices{flags or ''}: {what}", None if ok else {"got": got.show(), "accepted": [a.show() for a in acc]})
        ok2 = len(res) == 3 and res[1] == NC.sym("K") and res[2] == NC.sym("P")
        ctx.verdict(ok2, "R-TERM-NC", f"{fn.qual}::returns-K-P::{sorted(flags.items())}", tree.loc(fn.node),
                    f"{cls_name}._create_matrices returns (F, K, P) with the symbol matrices that are parametrised")


def check_pvector_wiring(ctx: Check, tree: Tree) -> None:
    pairs = {"NonRelativisticPVector": "NonRelativisticKMatrix", "RelativisticPVector": "RelativisticKMatrix"}
    for pv, km in pairs.items():
        fn = tree.func(f"{MOD}::{pv}.formulate")
        rd = RD(fn.node)
        seen = {"K": False, "P": False}

        class _Item:  # one `K[i, j] -> parametrization(...)` pair: an item of a dict comprehension or a store `D[K[i, j]] = ...`
            def __init__(self, node, key, value):
                self.node, self.key, self.value = node, key, value

        items = []
        for n_ in walk_function(fn.node):
            if isinstance(n_, ast.DictComp) and isinstance(n_.key, ast.Subscript) and isinstance(n_.value, ast.Call):
                items.append(_Item(n_, n_.key, n_.value))
            elif (isinstance(n_, ast.Assign) and len(n_.targets) == 1 and isinstance(n_.targets[0], ast.Subscript) and isinstance(n_.targets[0].slice, ast.Subscript)
                  and isinstance(n_.value, ast.Call)):
                items.append(_Item(n_, n_.targets[0].slice, n_.value))
        for node in items:
            callee = tree.callee(node.value, fn)
            if callee is None or not callee.endswith(".parametrization"):
                if isinstance(node.node, ast.Assign):
                    continue  # another kind of store (e.g. rho_i -> phase-space factor)
            base = node.key.value
            base_defs = rd.reaching(base) if isinstance(base, ast.Name) else set()
            pos = {d.index for d in base_defs}
            kw = {k.arg: unparse(k.value) for k in node.value.keywords}
            idx = unparse(node.key.slice).replace(" ", "").strip("()")
            if callee == f"{MOD}::{km}.parametrization":
                seen["K"] = True
                ok = pos == {1} and idx == f"{kw.get('i')},{kw.get('j')}"
                ctx.verdict(ok, "R-WIRING", f"{fn.qual}::K[i,j]->{km}.parametrization", tree.loc(node.node),
                            f"{pv}.formulate: {unparse(node.key)} (2nd element of _create_matrices) -> {km}.parametrization(i={kw.get('i')}, j={kw.get('j')})",
                            None if ok else {"tuple_position": sorted(map(str, pos)), "index": idx})
            elif callee == f"{MOD}::{pv}.parametrization":
                seen["P"] = True
                ok = pos == {2} and idx == f"{kw.get('i')}"
                ctx.verdict(ok, "R-WIRING", f"{fn.qual}::P[i]->parametrization", tree.loc(node.node),
                            f"{pv}.formulate: {unparse(node.key)} (3rd element of _create_matrices) -> {pv}.parametrization(i={kw.get('i')})",
                            None if ok else {"tuple_position": sorted(map(str, pos)), "index": idx})
            else:
                ctx.violation("R-WIRING", f"{fn.qual}::foreign-parametrization::{callee}", tree.loc(node.node),
                              f"{pv}.formulate substitutes {unparse(node.key)} by {callee}: not the library's own K/P parametrisation")
        if not all(seen.values()):
            raise AnalysisError(f"{fn.qual}: K / P substitution not found ({seen})")
        # the same pole symbols feed K and P (so that the poles of P are the poles of K)
        shared = ("s", "pole_position", "pole_width", "residue_constant", "pole_id", "n_poles")
        calls = [it.value for it in items]
        kcall = next(c for c in calls if (tree.callee(c, fn) or "").endswith(f"{km}.parametrization"))
        pcall = next(c for c in calls if (tree.callee(c, fn) or "").endswith(f"{pv}.parametrization"))
        from ..inline import Inliner

        inl = Inliner(fn.node, rd)
        for name in shared:
            ka = next((k.value for k in kcall.keywords if k.arg == name), None)
            pa = next((k.value for k in pcall.keywords if k.arg == name), None)
            if ka is None or pa is None:
                continue
            same = ast.dump(inl.expr(ka)) == ast.dump(inl.expr(pa))
            ctx.verdict(same, "R-WIRING", f"{fn.qual}::shared::{name}", tree.loc(pcall),
                        f"{pv}.formulate: `{name}` of the P-vector is the `{name}` of the K-matrix ({unparse(inl.expr(pa))[:50]})",
                        None if same else {"K": unparse(inl.expr(ka)), "P": unparse(inl.expr(pa))})


def check_memo_advisory(ctx: Check, tree: Tree) -> None:
    for cls_name in ("NonRelativisticKMatrix", "RelativisticKMatrix", "NonRelativisticPVector", "RelativisticPVector"):
        fn = tree.func(f"{MOD}::{cls_name}._create_matrices")
        cached = any("cache" in unparse(d) for d in fn.node.decorator_list)
        form = tree.func(f"{MOD}::{cls_name}.formulate")
        hands_out = any(isinstance(n, ast.If) and "parametrize" in unparse(n.test) and any(isinstance(s, ast.Return) for s in n.body) for n in walk_function(form.node))
        if cached and hands_out:
            ctx.advisory("A-MEMO", tree.loc(fn.node), f"{cls_name}._create_matrices is memoised and formulate(parametrize=False) hands out the cached MutableDenseMatrix (see C06; not a clause of C10)")


def check_cached_matrices_not_mutated(ctx: Check, tree: Tree) -> None:
    """The symbolic matrices come out of functools.cache: formulate() must substitute into
    them (xreplace builds new objects) and never write into them, otherwise the k-th call
    for the same number of channels returns something else than the first."""
    from .c06 import AliasFlow, memoised_functions, mutable_result

    sources = {f.qual: f"memoised {f.qual}" for f in memoised_functions(tree) if f.qual.startswith(MOD + "::") and mutable_result(f) and f.cls is not None and f.cls.name in ('RelativisticPVector', 'NonRelativisticPVector')}
    if len(sources) < 2:
        raise AnalysisError(f"only {len(sources)} memoised _create_matrices found for RelativisticPVector/NonRelativisticPVector")
    flow = AliasFlow(tree, sources)
    flow.fixpoint()
    bad = [(fn, node, origin) for fn, node, origin in flow.mutations() if fn.qual not in sources]
    for fn, node, origin in bad:
        ctx.violation("R-CACHE", f"{fn.qual}::{unparse(node)[:60]}::mutates-cached-matrix", tree.loc(node),
                      f"{fn.qual}: `{unparse(node)[:60]}` writes into a matrix that aliases a memoised result ({origin.split(' -> ')[0]})",
                      "the cached matrix is shared by all later calls with the same n_channels: the second formulate() starts from the already modified matrix")
    if not bad:
        ctx.ok("R-CACHE", MOD.replace(".", "/"), f"the {len(sources)} memoised matrix builders' results are only read / substituted (xreplace), never written")


def check_no_rebuild(ctx: Check, tree: Tree) -> None:
    """R-REBUILD: an expression that may contain EnergyDependentWidth (or any class that keeps a
    phase-space factor / angular momentum / meson radius as a non-sympified argument) is never
    handed to a SymPy operation that reconstructs nodes from ``.args`` (together, cancel, factor,
    simplify, expand, cse, rewrite, ...): the reconstruction drops the argument and the class's
    default phase-space factor re-appears inside the widths."""
    from ..rules import carrier_classes, rebuild_sites

    carriers = carrier_classes(tree, FORWARDED)
    if not carriers:
        raise AnalysisError("no expression class keeps phsp_factor/angular_momentum/meson_radius as a non-sympified argument (EnergyDependentWidth.phsp_factor confirmed)")
    sites, stats = rebuild_sites(tree, ("ampform.",), carriers)
    ctx.stats["rebuild"] = stats
    bad = [s for s in sites if s["carrier_via"]]
    for s in bad:
        fn = s["fn"]
        ctx.violation("R-REBUILD", f"{fn.qual}::{s['name']}", tree.loc(s["node"]),
                      f"{fn.qual}: `{unparse(s['node'])[:60]}` reconstructs nodes from .args on an expression that may contain {sorted(c.split('::')[-1] for c in carriers)} (via {s['carrier_via']})",
                      f"the non-sympified argument(s) {sorted({n for v in carriers.values() for n in v})} are not part of .args: the rebuilt node carries the default, not the caller's choice")
    for s in sites:
        if not s["carrier_via"]:
            ctx.info("R-REBUILD", tree.loc(s["node"]), f"{s['fn'].qual}: `{unparse(s['node'])[:50]}` operates on an expression without such a class")
    if not bad:
        ctx.ok("R-REBUILD", "src/ampform/dynamics", f"none of the {len(sites)} SymPy node-reconstructing calls in the package receives an expression that may contain {sorted(c.split('::')[-1] for c in carriers)}")


def _summand(te, tree: Tree, cls_name: str, over: dict):
    from ..poly import sym

    fn = tree.func(f"{MOD}::{cls_name}.parametrization")
    args = [over.get(p, sym(p)) for p in fn.params]
    res = te.eval_function(fn, args)
    atom = te.single_atom(res) if isinstance(res, RF) else None
    info = te.apps.get(atom) if atom is not None else None
    if info is None or info.cls != "Sum":
        raise AnalysisError(f"{fn.qual}: does not return Sum(<summand>, (pole_id, 1, n_poles))")
    return fn, info.args[0], info.args[1]


def check_bw_reduction(ctx: Check, tree: Tree) -> None:
    """Clause (c): for one channel and one pole the K-matrix and the P-vector reduce to the
    library's own Breit-Wigner functions (the oracle is the library, as the property says).

    With the summands K, P of the parametrisations at i = j, gamma := 1 (K/gamma^2, P/gamma):
        K/(1 - iK)          == relativistic_breit_wigner(s, m_R, Gamma_R)                   (non-relativistic K)
        P/(1 - iK)          == beta_R * relativistic_breit_wigner(s, m_R, Gamma_R)          (non-relativistic P)
        P/(beta (1 - iK))   == relativistic_breit_wigner_with_ff(s, m_R, Gamma_R, m_a, m_b, L, d, phsp)   (relativistic)
    and for general i, j the K summand is gamma_Ri gamma_Rj sqrt(m_R W_i) sqrt(m_R W_j) / (m_R^2 - s)."""
    import ast as _ast

    from ..poly import equal, sym
    from ..terms import TermEval

    D.reset()
    te = TermEval(tree)
    one = RF.const(1)

    def ev(fn, text, env):
        return te.ev(_ast.parse(text, mode="eval").body, env, fn)

    fn_k, k_nr, lim = _summand(te, tree, "NonRelativisticKMatrix", {"j": sym("i")})
    env = {p: sym(p) for p in fn_k.params}
    g = ev(fn_k, "residue_constant[pole_id, i]", env)
    m = ev(fn_k, "pole_position[pole_id]", env)
    width = ev(fn_k, "pole_width[pole_id, i]", env)
    bw_fn = tree.func("ampform.dynamics::relativistic_breit_wigner")
    bwff_fn = tree.func("ampform.dynamics::relativistic_breit_wigner_with_ff")
    bw = te.eval_function(bw_fn, [sym("s"), m, width])
    k1 = k_nr / (g * g)
    ok = equal(k1 / (one - I * k1), bw)
    ctx.verdict(ok, "R-TERM", f"{fn_k.qual}::breit-wigner-reduction", tree.loc(fn_k.node),
                "one channel, one pole, gamma = 1: K/(1 - iK) == relativistic_breit_wigner(s, m_R, Gamma_R)", None if ok else {"K": repr(k_nr)[:300]})
    fn_p, p_nr, _ = _summand(te, tree, "NonRelativisticPVector", {})
    beta = ev(fn_p, "beta_constant[pole_id]", {p: sym(p) for p in fn_p.params})
    ok = equal((p_nr / g) / (one - I * k1), beta * bw)
    ctx.verdict(ok, "R-TERM", f"{fn_p.qual}::breit-wigner-reduction", tree.loc(fn_p.node),
                "one channel, one pole, gamma = 1: P/(1 - iK) == beta_R * relativistic_breit_wigner(s, m_R, Gamma_R)", None if ok else {"P": repr(p_nr)[:300]})
    fn_k2, k_r, _ = _summand(te, tree, "RelativisticKMatrix", {"j": sym("i")})
    env2 = {p: sym(p) for p in fn_k2.params}
    fn_p2, p_r, _ = _summand(te, tree, "RelativisticPVector", {})
    k2 = k_r / (g * g)
    bwff = te.eval_function(bwff_fn, [sym("s"), m, width, ev(fn_k2, "m_a[i]", env2), ev(fn_k2, "m_b[i]", env2), sym("angular_momentum"), sym("meson_radius"), sym("phsp_factor")])
    ok = equal((p_r / (g * beta)) / (one - I * k2), bwff)
    ctx.verdict(ok, "R-TERM", f"{fn_p2.qual}::breit-wigner-reduction", tree.loc(fn_p2.node),
                "one channel, one pole, gamma = beta = 1: P/(1 - iK) with the relativistic K == relativistic_breit_wigner_with_ff(s, m_R, Gamma_R, m_a, m_b, L, d, phsp_factor)",
                None if ok else {"P": repr(p_r)[:200], "K": repr(k_r)[:200]})
    # every parametrisation sums over the poles 1..n_poles
    from ..terms import Tup, vkey

    for cls_name in ("NonRelativisticKMatrix", "RelativisticKMatrix", "NonRelativisticPVector", "RelativisticPVector"):
        fn, _, limits = _summand(te, tree, cls_name, {})
        ok = vkey(limits) == vkey(Tup([sym("pole_id"), RF.const(1), sym("n_poles")]))
        ctx.verdict(ok, "R-TERM", f"{fn.qual}::pole-sum", tree.loc(fn.node), f"{cls_name}.parametrization sums over (pole_id, 1, n_poles)",
                    None if ok else repr(limits)[:120])
    # general i, j: the residue structure of the K-matrix
    specs = {
        "NonRelativisticKMatrix": ("pole_width[pole_id, {c}]", {}),
        "RelativisticKMatrix": ("EnergyDependentWidth(s=s, mass0=pole_position[pole_id], gamma0=pole_width[pole_id, {c}], m_a=m_a[{c}], m_b=m_b[{c}], angular_momentum=angular_momentum, meson_radius=meson_radius, phsp_factor=phsp_factor)", {}),
    }
    for cls_name, (w, _) in specs.items():
        fn, got, limits = _summand(te, tree, cls_name, {})
        e = {p: sym(p) for p in fn.params}
        spec = ("residue_constant[pole_id, i] * sp.sqrt(pole_position[pole_id] * " + w.format(c="i") + ") * residue_constant[pole_id, j] * sp.sqrt(pole_position[pole_id] * "
                + w.format(c="j") + ") / (pole_position[pole_id] ** 2 - s)")
        want = ev(fn, spec, e)
        ok = equal(got, want)
        ctx.verdict(ok, "R-TERM", f"{fn.qual}::residue-structure", tree.loc(fn.node),
                    f"{cls_name}.parametrization summand == gamma_Ri gamma_Rj sqrt(m_R W_Ri) sqrt(m_R W_Rj) / (m_R^2 - s), W = {'Gamma_Ri' if 'Non' in cls_name else 'EnergyDependentWidth of channel i with the forwarded L, d, phsp_factor'}",
                    None if ok else {"got": repr(got)[:300]})


def run(ctx: Check, tree: Tree) -> None:
    ctx.decided += [
        "R-FORWARD (term level): every barrier factor inside EnergyDependentWidth depends on the caller's meson_radius and angular_momentum",
        "every (caller, callee, parameter) triple over {phsp_factor, angular_momentum, meson_radius} in ampform.dynamics forwards the caller's value (R-FORWARD)",
        "F = (1-iK)^-1 P; F^ = (1 - i K^ rho)^-1 P with K^ = conj(sqrt rho)^-1 K sqrt(rho)^-1, F = sqrt(rho) F^ (R-TERM-NC)",
        "K[i,j] and P[i] are substituted by the library's own parametrisations with matching indices and shared pole symbols (R-WIRING)",
        "the rho_i placeholders of producer and consumers agree and carry no assumptions (R-SYMPAIR, R-PLACEHOLDER); the hashable content of an expression determines a class/function-valued phsp_factor, so SymPy's expression cache cannot hand out a node with another caller's factor (R-INJECTIVE)",
        "no expression that may contain a class with a non-sympified phsp_factor/angular_momentum/meson_radius is passed to a SymPy operation that rebuilds nodes from .args (R-REBUILD)",
    ]
    ctx.decided += ["one channel / one pole: K/(1-iK), P/(1-iK) reduce to the library's relativistic_breit_wigner[_with_ff] as rational-function identities at gamma = 1; residue structure of the K summands for general i, j (R-TERM)"]
    ctx.not_decided += ["numerical residual of (1-iK)F - P", "the relativistic T-matrix for one channel (|rho| factors: 'something of a Breit-Wigner' in the documentation, no exact claim)"]
    ctx.assumptions += [
        "a callee parameter with a default silently takes that default when not passed (Python call semantics)",
        "SymPy's together/cancel/factor/simplify/expand/cse/rewrite/... reconstruct visited nodes as node.func(*node.args) (table REBUILDERS in sa/rules.py)",
    ]
    D.reset()
    ctx.section(check_forward, ctx, tree)
    ctx.section(check_radius_reaches_barriers, ctx, tree)
    ctx.section(check_f_vector, ctx, tree, "NonRelativisticPVector", rel=False)
    ctx.section(check_f_vector, ctx, tree, "RelativisticPVector", rel=True)
    ctx.section(check_pvector_wiring, ctx, tree)
    ctx.section(check_memo_advisory, ctx, tree)
    ctx.section(check_cached_matrices_not_mutated, ctx, tree)
    ctx.section(check_no_rebuild, ctx, tree)
    ctx.section(check_bw_reduction, ctx, tree)
    from .c09 import check_rho_pairing
    from .c14 import check_content_injective

    ctx.section(check_rho_pairing, ctx, tree)  # "with the same rho": producer/consumer symbols agree, placeholders carry no assumptions
    hook = tree.funcs.get("ampform.sympy._decorator::_hashable_content_method")
    if hook is None:
        raise AnalysisError("vanished anchor: _hashable_content_method")
    ctx.section(check_content_injective, ctx, tree, hook)
