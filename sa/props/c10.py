"""C10 - production vectors solve the K-matrix equation and honour their arguments.

Decided: (b) R-FORWARD - a phase-space factor / angular momentum / meson radius accepted
by a function is handed on to every same-package callee that accepts one;
(a) R-TERM-NC - F = (1-iK)^-1 P and the relativistic analogue; the K substituted is the
K-matrix class's own parametrisation.
"""

from __future__ import annotations

import ast

from ..dataflow import RD
from ..exprmodel import expression_classes
from ..loader import AnalysisError, FuncInfo, Tree, unparse, walk_function
from ..ncterms import NC, nc_func
from ..poly import RF, D
from ..report import Check

PID = "C10"
MOD = "ampform.dynamics.kmatrix"
FORWARDED = ("phsp_factor", "angular_momentum", "meson_radius")
DYN_MODULES = ("ampform.dynamics::", "ampform.dynamics.kmatrix::", "ampform.dynamics.form_factor::", "ampform.dynamics.builder::", "ampform.dynamics.phasespace::")
I = RF.atom("I")


def callee_signature(tree: Tree, callee: str, classes) -> list[str] | None:
    """Parameter names in positional order (fields for expression classes)."""
    if callee in classes:
        return [f.name for f in classes[callee].fields]
    if callee in tree.classes:
        init = tree.lookup_method(tree.classes[callee], "__init__") or tree.lookup_method(tree.classes[callee], "__new__")
        if init is None:
            # attrs class: annotated fields
            return [st.target.id for st in tree.classes[callee].node.body if isinstance(st, ast.AnnAssign) and isinstance(st.target, ast.Name)]
        return init.params[1:]
    if callee in tree.funcs:
        fn = tree.funcs[callee]
        params = fn.params
        if fn.cls is not None and not _is_static(fn):
            params = params[1:]
        return params
    return None


def _is_static(fn: FuncInfo) -> bool:
    return any(unparse(d) == "staticmethod" for d in fn.node.decorator_list)


def available_sources(tree: Tree, fn: FuncInfo, p: str, classes) -> dict:
    """How is the quantity ``p`` available inside ``fn``?"""
    src = {"param": p in fn.params, "self_attr": False, "param_attr": [], "self_args_index": None}
    top = fn
    while top.outer is not None:
        top = top.outer
        if p in top.params:
            src["param"] = True
    if top.cls is not None:
        cq = top.cls.qual
        if cq in classes:
            names = [f.name for f in classes[cq].fields]
            if p in names:
                src["self_attr"] = True
                sym = [f.name for f in classes[cq].sympy_fields]
                if p in sym:
                    src["self_args_index"] = sym.index(p)
        else:
            for name in ("__init__", "__post_init__", "__attrs_post_init__"):
                init = top.cls.methods.get(name)
                if init is None:
                    continue
                for node in walk_function(init.node):
                    if isinstance(node, ast.Attribute) and isinstance(node.ctx, ast.Store) and node.attr.lstrip("_") == p:
                        src["self_attr"] = True
            # a field of a dataclass / attrs class (`phsp_factor: PhaseSpaceFactorProtocol = PhaseSpaceFactor` in the class body)
            if any(isinstance(st, ast.AnnAssign) and isinstance(st.target, ast.Name) and st.target.id.lstrip("_") == p for st in top.cls.node.body):
                src["self_attr"] = True
    # parameters annotated with a repo class that has a field p (variable_pool.angular_momentum)
    for a in [*top.node.args.args, *fn.node.args.args]:
        if a.annotation is not None:
            tgt = tree.resolve(top.module, a.annotation) if isinstance(a.annotation, (ast.Name, ast.Attribute)) else None
            if tgt in tree.classes:
                fields = [st.target.id for st in tree.classes[tgt].node.body if isinstance(st, ast.AnnAssign) and isinstance(st.target, ast.Name)]
                if p in fields:
                    src["param_attr"].append(a.arg)
    return src


def arg_derives(tree: Tree, fn: FuncInfo, rd: RD, arg: ast.AST, p: str, src: dict) -> bool:
    closure = rd.closure(rd.uses(arg))
    if src["param"] and any(d.kind == "param" and d.name == p for d in closure):
        return True
    exprs = [arg, *[d.value for d in closure if d.value is not None]]
    for e in exprs:
        for n in ast.walk(e):
            if isinstance(n, ast.Attribute) and n.attr.lstrip("_") == p and isinstance(n.value, ast.Name):
                if n.value.id == "self" and src["self_attr"]:
                    return True
                if n.value.id in src["param_attr"] and n.attr == p:
                    return True
    if src["self_args_index"] is not None:
        if isinstance(arg, ast.Subscript) and unparse(arg.value) == "self.args" and isinstance(arg.slice, ast.Constant) and arg.slice.value == src["self_args_index"]:
            return True  # `self.args[i]` (also an element of `*rest` after `a, b, *rest = self.args`)
        for d in closure:
            if d.index == src["self_args_index"] and d.value is not None and unparse(d.value).endswith("self.args"):
                return True
            if d.index is not None and d.value is not None and "self.args" in unparse(d.value) and d.index == src["self_args_index"]:
                return True
    return False


def _single_value(rd: RD, node: ast.AST) -> ast.AST | None:
    """The one expression a local name stands for (single reaching assignment), else None."""
    if not isinstance(node, ast.Name):
        return None
    defs = rd.reaching(node)
    if len(defs) != 1:
        return None
    d = next(iter(defs))
    if d.kind != "assign" or d.value is None or d.index is not None or isinstance(d.node, ast.AugAssign):
        return None
    return d.value


def _mapping_items(tree: Tree, fn: FuncInfo, rd: RD, node: ast.AST, depth: int = 0) -> dict[str, ast.AST] | None:
    """keyword -> value expression of a ``**mapping`` argument, if the mapping can be read: a dict display with
    constant keys (``{**base, "k": v}`` merged), ``dict(k=v, ...)`` / ``dict(base, k=v)``, or a local bound once to
    such a value and not modified afterwards.  None: the mapping is not known."""
    if depth > 4:
        return None
    if isinstance(node, ast.Name):
        value = _single_value(rd, node)
        if value is None:
            return None
        # the mapping must not be written to between its definition and its use
        for n in walk_function(fn.node):
            if isinstance(n, ast.Subscript) and isinstance(n.ctx, (ast.Store, ast.Del)) and isinstance(n.value, ast.Name) and n.value.id == node.id:
                return None
            if isinstance(n, ast.Call) and isinstance(n.func, ast.Attribute) and isinstance(n.func.value, ast.Name) and n.func.value.id == node.id \
                    and n.func.attr in {"update", "pop", "setdefault", "clear", "popitem", "__setitem__"}:
                return None
        return _mapping_items(tree, fn, rd, value, depth + 1)
    if isinstance(node, ast.Dict):
        out: dict[str, ast.AST] = {}
        for k, v in zip(node.keys, node.values):
            if k is None:
                inner = _mapping_items(tree, fn, rd, v, depth + 1)
                if inner is None:
                    return None
                out.update(inner)
            elif isinstance(k, ast.Constant) and isinstance(k.value, str):
                out[k.value] = v
            else:
                return None
        return out
    if isinstance(node, ast.Call) and isinstance(node.func, ast.Name) and node.func.id == "dict" and tree.resolve(fn.module, node.func, fn) in {None, "builtins.dict"}:
        out = {}
        if len(node.args) > 1:
            return None
        if node.args:
            inner = _mapping_items(tree, fn, rd, node.args[0], depth + 1)
            if inner is None:
                return None
            out.update(inner)
        for k in node.keywords:
            if k.arg is None:
                inner = _mapping_items(tree, fn, rd, k.value, depth + 1)
                if inner is None:
                    return None
                out.update(inner)
            else:
                out[k.arg] = k.value
        return out
    if isinstance(node, ast.BinOp) and isinstance(node.op, ast.BitOr):
        left, right = _mapping_items(tree, fn, rd, node.left, depth + 1), _mapping_items(tree, fn, rd, node.right, depth + 1)
        return None if left is None or right is None else {**left, **right}
    return None


def _rest_of_unpacking(rd: RD, name: ast.Name, n_self_args: int | None) -> list[ast.AST] | None:
    """``a, b, *rest, z = SEQ``: the elements ``rest`` holds, as expressions - the elements of a tuple display, or
    ``self.args[i]`` subscripts (sharing the ``self.args`` node of the assignment) when SEQ is ``self.args`` of an
    expression class whose number of arguments is known.  None: not such a local."""
    defs = rd.reaching(name)
    if len(defs) != 1:
        return None
    d = next(iter(defs))
    if d.kind != "assign" or d.index is None or d.value is None or not isinstance(d.node, ast.Assign) or len(d.node.targets) != 1:
        return None
    tgt = d.node.targets[0]
    if not isinstance(tgt, (ast.Tuple, ast.List)) or d.index >= len(tgt.elts) or not isinstance(tgt.elts[d.index], ast.Starred) or sum(isinstance(e, ast.Starred) for e in tgt.elts) != 1:
        return None
    star = tgt.elts[d.index].value
    if not (isinstance(star, ast.Name) and star.id == name.id):
        return None
    before, after = d.index, len(tgt.elts) - d.index - 1
    if isinstance(d.value, (ast.Tuple, ast.List)) and not any(isinstance(e, ast.Starred) for e in d.value.elts):
        return list(d.value.elts[before: len(d.value.elts) - after]) if len(d.value.elts) >= before + after else None
    if unparse(d.value) == "self.args" and n_self_args is not None and n_self_args >= before + after:
        return [ast.copy_location(ast.Subscript(value=d.value, slice=ast.Constant(value=i), ctx=ast.Load()), d.value) for i in range(before, n_self_args - after)]
    return None


def _slice_of(rd: RD, v: ast.AST, n_self_args: int | None) -> list[ast.AST] | None:
    """``seq[a:b]`` with constant bounds of a sequence whose elements are known."""
    if not (isinstance(v, ast.Subscript) and isinstance(v.slice, ast.Slice) and v.slice.step is None and isinstance(v.value, ast.Name)):
        return None
    bounds = []
    for b in (v.slice.lower, v.slice.upper):
        if b is None:
            bounds.append(None)
        elif isinstance(b, ast.Constant) and type(b.value) is int and b.value >= 0:
            bounds.append(b.value)
        else:
            return None
    base = _single_value(rd, v.value)
    items = list(base.elts) if isinstance(base, (ast.Tuple, ast.List)) and not any(isinstance(e, ast.Starred) for e in base.elts) else _rest_of_unpacking(rd, v.value, n_self_args)
    return None if items is None else items[bounds[0]: bounds[1]]


def _positional(rd: RD, args: list[ast.AST], n_self_args: int | None = None) -> list[ast.AST] | None:
    """The positional arguments with ``*t`` expanded when ``t`` is a tuple / list display (or a local bound once to
    one), the starred rest of an unpacking of such a display / of ``self.args``, or a constant slice of one of those;
    None if a starred argument cannot be expanded."""
    out: list[ast.AST] = []
    for a in args:
        if not isinstance(a, ast.Starred):
            out.append(a)
            continue
        v = a.value
        if isinstance(v, ast.Name):
            rest = _rest_of_unpacking(rd, v, n_self_args)
            if rest is not None:
                out.extend(rest)
                continue
            v = _single_value(rd, v) or v
        sliced = _slice_of(rd, v, n_self_args)
        if sliced is not None:
            out.extend(sliced)
            continue
        if not isinstance(v, (ast.Tuple, ast.List)) or any(isinstance(e, ast.Starred) for e in v.elts):
            return None
        out.extend(v.elts)
    return out


class _Supplied:
    """What one call site hands to the callee: positional arguments, keywords, and whether everything is known."""

    def __init__(self, tree: Tree, fn: FuncInfo, rd: RD, call: ast.Call, skip_first: int = 0) -> None:
        ec = expression_classes(tree).get(fn.cls.qual) if fn.cls is not None else None
        self.pos = _positional(rd, call.args[skip_first:], len(ec.sympy_fields) if ec is not None else None)
        self.kw: dict[str, ast.AST] = {}
        self.open: list[str] = [] if self.pos is not None else ["a *argument that is not a tuple display"]
        for k in call.keywords:
            if k.arg is not None:
                self.kw[k.arg] = k.value
                continue
            items = _mapping_items(tree, fn, rd, k.value)
            if items is None:
                self.open.append(f"**{unparse(k.value)[:30]} (a mapping that cannot be read)")
            else:
                self.kw.update(items)

    def get(self, sig: list[str], p: str) -> ast.AST | None:
        if p in self.kw:
            return self.kw[p]
        i = sig.index(p)
        if self.pos is not None and i < len(self.pos):
            return self.pos[i]
        return None


def _call_sites(tree: Tree, fn: FuncInfo, rd: RD):
    """(call node, callee qualname, [_Supplied ...]) for every call of a package callable in ``fn``: direct calls,
    calls through a local alias (``make = FormFactor; make(...)``) and ``functools.partial(callee, ...)`` objects
    together with the calls of the local they are bound to (the arguments of both add up)."""
    partials: dict[int, tuple[ast.Call, str]] = {}  # id(partial call) -> (node, callee)
    sites = []
    calls = [n for n in walk_function(fn.node, nested=False) if isinstance(n, ast.Call)]
    for call in calls:
        callee = tree.callee(call, tree.func_of(call) or fn)
        if callee == "functools.partial" and call.args:
            target = tree.resolve(fn.module, call.args[0], tree.func_of(call) or fn)
            if target is None and isinstance(call.args[0], ast.Name):
                v = _single_value(rd, call.args[0])
                target = tree.resolve(fn.module, v, fn) if v is not None else None
            if target and target.startswith("ampform"):
                partials[id(call)] = (call, target)
            continue
        if callee is None and isinstance(call.func, ast.Name):
            v = _single_value(rd, call.func)
            if v is not None and id(v) in partials:
                continue  # handled with the partial below
            if isinstance(v, (ast.Name, ast.Attribute)):
                callee = tree.resolve(fn.module, v, fn)
        if callee is not None and callee.startswith("ampform"):
            sites.append((call, callee, [_Supplied(tree, fn, rd, call)], True))
    for pid_, (pcall, target) in partials.items():
        first = _Supplied(tree, fn, rd, pcall, skip_first=1)
        later = []
        complete = False
        for call in calls:
            if isinstance(call.func, ast.Name):
                v = _single_value(rd, call.func)
                if v is pcall:
                    later.append(_Supplied(tree, fn, rd, call))
                    complete = True
        # the partial object may also be handed on (returned, stored): then the later arguments are not all known
        uses = [n for n in walk_function(fn.node, nested=False) if isinstance(n, ast.Name) and isinstance(n.ctx, ast.Load) and _single_value(rd, n) is pcall]
        called = {id(c.func) for c in calls}
        if any(id(u) not in called for u in uses) or not uses:
            complete = False
        if later:
            for l_ in later:
                sites.append((pcall, target, [first, l_], complete))
        else:
            sites.append((pcall, target, [first], False))
    return sites


def _definitely_unrelated(rd: RD, arg: ast.AST) -> bool:
    """The value handed over is built from literals, module-level names and other parameters only (nothing that
    could carry the caller's value in a way this rule does not follow: no call, attribute or subscript)."""
    exprs = [arg, *[d.value for d in rd.closure(rd.uses(arg)) if d.value is not None]]
    for e in exprs:
        for n in ast.walk(e):
            if isinstance(n, (ast.Call, ast.Attribute, ast.Subscript, ast.Starred, ast.Lambda, ast.Await, ast.Yield, ast.YieldFrom)):
                return False
    return not any(d.kind not in {"assign", "param"} for d in rd.closure(rd.uses(arg)))


def _derives_through_helpers(tree: Tree, top: FuncInfo, rd: RD, arg: ast.AST, p: str, src: dict) -> bool | None:
    """The value comes out of a helper of the package (`phsp_factor=self._phsp()`): the call is replaced by the value
    it returns (sa/inline.py CallInliner) and the caller's own `p` is looked for in that expression.  True: it is
    there; False: the expression is built from literals / module-level names / other parameters only (definitely not
    the caller's value); None: still not readable."""
    from ..inline import CallInliner

    try:
        e = CallInliner(tree, top, rd).expr(arg)
    except Exception:  # noqa: BLE001 - an expression the inliner cannot rewrite stays undecided
        return None
    simple = True
    for n in ast.walk(e):
        if isinstance(n, ast.Name) and isinstance(n.ctx, ast.Load):
            origin = getattr(n, "_origin", n)
            defs = rd.reaching(origin) if origin is not n or hasattr(n, "_parent") else set()
            if n.id == p and src["param"] and (not defs or any(d.kind == "param" for d in defs)):
                return True
            if any(d.kind != "param" for d in defs):
                simple = False
        elif isinstance(n, ast.Attribute) and n.attr.lstrip("_") == p and isinstance(n.value, ast.Name):
            if (n.value.id == "self" and src["self_attr"]) or (n.value.id in src["param_attr"] and n.attr == p):
                return True
            simple = False
        elif isinstance(n, (ast.Call, ast.Attribute, ast.Subscript, ast.Starred, ast.Lambda, ast.Await, ast.Yield, ast.YieldFrom)):
            simple = False
    return False if simple else None


def check_forward(ctx: Check, tree: Tree) -> None:
    """R-FORWARD at keyword level.  Three-valued: a parameter that is definitely not handed on (every argument of the
    call is known and none binds it) or is bound to a value built without the caller's own value is a violation; a call
    whose arguments cannot all be read (an opaque ``**mapping`` / ``*args``, a functools.partial that leaves the
    function, a value that comes out of a call or an attribute this rule does not follow) cannot be decided."""
    classes = expression_classes(tree)
    n_triples = 0
    undecided: list[str] = []
    for q, fn in sorted(tree.funcs.items()):
        if not q.startswith(DYN_MODULES):
            continue
        avail = {p: available_sources(tree, fn, p, classes) for p in FORWARDED}
        avail = {p: s for p, s in avail.items() if s["param"] or s["self_attr"] or s["param_attr"]}
        if not avail:
            continue
        top = fn
        while top.outer is not None:
            top = top.outer
        rd_top = RD(top.node)
        for call, callee, supplied, complete in _call_sites(tree, fn, rd_top):
            sig = callee_signature(tree, callee, classes)
            if sig is None:
                continue
            for p, src in avail.items():
                if p not in sig:
                    continue
                n_triples += 1
                arg = next((a for a in (s_.get(sig, p) for s_ in reversed(supplied)) if a is not None), None)
                short = callee.split("::")[-1]
                key = f"{q}::call {short}::{p}"
                what = f"{q} -> {short}(... {p}=...)"
                if arg is None:
                    gaps = [g for s_ in supplied for g in s_.open] + ([] if complete else ["a functools.partial whose later arguments are not all visible"])
                    if gaps:
                        undecided.append(f"{what} at {tree.loc(call)}: `{p}` is not among the readable arguments and the call has {'; '.join(gaps)}")
                        continue
                    ctx.violation("R-FORWARD", key, tree.loc(call), f"{what}: `{p}` is accepted by the caller but not passed; the callee falls back to its default",
                                  {"caller_has": [k for k, v in src.items() if v], "callee_signature": sig})
                    continue
                ok = arg_derives(tree, fn, rd_top, arg, p, src)
                unrelated = _definitely_unrelated(rd_top, arg)
                if not ok and not unrelated:
                    through = _derives_through_helpers(tree, top, rd_top, arg, p, src)
                    ok, unrelated = through is True, through is False
                if not ok and not unrelated:
                    undecided.append(f"{what} at {tree.loc(call)}: whether `{unparse(arg)[:40]}` carries the caller's `{p}` cannot be read off (it comes out of a call / attribute / subscript)")
                    continue
                ctx.verdict(ok, "R-FORWARD", key, tree.loc(call), f"{what}: passes `{unparse(arg)[:40]}`",
                            None if ok else f"the value passed for `{p}` does not derive from the caller's own `{p}`")
        # accepted and never used
        for p, src in avail.items():
            if p in fn.params:
                used = any(isinstance(n, ast.Name) and n.id == p and isinstance(n.ctx, ast.Load) for n in walk_function(fn.node))
                if not used and not _is_abstract_or_stub(fn):
                    if fn.node.args.kwarg is not None and any(isinstance(n, ast.Name) and n.id in {"locals", "vars"} for n in walk_function(fn.node)):
                        undecided.append(f"{q}: `{p}` may be read through locals()")
                        continue
                    ctx.violation("R-FORWARD", f"{q}::unused::{p}", tree.loc(fn.node), f"{q} accepts `{p}` and never uses it")
    ctx.stats["forward_triples"] = n_triples
    if undecided:
        raise AnalysisError("R-FORWARD cannot decide: " + " | ".join(undecided[:4]) + (f" (+{len(undecided) - 4} more)" if len(undecided) > 4 else ""))
    if n_triples < 12:
        raise AnalysisError(f"only {n_triples} (caller, callee, parameter) triples found (29 on the pinned tree)")


def check_radius_reaches_barriers(ctx: Check, tree: Tree) -> None:
    """R-FORWARD at term level: inside EnergyDependentWidth (the width of every pole of the relativistic
    K-matrix and P-vector) EVERY barrier factor - FormFactor or BlattWeisskopfSquared, at s and at the
    pole - depends on the caller's meson radius and angular momentum.  A barrier factor built from a
    bare q^2 (radius 1 implied) is invisible to the keyword-level rule: it has no `meson_radius`
    parameter at all."""
    from ..poly import D, sym
    from ..terms import ExtractionError, Opaque, TermEval, deep_atoms

    D.reset()
    te = TermEval(tree)
    edw_q = "ampform.dynamics::EnergyDependentWidth"
    if edw_q not in te.classes:
        raise AnalysisError("vanished anchor: EnergyDependentWidth")
    s_, m0, g0, ma, mb, L, d = (sym(n) for n in ("s", "m0", "gamma0", "ma", "mb", "L", "d"))
    v = te.unfold_atom(te.single_atom(te.construct(edw_q, [s_, m0, g0, ma, mb, L, d], {"phsp_factor": Opaque(("ref", "PHSP"))})))
    d_atom, l_atom = next(iter(d.atoms())), next(iter(L.atoms()))
    barriers = []
    seen: set = set()

    def visit(x, depth=0):
        for a in deep_atoms(te, x):
            if not (isinstance(a, tuple) and a and a[0] == "app" and a in te.apps) or a in seen:
                continue
            seen.add(a)
            name = te.apps[a].cls.split("::")[-1]
            if name in {"FormFactor", "BlattWeisskopfSquared"}:
                barriers.append((name, a))
            if te.apps[a].cls in te.classes and name == "FormFactor" and depth < 3:
                try:
                    visit(te.unfold_atom(a), depth + 1)
                except ExtractionError:
                    pass

    visit(v)
    where = tree.loc(te.classes[edw_q].method("evaluate").node)
    if len(barriers) < 2:
        raise AnalysisError(f"EnergyDependentWidth.evaluate: {len(barriers)} barrier factors found (one at s and one at the pole expected)")
    from ..poly import RF

    bad = []
    for name, a in barriers:
        atoms = deep_atoms(te, RF.atom(a))
        missing = [n for n, at in (("meson_radius", d_atom), ("angular_momentum", l_atom)) if at not in atoms]
        if missing:
            first = te.apps[a].args[0]
            bad.append(f"{name}({'pole' if m0.atoms() <= deep_atoms(te, first) else 's'} ...) does not depend on {missing}")
    ctx.verdict(not bad, "R-FORWARD", f"{edw_q}.evaluate::radius-reaches-every-barrier-factor", where,
                f"EnergyDependentWidth: all {len(barriers)} barrier factors (at s and at the pole) depend on the caller's meson_radius and angular_momentum",
                bad or None)


def _is_abstract_or_stub(fn: FuncInfo) -> bool:
    body = [s for s in fn.node.body if not (isinstance(s, ast.Expr) and isinstance(s.value, ast.Constant))]
    return not body or any("abstractmethod" in unparse(d) or "overload" in unparse(d) for d in fn.node.decorator_list)


def accepted_f(rel: bool, return_hat: bool, rho_name: str = "rho") -> list[NC]:
    K, P, rho, one = NC.sym("K"), NC.sym("P"), NC.sym(rho_name), NC.eye()
    if not rel:
        return [(one - I * K).inv() * P]
    sq = nc_func("sqrt", rho)
    k_hat = nc_func("conj", sq).inv() * K * sq.inv()
    # rho = sqrt(rho)^2 is diagonal: K^ rho = conj(sq)^-1 K sq^-1 rho = conj(sq)^-1 K sq
    f_hat = [(one - I * k_hat * rho).inv() * P, (one - I * nc_func("conj", sq).inv() * K * sq).inv() * P]
    if return_hat:
        return f_hat
    return [sq * f for f in f_hat]


def check_f_vector(ctx: Check, tree: Tree, cls_name: str, rel: bool) -> None:
    """The F-vector for a generic number of channels (non-commutative normal form) is one of the accepted forms;
    a term that is not is refuted - or not - on explicit matrices (see c09.decide_matrix_formula).  Decided on the
    cached builder and on the public formulate(parametrize=False)."""
    from ..dense import spec_f
    from .c09 import decide_matrix_formula

    formulate = tree.func(f"{MOD}::{cls_name}.formulate")
    builder = tree.funcs.get(f"{MOD}::{cls_name}._create_matrices")
    flag = "return_f_hat"
    flags_list = [{flag: False}, {flag: True}] if flag in formulate.params else [{}]
    if "parametrize" not in formulate.params:
        raise AnalysisError(f"vanished anchor: {formulate.qual} has no parameter `parametrize`")
    if rel != (len(flags_list) == 2):
        raise AnalysisError(f"{formulate.qual}: parameter `{flag}` {'missing' if rel else 'unexpected'}")
    for flags in flags_list:
        hat = flags.get(flag, False)
        what = {
            (False, False): "F = (1 - iK)^-1 P",
            (True, True): "F^ = (1 - i K^ rho)^-1 P with K^ = conj(sqrt rho)^-1 K sqrt(rho)^-1",
            (True, False): "F = sqrt(rho) (1 - i K^ rho)^-1 P",
        }[(rel, hat)]
        accepted = lambda name, hat=hat: accepted_f(rel, hat, name)  # noqa: E731
        spec = lambda n, model, m, hat=hat: spec_f(rel, hat, n, model, m)  # noqa: E731
        if builder is not None and any(k not in builder.params for k in flags):
            ctx.info("R-TERM-NC", tree.loc(builder.node), f"{cls_name}._create_matrices has no parameter `{flag}`: what it returns is judged through formulate(parametrize=False)")
        elif builder is not None:
            res = decide_matrix_formula(ctx, tree, builder, dict(flags), f"{builder.qual}::{sorted(flags.items())}", f"{cls_name}._create_matrices{flags or ''}: {what}", accepted, spec)
            if len(res) == 3 and all(isinstance(x, NC) for x in res):
                ok2 = res[1] == NC.sym("K") and res[2] == NC.sym("P")
                ctx.verdict(ok2, "R-TERM-NC", f"{builder.qual}::returns-K-P::{sorted(flags.items())}", tree.loc(builder.node),
                            f"{cls_name}._create_matrices returns (F, K, P) with the symbol matrices that are parametrised",
                            None if ok2 else {"second": res[1].show(), "third": res[2].show()})
            else:
                ctx.info("R-TERM-NC", tree.loc(builder.node), f"{cls_name}._create_matrices does not return three matrices: which symbols are parametrised is judged on formulate() (R-WIRING)")
        else:
            ctx.info("R-TERM-NC", tree.loc(formulate.node), f"{cls_name} has no _create_matrices: the vector is read off formulate(parametrize=False)")
        decide_matrix_formula(ctx, tree, formulate, {**flags, "parametrize": False}, f"{formulate.qual}::unparametrized::{sorted(flags.items())}",
                              f"{cls_name}.formulate(parametrize=False{''.join(f', {k}={v}' for k, v in flags.items())}): {what}", accepted, spec)


def check_pvector_wiring(ctx: Check, tree: Tree) -> None:
    """formulate() of the production vectors, interpreted for two channels on explicit matrices (c09.FormulateRun):
    every K[i,j] the vector depends on is replaced by the K-matrix class's parametrization(i, j), every P[i] by the
    class's own parametrization(i), both with the same pole symbols and the caller's choices."""
    from ..dense import spec_f
    from .c09 import check_forwarded, formulate_run

    pairs = {"NonRelativisticPVector": ("NonRelativisticKMatrix", False), "RelativisticPVector": ("RelativisticKMatrix", True)}
    for pv, (km, rel) in pairs.items():
        run = formulate_run(tree, pv)
        fn, n = run.fn, run.N
        where = tree.loc(fn.node)
        diff = run.matrix_difference(lambda n_, model, m_: spec_f(rel, False, n_, model, m_))
        ctx.verdict(diff is None, "R-TERM-NC", f"{fn.qual}::parametrized", where,
                    f"{pv}.formulate(parametrize=True), two channels: the vector into which the parametrisations are substituted is the F-vector of the defining formula (no further algebra)",
                    None if diff is None else {"difference": diff})
        refs: dict[str, dict] = {}
        targets = [(f"K{a}{b}", f"K[{a}, {b}]", f"{MOD}::{km}.parametrization", {"i": a, "j": b}, f"{fn.qual}::K[i,j]->{km}.parametrization") for a in range(n) for b in range(n)]
        targets += [(f"P{a}0", f"P[{a}]", f"{MOD}::{pv}.parametrization", {"i": a}, f"{fn.qual}::P[i]->parametrization") for a in range(n)]
        for atom, text, want_q, want_idx, key in targets:
            idx_text = ", ".join(f"{k}={v}" for k, v in want_idx.items())
            what = f"{pv}.formulate: {text} -> {want_q.split('::')[-1]}({idx_text})"
            if atom not in run.subs:
                ctx.violation("R-WIRING", key, where, what, f"{text} is not substituted: it stays a free symbol of the result")
                continue
            call = run.param_call(run.subs[atom])
            if call is None:
                ctx.violation("R-WIRING", key, where, what, f"{text} is replaced by {run.subs[atom]!r:.160}, which is not a (bare) call of a parametrisation")
                continue
            qual, bound = call
            if qual != want_q:
                ctx.violation("R-WIRING", f"{fn.qual}::foreign-parametrization::{qual}", where,
                              f"{pv}.formulate substitutes {text} by {qual}: not the library's own K/P parametrisation for this class")
                continue
            got_idx = {k: bound.get(k) for k in want_idx}
            ok = got_idx == want_idx
            ctx.verdict(ok, "R-WIRING", key, where, what, None if ok else {"index": got_idx, "expected": want_idx})
            if ok:
                refs.setdefault(want_q, bound)
        kb, pb = refs.get(f"{MOD}::{km}.parametrization"), refs.get(f"{MOD}::{pv}.parametrization")
        if kb is None or pb is None:
            continue  # reported above
        # the same pole symbols feed K and P (so that the poles of P are the poles of K)
        m = run.model
        for name in ("s", "pole_position", "pole_width", "residue_constant", "pole_id", "n_poles", "m_a", "m_b", "angular_momentum", "meson_radius"):
            if name not in kb or name not in pb:
                continue
            same = m.key(kb[name]) == m.key(pb[name])
            ctx.verdict(same, "R-WIRING", f"{fn.qual}::shared::{name}", where,
                        f"{pv}.formulate: `{name}` of the P-vector is the `{name}` of the K-matrix",
                        None if same else {"K": str(m.key(kb[name]))[:200], "P": str(m.key(pb[name]))[:200]})
        check_forwarded(ctx, run, kb, f"{km}.parametrization")
        check_forwarded(ctx, run, pb, "parametrization")


def check_memo_advisory(ctx: Check, tree: Tree) -> None:
    for cls_name in ("NonRelativisticKMatrix", "RelativisticKMatrix", "NonRelativisticPVector", "RelativisticPVector"):
        fn = tree.funcs.get(f"{MOD}::{cls_name}._create_matrices")
        form = tree.funcs.get(f"{MOD}::{cls_name}.formulate")
        if fn is None or form is None:
            continue  # an advisory only: nothing to point at
        cached = any("cache" in unparse(d) for d in fn.node.decorator_list)
        hands_out = any(isinstance(n, ast.If) and "parametrize" in unparse(n.test) and any(isinstance(s, ast.Return) for s in n.body) for n in walk_function(form.node))
        if cached and hands_out:
            ctx.advisory("A-MEMO", tree.loc(fn.node), f"{cls_name}._create_matrices is memoised and formulate(parametrize=False) hands out the cached MutableDenseMatrix (see C06; not a clause of C10)")


def check_cached_matrices_not_mutated(ctx: Check, tree: Tree) -> None:
    """The symbolic matrices come out of functools.cache: formulate() must substitute into
    them (xreplace builds new objects) and never write into them, otherwise the k-th call
    for the same number of channels returns something else than the first."""
    from .c06 import AliasFlow, memoised_functions, mutable_result

    sources = {f.qual: f"memoised {f.qual}" for f in memoised_functions(tree) if f.qual.startswith(MOD + "::") and mutable_result(f)
               and (f.cls is None or f.cls.name in ('RelativisticPVector', 'NonRelativisticPVector'))}
    if not sources:
        raise AnalysisError("no memoised matrix builder found for RelativisticPVector/NonRelativisticPVector (two functools.cache'd _create_matrices confirmed): how the matrices are cached cannot be read off")
    flow = AliasFlow(tree, sources)
    flow.fixpoint()
    # a memoised builder may write into the matrix it is building - not into the result of ANOTHER memoised builder
    bad = [(fn, node, origin) for fn, node, origin in flow.mutations() if fn.qual not in sources or not origin.startswith(f"memoised {fn.qual}")]
    for fn, node, origin in bad:
        ctx.violation("R-CACHE", f"{fn.qual}::{unparse(node)[:60]}::mutates-cached-matrix", tree.loc(node),
                      f"{fn.qual}: `{unparse(node)[:60]}` writes into a matrix that aliases a memoised result ({origin.split(' -> ')[0]})",
                      "the cached matrix is shared by all later calls with the same n_channels: the second formulate() starts from the already modified matrix")
    if not bad:
        ctx.ok("R-CACHE", MOD.replace(".", "/"), f"the {len(sources)} memoised matrix builders' results are only read / substituted (xreplace), never written")


def check_no_rebuild(ctx: Check, tree: Tree) -> None:
    """R-REBUILD: an expression that may contain EnergyDependentWidth (or any class that keeps a
    phase-space factor / angular momentum / meson radius as a non-sympified argument) is never
    handed to a SymPy operation that reconstructs nodes from ``.args`` (together, cancel, factor,
    simplify, expand, cse, rewrite, ...): the reconstruction drops the argument and the class's
    default phase-space factor re-appears inside the widths."""
    from ..rules import carrier_classes, rebuild_sites

    carriers = carrier_classes(tree, FORWARDED)
    if not carriers:
        raise AnalysisError("no expression class keeps phsp_factor/angular_momentum/meson_radius as a non-sympified argument (EnergyDependentWidth.phsp_factor confirmed)")
    sites, stats = rebuild_sites(tree, ("ampform.",), carriers)
    ctx.stats["rebuild"] = stats
    bad = [s for s in sites if s["carrier_via"]]
    for s in bad:
        fn = s["fn"]
        ctx.violation("R-REBUILD", f"{fn.qual}::{s['name']}", tree.loc(s["node"]),
                      f"{fn.qual}: `{unparse(s['node'])[:60]}` reconstructs nodes from .args on an expression that may contain {sorted(c.split('::')[-1] for c in carriers)} (via {s['carrier_via']})",
                      f"the non-sympified argument(s) {sorted({n for v in carriers.values() for n in v})} are not part of .args: the rebuilt node carries the default, not the caller's choice")
    for s in sites:
        if not s["carrier_via"]:
            ctx.info("R-REBUILD", tree.loc(s["node"]), f"{s['fn'].qual}: `{unparse(s['node'])[:50]}` operates on an expression without such a class")
    if not bad:
        ctx.ok("R-REBUILD", "src/ampform/dynamics", f"none of the {len(sites)} SymPy node-reconstructing calls in the package receives an expression that may contain {sorted(c.split('::')[-1] for c in carriers)}")


def _summand(te, tree: Tree, cls_name: str, over: dict):
    from ..poly import sym

    fn = tree.func(f"{MOD}::{cls_name}.parametrization")
    args = [over.get(p, sym(p)) for p in fn.params]
    res = te.eval_function(fn, args)
    atom = te.single_atom(res) if isinstance(res, RF) else None
    info = te.apps.get(atom) if atom is not None else None
    if info is None or info.cls != "Sum":
        raise AnalysisError(f"{fn.qual}: does not return Sum(<summand>, (pole_id, 1, n_poles))")
    return fn, info.args[0], info.args[1]


def check_bw_reduction(ctx: Check, tree: Tree) -> None:
    """Clause (c): for one channel and one pole the K-matrix and the P-vector reduce to the
    library's own Breit-Wigner functions (the oracle is the library, as the property says).

    With the summands K, P of the parametrisations at i = j, gamma := 1 (K/gamma^2, P/gamma):
        K/(1 - iK)          == relativistic_breit_wigner(s, m_R, Gamma_R)                   (non-relativistic K)
        P/(1 - iK)          == beta_R * relativistic_breit_wigner(s, m_R, Gamma_R)          (non-relativistic P)
        P/(beta (1 - iK))   == relativistic_breit_wigner_with_ff(s, m_R, Gamma_R, m_a, m_b, L, d, phsp)   (relativistic)
    and for general i, j the K summand is gamma_Ri gamma_Rj sqrt(m_R W_i) sqrt(m_R W_j) / (m_R^2 - s)."""
    import ast as _ast

    from ..poly import equal, sym
    from ..terms import TermEval

    D.reset()
    te = TermEval(tree)
    one = RF.const(1)

    def ev(fn, text, env):
        return te.ev(_ast.parse(text, mode="eval").body, env, fn)

    fn_k, k_nr, lim = _summand(te, tree, "NonRelativisticKMatrix", {"j": sym("i")})
    env = {p: sym(p) for p in fn_k.params}
    g = ev(fn_k, "residue_constant[pole_id, i]", env)
    m = ev(fn_k, "pole_position[pole_id]", env)
    width = ev(fn_k, "pole_width[pole_id, i]", env)
    bw_fn = tree.func("ampform.dynamics::relativistic_breit_wigner")
    bwff_fn = tree.func("ampform.dynamics::relativistic_breit_wigner_with_ff")
    bw = te.eval_function(bw_fn, [sym("s"), m, width])
    k1 = k_nr / (g * g)
    ok = equal(k1 / (one - I * k1), bw)
    ctx.verdict(ok, "R-TERM", f"{fn_k.qual}::breit-wigner-reduction", tree.loc(fn_k.node),
                "one channel, one pole, gamma = 1: K/(1 - iK) == relativistic_breit_wigner(s, m_R, Gamma_R)", None if ok else {"K": repr(k_nr)[:300]})
    fn_p, p_nr, _ = _summand(te, tree, "NonRelativisticPVector", {})
    beta = ev(fn_p, "beta_constant[pole_id]", {p: sym(p) for p in fn_p.params})
    ok = equal((p_nr / g) / (one - I * k1), beta * bw)
    ctx.verdict(ok, "R-TERM", f"{fn_p.qual}::breit-wigner-reduction", tree.loc(fn_p.node),
                "one channel, one pole, gamma = 1: P/(1 - iK) == beta_R * relativistic_breit_wigner(s, m_R, Gamma_R)", None if ok else {"P": repr(p_nr)[:300]})
    fn_k2, k_r, _ = _summand(te, tree, "RelativisticKMatrix", {"j": sym("i")})
    env2 = {p: sym(p) for p in fn_k2.params}
    fn_p2, p_r, _ = _summand(te, tree, "RelativisticPVector", {})
    k2 = k_r / (g * g)
    bwff = te.eval_function(bwff_fn, [sym("s"), m, width, ev(fn_k2, "m_a[i]", env2), ev(fn_k2, "m_b[i]", env2), sym("angular_momentum"), sym("meson_radius"), sym("phsp_factor")])
    ok = equal((p_r / (g * beta)) / (one - I * k2), bwff)
    ctx.verdict(ok, "R-TERM", f"{fn_p2.qual}::breit-wigner-reduction", tree.loc(fn_p2.node),
                "one channel, one pole, gamma = beta = 1: P/(1 - iK) with the relativistic K == relativistic_breit_wigner_with_ff(s, m_R, Gamma_R, m_a, m_b, L, d, phsp_factor)",
                None if ok else {"P": repr(p_r)[:200], "K": repr(k_r)[:200]})
    # every parametrisation sums over the poles 1..n_poles
    from ..terms import Tup, vkey

    for cls_name in ("NonRelativisticKMatrix", "RelativisticKMatrix", "NonRelativisticPVector", "RelativisticPVector"):
        fn, _, limits = _summand(te, tree, cls_name, {})
        ok = vkey(limits) == vkey(Tup([sym("pole_id"), RF.const(1), sym("n_poles")]))
        ctx.verdict(ok, "R-TERM", f"{fn.qual}::pole-sum", tree.loc(fn.node), f"{cls_name}.parametrization sums over (pole_id, 1, n_poles)",
                    None if ok else repr(limits)[:120])
    # general i, j: the residue structure of the K-matrix
    # (the specification is built from values, not parsed from text: it does not depend on how the module imports SymPy)
    from ..poly import sqrt as rf_sqrt

    for cls_name in ("NonRelativisticKMatrix", "RelativisticKMatrix"):
        fn, got, limits = _summand(te, tree, cls_name, {})
        e = {p: sym(p) for p in fn.params}
        mass = ev(fn, "pole_position[pole_id]", e)

        def width(c: str, fn=fn, e=e, mass=mass, cls_name=cls_name):
            gamma = ev(fn, f"pole_width[pole_id, {c}]", e)
            if "Non" in cls_name:
                return gamma
            return te.construct("ampform.dynamics::EnergyDependentWidth", [], {
                "s": sym("s"), "mass0": mass, "gamma0": gamma, "m_a": ev(fn, f"m_a[{c}]", e), "m_b": ev(fn, f"m_b[{c}]", e),
                "angular_momentum": sym("angular_momentum"), "meson_radius": sym("meson_radius"), "phsp_factor": sym("phsp_factor")})

        want = (ev(fn, "residue_constant[pole_id, i]", e) * rf_sqrt(mass * width("i")) * ev(fn, "residue_constant[pole_id, j]", e) * rf_sqrt(mass * width("j"))) / (mass**2 - sym("s"))
        ok = equal(got, want)
        ctx.verdict(ok, "R-TERM", f"{fn.qual}::residue-structure", tree.loc(fn.node),
                    f"{cls_name}.parametrization summand == gamma_Ri gamma_Rj sqrt(m_R W_Ri) sqrt(m_R W_Rj) / (m_R^2 - s), W = {'Gamma_Ri' if 'Non' in cls_name else 'EnergyDependentWidth of channel i with the forwarded L, d, phsp_factor'}",
                    None if ok else {"got": repr(got)[:300]})


def run(ctx: Check, tree: Tree) -> None:
    ctx.decided += [
        "R-FORWARD (term level): every barrier factor inside EnergyDependentWidth depends on the caller's meson_radius and angular_momentum",
        "every (caller, callee, parameter) triple over {phsp_factor, angular_momentum, meson_radius} in ampform.dynamics forwards the caller's value (R-FORWARD): arguments are read through keywords, positions, `*tuple`, `**mapping` displays, local aliases of the callee, functools.partial and helper functions that return the value; a call whose arguments cannot all be read is undecided, never a violation",
        "F = (1-iK)^-1 P; F^ = (1 - i K^ rho)^-1 P with K^ = conj(sqrt rho)^-1 K sqrt(rho)^-1, F = sqrt(rho) F^ - the builders and formulate(parametrize=False) interpreted on non-commutative model matrices for a generic number of channels; a term outside the accepted forms is a violation only with a counter-model on explicit matrices (or if it inverts K itself) (R-TERM-NC)",
        "formulate(parametrize=True) interpreted for two channels on explicit matrices: every K[i,j] / P[i] the vector depends on is substituted by the library's own parametrisations with matching indices, shared pole symbols and the caller's choices; a second call returns the same vector (R-WIRING, R-FORWARD, R-CACHE)",
        "the rho_i placeholders of producer and consumers agree and carry no assumptions (R-SYMPAIR, R-PLACEHOLDER); the hashable content of an expression determines a class/function-valued phsp_factor, so SymPy's expression cache cannot hand out a node with another caller's factor (R-INJECTIVE)",
        "no expression that may contain a class with a non-sympified phsp_factor/angular_momentum/meson_radius is passed to a SymPy operation that rebuilds nodes from .args (R-REBUILD)",
    ]
    ctx.decided += ["one channel / one pole: K/(1-iK), P/(1-iK) reduce to the library's relativistic_breit_wigner[_with_ff] as rational-function identities at gamma = 1; residue structure of the K summands for general i, j (R-TERM)"]
    ctx.not_decided += ["numerical residual of (1-iK)F - P", "the relativistic T-matrix for one channel (|rho| factors: 'something of a Breit-Wigner' in the documentation, no exact claim)"]
    ctx.assumptions += [
        "a callee parameter with a default silently takes that default when not passed (Python call semantics)",
        "SymPy's together/cancel/factor/simplify/expand/cse/rewrite/... reconstruct visited nodes as node.func(*node.args) (table REBUILDERS in sa/rules.py)",
    ]
    D.reset()
    ctx.section(check_forward, ctx, tree)
    ctx.section(check_radius_reaches_barriers, ctx, tree)
    ctx.section(check_f_vector, ctx, tree, "NonRelativisticPVector", rel=False)
    ctx.section(check_f_vector, ctx, tree, "RelativisticPVector", rel=True)
    ctx.section(check_pvector_wiring, ctx, tree)
    ctx.section(check_memo_advisory, ctx, tree)
    ctx.section(check_cached_matrices_not_mutated, ctx, tree)
    ctx.section(check_no_rebuild, ctx, tree)
    ctx.section(check_bw_reduction, ctx, tree)
    from .c09 import check_rho_pairing
    from .c14 import check_content_injective

    ctx.section(check_rho_pairing, ctx, tree)  # "with the same rho": producer/consumer symbols agree, placeholders carry no assumptions
    hook = tree.funcs.get("ampform.sympy._decorator::_hashable_content_method")
    if hook is None:
        raise AnalysisError("vanished anchor: _hashable_content_method")
    ctx.section(check_content_injective, ctx, tree, hook)
