"""C20 - phase-space boundary functions classify three-body kinematics correctly.

The decided clauses are polynomial identities, so the static verdict is complete for
them: Kallen symmetric + factorised, third Mandelstam, Kibble polynomial, wiring of the
indicator.
"""

from __future__ import annotations

import itertools

from ..loader import AnalysisError, Tree
from ..poly import RF, D, equal, sym
from ..report import Check
from ..terms import PW, Opaque, Rel, TermEval

PID = "C20"
MOD = "ampform.kinematics.phasespace"


def lam(x, y, z):
    return x**2 + y**2 + z**2 - 2 * (x * y + y * z + z * x)


def run(ctx: Check, tree: Tree) -> None:
    ctx.decided += [
        "Kallen.evaluate is totally symmetric and equals (x-(u+v)^2)(x-(u-v)^2) at y=u^2, z=v^2 (R-TERM, polynomial identity)",
        "compute_third_mandelstam + sigma1 + sigma2 = m0^2+m1^2+m2^2+m3^2 (R-TERM)",
        "Kibble.evaluate, fully unfolded, equals lambda(lambda(s1,m1^2,m0^2), lambda(s2,m2^2,m0^2), lambda(s3,m3^2,m0^2)) (R-TERM)",
        "is_within_phasespace: Piecewise((1, Kibble(s1,s2,third(s1,s2,...),m0..m3) <= 0), (caller's outside_value, True)) (R-TERM wiring)",
    ]
    ctx.not_decided += [
        "that Kibble <= 0 characterises the region between the Dalitz-plot limits inside the bounding box (textbook mathematics, trusted)",
        "floating-point evaluation",
    ]
    D.reset()
    te = TermEval(tree)
    kallen = tree.cls(f"{MOD}::Kallen")
    kibble = tree.cls(f"{MOD}::Kibble")

    def K(*args):
        return te._rf(te.unfold_atom(te.single_atom(te.construct(kallen.qual, list(args), {}))))

    x, y, z, u, v = map(sym, "xyzuv")
    where = tree.loc(kallen.methods["evaluate"].node)
    base = K(x, y, z)
    perms = list(itertools.permutations([x, y, z]))
    sym_ok = all(equal(base, K(*p)) for p in perms)
    ctx.verdict(sym_ok, "R-TERM", f"{kallen.qual}.evaluate::symmetric", where, "Kallen(x,y,z) invariant under the 6 permutations of its arguments",
                None if sym_ok else {"term": repr(base)})
    fac_ok = equal(K(x, u**2, v**2), (x - (u + v) ** 2) * (x - (u - v) ** 2))
    ctx.verdict(fac_ok, "R-TERM", f"{kallen.qual}.evaluate::factorised", where, "Kallen(x,u^2,v^2) == (x-(u+v)^2)(x-(u-v)^2)",
                None if fac_ok else {"term": repr(K(x, u**2, v**2))})
    ref_ok = equal(base, lam(x, y, z))
    ctx.verdict(ref_ok, "R-TERM", f"{kallen.qual}.evaluate::definition", where, "Kallen(x,y,z) == x^2+y^2+z^2-2xy-2yz-2zx",
                None if ref_ok else {"term": repr(base)})

    s1, s2, s3 = sym("sigma1"), sym("sigma2"), sym("sigma3")
    m = [sym(f"m{i}") for i in range(4)]
    third_fn = tree.func(f"{MOD}::compute_third_mandelstam")
    third = te._rf(te.eval_function(third_fn, [s1, s2, *m]))
    total = m[0] ** 2 + m[1] ** 2 + m[2] ** 2 + m[3] ** 2
    t_ok = equal(third + s1 + s2, total)
    ctx.verdict(t_ok, "R-TERM", f"{third_fn.qual}::sum-rule", tree.loc(third_fn.node), "sigma1 + sigma2 + compute_third_mandelstam(...) == sum of squared masses",
                None if t_ok else {"term": repr(third)})

    kib_atom = te.single_atom(te.construct(kibble.qual, [s1, s2, s3, *m], {}))
    kib = te.unfold(RF.atom(kib_atom))
    ref = lam(lam(s1, m[1] ** 2, m[0] ** 2), lam(s2, m[2] ** 2, m[0] ** 2), lam(s3, m[3] ** 2, m[0] ** 2))
    k_ok = equal(kib, ref)
    n_mono = len(kib.normalized().n.t)
    ctx.stats["kibble_monomials"] = n_mono
    if n_mono < 50:
        raise AnalysisError(f"Kibble unfolds to only {n_mono} monomials: unfolding did not reach the Kallen level")
    ctx.verdict(k_ok, "R-TERM", f"{kibble.qual}.evaluate::reference", tree.loc(kibble.methods["evaluate"].node),
                f"Kibble(s1,s2,s3,m0..m3) unfolded ({n_mono} monomials) == lambda(lambda(s1,m1^2,m0^2),lambda(s2,m2^2,m0^2),lambda(s3,m3^2,m0^2))",
                None if k_ok else "sigma_i paired with a wrong mass or Kallen arguments inconsistent")

    # indicator
    fn = tree.func(f"{MOD}::is_within_phasespace")
    outside = sym("OUTSIDE")
    pw = te.eval_function(fn, [s1, s2, *m, outside])
    key = f"{fn.qual}::piecewise"
    where = tree.loc(fn.node)
    problems = []
    if not (isinstance(pw, PW) and len(pw.branches) == 2):
        problems.append("not a 2-branch Piecewise")
    else:
        (v1, c1), (v2, c2) = pw.branches
        if not (isinstance(v1, RF) and v1.is_const() and v1.const_value() == 1):
            problems.append(f"inside value is {v1!r}, not 1")
        if not (isinstance(c1, Rel)):
            problems.append("first condition is not a relation")
        else:
            # normalise to  lhs - rhs <= 0
            lhs = te._rf(c1.lhs) - te._rf(c1.rhs)
            op = c1.op
            if op in {">=", ">"}:
                lhs, op = -lhs, {">=": "<=", ">": "<"}[op]
            if op != "<=":
                problems.append(f"comparison `{c1.op}` is not the non-strict Kibble <= 0")
            atom = te.single_atom(lhs)
            if atom is None or not te.is_app(atom, "::Kibble"):
                problems.append("condition is not `Kibble(...) <= 0`")
            else:
                got = te.apps[atom].args
                want = [s1, s2, total - s1 - s2, *m]
                for name, g, w in zip(["sigma1", "sigma2", "sigma3", "m0", "m1", "m2", "m3"], got, want):
                    if not equal(te._rf(g), w):
                        problems.append(f"Kibble field {name} receives {g!r} instead of {w!r}")
        if not (isinstance(v2, RF) and equal(v2, outside)):
            problems.append(f"outside branch returns {v2!r}, not the caller's outside_value")
        if not (isinstance(c2, Opaque) and c2.key is True):
            problems.append("second condition is not `True`")
    ctx.verdict(not problems, "R-TERM", key, where,
                "is_within_phasespace == Piecewise((1, Kibble(s1,s2,sum m^2 - s1 - s2,m0,m1,m2,m3) <= 0), (outside_value, True))", problems or None)
