"""C20 - phase-space boundary functions classify three-body kinematics correctly.

The decided clauses are polynomial identities, so the static verdict is complete for
them: Kallen symmetric + factorised, third Mandelstam, Kibble polynomial, wiring of the
indicator.
"""

from __future__ import annotations

import itertools

from ..loader import AnalysisError, Tree, unparse
from ..poly import RF, D, equal, sym
from ..report import Check
from ..terms import PW, Logic, Opaque, Rel, TermEval

PID = "C20"
MOD = "ampform.kinematics.phasespace"


def lam(x, y, z):
    return x**2 + y**2 + z**2 - 2 * (x * y + y * z + z * x)


def demand_understood(te: TermEval, what: str, *values) -> None:
    """Before a term is reported as different from its reference: it must consist of symbols and radicals only.  A
    leftover application / attribute / item atom is something the evaluator did not read (an object of an unknown
    class, a callable it could not apply): then the verdict is `cannot decide`, not `wrong`."""
    from ..terms import deep_atoms

    for v in values:
        unread = [a for a in deep_atoms(te, v) if isinstance(a, tuple) and a and a[0] != "sqrt"]
        if unread:
            raise AnalysisError(f"{what} contains `{unread[0]!r:.80}`, which is not read as a symbol: the term cannot be compared with its reference")


def check_kallen_paths(ctx: Check, tree: Tree) -> None:
    """Every path of Kallen.evaluate returns the Kallen polynomial: a special case guarded by an
    equality of two arguments (equal masses, a vanishing argument) must return the polynomial
    restricted to that case."""
    from ..terms import Tup

    D.reset()
    te = TermEval(tree)
    te.fork = True
    kallen = tree.cls(f"{MOD}::Kallen")
    ev = kallen.methods["evaluate"]
    x, y, z = map(sym, "xyz")
    env = te.self_env(kallen.qual, te.apps[te.single_atom(te.construct(kallen.qual, [x, y, z], {}))])
    res = te.eval_body(ev.node.body, env, ev)
    if not isinstance(res, PW):
        return  # straight-line: judged by the rules below
    ref = lam(x, y, z)
    for val, cond in res.branches:
        conds = cond.items if isinstance(cond, Tup) else [cond]
        v, r = te._rf(val), ref
        label = []
        for c in conds:
            if isinstance(c, Rel) and c.op == "==":
                a, b = te._rf(c.lhs), te._rf(c.rhs)
                atom = te.single_atom(b) if isinstance(b, RF) else None
                if atom is not None:
                    v, r = v.substitute(atom, a), r.substitute(atom, a)
                    label.append(f"{a!r} == {b!r}")
                    continue
                atom = te.single_atom(a) if isinstance(a, RF) else None
                if atom is not None:
                    v, r = v.substitute(atom, b), r.substitute(atom, b)
                    label.append(f"{a!r} == {b!r}")
                    continue
                raise AnalysisError(f"Kallen.evaluate: path condition `{c!r}` is not an equality with a plain argument")
            elif isinstance(c, Opaque) and c.key and c.key[0] == "else-of":
                label.append("otherwise")
            else:
                raise AnalysisError(f"Kallen.evaluate: path condition `{c!r}` outside the grammar")
        ok = equal(v, r)
        if not ok:
            demand_understood(te, "Kallen.evaluate", v)
        name = " and ".join(label) or "always"
        ctx.verdict(ok, "R-TERM", f"{kallen.qual}.evaluate::path {name}", tree.loc(ev.node),
                    f"Kallen.evaluate on the path `{name}` returns x^2+y^2+z^2-2xy-2yz-2zx restricted to that case",
                    None if ok else {"returned": repr(v)[:200], "expected": repr(r)[:200]})


def check_unfolding_route(ctx: Check, tree: Tree) -> None:
    """R-SIMULSUBS / R-OWNDOIT: Kibble and Kallen are unfolded by the decorator's doit() = evaluate()
    on the instance's own arguments.  A hand-written doit() that inserts the arguments into a template
    must do so simultaneously: `template.subs({sigma1: a1, ..., m3: a7})` applies the pairs one after
    the other, and the arguments of a relabelled call (is_within_phasespace(s2, s3, m0, m2, m3, m1)) are
    themselves named like template symbols."""
    from ..rules import sequential_subs_sites

    sites = sequential_subs_sites(tree, (MOD,))
    bad = [s_ for s_ in sites if s_["arbitrary"]]
    for s_ in bad:
        fn = s_["fn"]
        ctx.violation("R-SIMULSUBS", f"{fn.qual}::sequential-subs", tree.loc(s_["node"]),
                      f"{fn.qual}: `{unparse(s_['node'])[:70]}` substitutes several symbols by arbitrary argument expressions one after the other",
                      "an argument that is (or contains) a symbol named like a later key is substituted again: Kibble(s2, s3, s1, m0, m2, m3, m1) collapses its masses; use xreplace / simultaneous=True / Dummy template symbols")
    if not bad:
        ctx.ok("R-SIMULSUBS", "src/ampform/kinematics/phasespace.py", f"{len(sites)} multi-pair subs() call(s) with arbitrary replacement values in the module: none")
    for name in ("Kibble", "Kallen"):
        cls = tree.cls(f"{MOD}::{name}")
        own = [m for m in ("doit", "_eval_evalf", "_eval_subs", "__new__") if m in cls.methods]
        if own:
            ctx.advisory("R-OWNDOIT", tree.loc(cls.methods[own[0]].node), f"{name} overrides {own}: its unfolding is no longer the decorator's evaluate()-based doit() (judged by R-SIMULSUBS only)")


def check_module_memos(ctx: Check, tree: Tree) -> None:
    """R-MEMOKEY (module-level memo): a function of the module that keeps results in a module-level dictionary
    (`M[K] = V`, read back with `M.get(K)` / `M[K]`) must have every parameter that the stored value V depends on in the
    key K - otherwise the first caller's argument sticks for all later calls with an equal key (the indicator has to
    return *the caller's* outside value)."""
    import ast

    from ..dataflow import RD
    from ..loader import walk_function

    mod = tree.module(MOD)
    module_dicts = {name for name, node in mod.toplevel.items()
                    if isinstance(node, (ast.Assign, ast.AnnAssign)) and getattr(node, "value", None) is not None
                    and (isinstance(node.value, ast.Dict) or (isinstance(node.value, ast.Call) and unparse(node.value.func).split(".")[-1] in {"dict", "defaultdict", "OrderedDict", "WeakValueDictionary"}))}
    n = 0
    for fn in tree.funcs_in(MOD):
        rd = None
        for node in walk_function(fn.node, nested=False):
            if not (isinstance(node, ast.Assign) and len(node.targets) == 1 and isinstance(node.targets[0], ast.Subscript)
                    and isinstance(node.targets[0].value, ast.Name) and node.targets[0].value.id in module_dicts):
                continue
            n += 1
            rd = rd or RD(fn.node)

            def params_of(e: ast.AST) -> set[str]:
                closure = rd.closure(rd.uses(e))
                return {d.name for d in closure if d.kind == "param"} | {x.id for x in ast.walk(e) if isinstance(x, ast.Name) and x.id in fn.params}

            key_params, value_params = params_of(node.targets[0].slice), params_of(node.value)
            missing = sorted(value_params - key_params - {"self", "cls"})
            memo = node.targets[0].value.id
            ctx.verdict(not missing, "R-MEMOKEY", f"{fn.qual}::memo {memo}::key-misses::{','.join(missing)}", tree.loc(node),
                        f"{fn.qual}: every parameter that the value stored in the module-level memo `{memo}` depends on is part of its key",
                        None if not missing else f"`{unparse(node)[:70]}`: the stored value depends on {missing}, the key `{unparse(node.targets[0].slice)[:50]}` does not - the first caller's {missing} is returned to every later caller with an equal key")
    if n == 0:
        ctx.info("R-MEMOKEY", MOD.replace(".", "/") + ".py", f"no function of the module stores into a module-level dictionary ({len(module_dicts)} module-level dictionaries; rule armed, positive example in the self-test catalogue)")


def run(ctx: Check, tree: Tree) -> None:
    ctx.decided += [
        "R-ARGORDER (shared with C14): Kibble/Kallen unpack self.args positionally; .args are in field-declaration order however the caller spells keyword arguments",
        "Kallen.evaluate is totally symmetric and equals (x-(u+v)^2)(x-(u-v)^2) at y=u^2, z=v^2 (R-TERM, polynomial identity)",
        "compute_third_mandelstam + sigma1 + sigma2 = m0^2+m1^2+m2^2+m3^2 (R-TERM)",
        "Kibble.evaluate, fully unfolded, equals lambda(lambda(s1,m1^2,m0^2), lambda(s2,m2^2,m0^2), lambda(s3,m3^2,m0^2)) (R-TERM)",
        "R-MEMOKEY: a module-level memo of kinematics/phasespace.py has every parameter that the stored value depends on in its key",
        "is_within_phasespace: Piecewise((1, Kibble(s1,s2,third(s1,s2,...),m0..m3) <= 0), (caller's outside_value, True)) (R-TERM wiring)",
    ]
    ctx.not_decided += [
        "that Kibble <= 0 characterises the region between the Dalitz-plot limits inside the bounding box (textbook mathematics, trusted)",
        "floating-point evaluation",
    ]
    ctx.section(check_unfolding_route, ctx, tree)
    ctx.section(check_module_memos, ctx, tree)
    D.reset()
    te = TermEval(tree)
    kallen = tree.cls(f"{MOD}::Kallen")
    kibble = tree.cls(f"{MOD}::Kibble")

    def K(*args):
        return te._rf(te.unfold_atom(te.single_atom(te.construct(kallen.qual, list(args), {}))))

    x, y, z, u, v = map(sym, "xyzuv")
    where = tree.loc(kallen.methods["evaluate"].node)
    check_kallen_paths(ctx, tree)
    try:
        base = K(x, y, z)
    except AnalysisError:
        if any(i.rule == "R-TERM" and i.verdict == "violation" and "Kallen" in i.key for i in ctx.instances):
            return  # the special-case path is already reported; the other rules need the straight-line form
        raise
    demand_understood(te, "Kallen.evaluate", base)
    perms = list(itertools.permutations([x, y, z]))
    sym_ok = all(equal(base, K(*p)) for p in perms)
    ctx.verdict(sym_ok, "R-TERM", f"{kallen.qual}.evaluate::symmetric", where, "Kallen(x,y,z) invariant under the 6 permutations of its arguments",
                None if sym_ok else {"term": repr(base)})
    fac_ok = equal(K(x, u**2, v**2), (x - (u + v) ** 2) * (x - (u - v) ** 2))
    ctx.verdict(fac_ok, "R-TERM", f"{kallen.qual}.evaluate::factorised", where, "Kallen(x,u^2,v^2) == (x-(u+v)^2)(x-(u-v)^2)",
                None if fac_ok else {"term": repr(K(x, u**2, v**2))})
    ref_ok = equal(base, lam(x, y, z))
    ctx.verdict(ref_ok, "R-TERM", f"{kallen.qual}.evaluate::definition", where, "Kallen(x,y,z) == x^2+y^2+z^2-2xy-2yz-2zx",
                None if ref_ok else {"term": repr(base)})

    s1, s2, s3 = sym("sigma1"), sym("sigma2"), sym("sigma3")
    m = [sym(f"m{i}") for i in range(4)]
    third_fn = tree.func(f"{MOD}::compute_third_mandelstam")
    third = te._rf(te.eval_function(third_fn, [s1, s2, *m]))
    total = m[0] ** 2 + m[1] ** 2 + m[2] ** 2 + m[3] ** 2
    t_ok = equal(third + s1 + s2, total)
    if not t_ok:
        demand_understood(te, "compute_third_mandelstam", third)
    ctx.verdict(t_ok, "R-TERM", f"{third_fn.qual}::sum-rule", tree.loc(third_fn.node), "sigma1 + sigma2 + compute_third_mandelstam(...) == sum of squared masses",
                None if t_ok else {"term": repr(third)})

    kib_atom = te.single_atom(te.construct(kibble.qual, [s1, s2, s3, *m], {}))
    kib = te.unfold(RF.atom(kib_atom))
    ref = lam(lam(s1, m[1] ** 2, m[0] ** 2), lam(s2, m[2] ** 2, m[0] ** 2), lam(s3, m[3] ** 2, m[0] ** 2))
    k_ok = equal(kib, ref)
    if not k_ok:
        demand_understood(te, "Kibble.evaluate (unfolded)", kib)
    n_mono = len(kib.normalized().n.t)
    ctx.stats["kibble_monomials"] = n_mono
    if n_mono < 50:
        raise AnalysisError(f"Kibble unfolds to only {n_mono} monomials: unfolding did not reach the Kallen level")
    ctx.verdict(k_ok, "R-TERM", f"{kibble.qual}.evaluate::reference", tree.loc(kibble.methods["evaluate"].node),
                f"Kibble(s1,s2,s3,m0..m3) unfolded ({n_mono} monomials) == lambda(lambda(s1,m1^2,m0^2),lambda(s2,m2^2,m0^2),lambda(s3,m3^2,m0^2))",
                None if k_ok else "sigma_i paired with a wrong mass or Kallen arguments inconsistent")

    # indicator
    fn = tree.func(f"{MOD}::is_within_phasespace")
    outside = sym("OUTSIDE")
    pw = te.eval_function(fn, [s1, s2, *m, outside])
    key = f"{fn.qual}::piecewise"
    where = tree.loc(fn.node)
    problems = []
    if not isinstance(pw, PW):
        raise AnalysisError(f"{fn.qual}: the returned value is not read as a Piecewise ({pw!r:.80}): the indicator cannot be judged")
    # The Piecewise is judged by what it returns in the three regions Kibble < 0, Kibble == 0, Kibble > 0 (and where
    # every comparison is False: NaN), whatever the number, order and spelling of its branches.
    kibble_atoms: dict = {}

    def truth(cond):
        """The truth value of a branch condition as a function of sign(Kibble): {-1, 0, 1} -> bool, NaN -> bool."""
        if isinstance(cond, Opaque) and isinstance(cond.key, bool):
            return {-1: cond.key, 0: cond.key, 1: cond.key, "nan": cond.key}
        if isinstance(cond, Logic):
            parts = [truth(a) for a in cond.args]
            fold = {"not": lambda vs: not vs[0], "and": all, "or": any}[cond.op]
            return {region: fold([p[region] for p in parts]) for region in (-1, 0, 1, "nan")}
        if isinstance(cond, Rel) and cond.op in {"<=", "<", ">=", ">", "==", "!="}:
            lhs = te._rf(cond.lhs) - te._rf(cond.rhs)
            for sign, side in ((1, lhs), (-1, -lhs)):
                atom = te.single_atom(side)
                if atom is not None and te.is_app(atom, "::Kibble"):
                    kibble_atoms[atom] = True
                    table = {"<=": (True, True, False), "<": (True, False, False), ">=": (False, True, True), ">": (False, False, True),
                             "==": (False, True, False), "!=": (True, False, True)}[cond.op]
                    neg, zero, pos = table if sign > 0 else (table[2], table[1], table[0])
                    return {-1: neg, 0: zero, 1: pos, "nan": cond.op == "!="}
            # Kibble compared with a non-zero number: the boundary of the indicator is moved off the Dalitz-plot limits
            for sign, side in ((1, lhs), (-1, -lhs)):
                r = side.normalized()
                if r.d.is_const() and r.d.const_value() == 1 and len(r.n.t) == 2 and () in r.n.t:
                    ((m, c),) = [(m, c) for m, c in r.n.t.items() if m != ()]
                    if c == 1 and len(m) == 1 and m[0][1] == 1 and te.is_app(m[0][0], "::Kibble"):
                        kibble_atoms[m[0][0]] = True
                        problems.append(f"{fn.qual}: branch condition `{cond!r:.80}` compares Kibble(...) with the non-zero number {-r.n.t[()] if sign > 0 else r.n.t[()]} - "
                                        "the indicator changes value at Kibble = that number, not at the Dalitz-plot limits (Kibble = 0), for every mass scale")
                        return {-1: True, 0: True, 1: True, "nan": True}
        verdict = threshold(cond)
        if verdict is not None and verdict[0] == "wrong":
            problems.append(verdict[1])
            return {-1: True, 0: True, 1: True, "nan": True}  # judged on its own (reported); neutral for the sign table
        if verdict is not None:
            # correct as a threshold; judged after every other condition was read (a wrong one elsewhere is still reported)
            valid_thresholds.append(f"{fn.qual}: branch condition `{cond!r:.80}` is a decay threshold of {verdict[1]}: it only differs from `Kibble <= 0` in the crossed-channel regions, which the sign table of this rule does not describe - the indicator cannot be judged")
            return {-1: True, 0: True, 1: True, "nan": True}
        raise AnalysisError(f"{fn.qual}: branch condition `{cond!r:.80}` is not a comparison of `Kibble(...)` with 0 (nor True): the indicator cannot be judged")

    def threshold(cond):
        """A bound on one Mandelstam variable: sigma_k >= (m_i + m_j)^2 is the lower decay threshold iff {i, j, k} = {1, 2, 3};
        sigma_k <= (m0 - m_c)^2 the upper one iff c = k (sigma_k is the squared mass of the pair that does NOT contain k).
        ("right" | "wrong", text) or None if the relation is not of that form."""
        if not (isinstance(cond, Rel) and cond.op in {"<=", "<", ">=", ">"}):
            return None
        d = te._rf(cond.lhs) - te._rf(cond.rhs)
        sigmas = {1: s1, 2: s2, 3: total - s1 - s2}
        for k, sig in sigmas.items():
            for direction, dd in ((cond.op, d), ({"<=": ">=", "<": ">", ">=": "<=", ">": "<"}[cond.op], -d)):
                if direction in {">=", ">"}:
                    for i, j in ((1, 2), (2, 3), (1, 3)):
                        if equal(dd, sig - (m[i] + m[j]) ** 2):
                            if {i, j, k} == {1, 2, 3}:
                                return "right", f"sigma{k} (pair {i}{j})"
                            return "wrong", f"the lower bound of sigma{k} is (m{i} + m{j})^2, but sigma{k} is the squared mass of the pair {''.join(str(x) for x in sorted({1, 2, 3} - {k}))}: physical events near the true threshold are classified outside"
                else:
                    for c in (1, 2, 3):
                        if equal(dd, sig - (m[0] - m[c]) ** 2):
                            if c == k:
                                return "right", f"sigma{k} (spectator {c})"
                            return "wrong", f"the upper bound of sigma{k} is (m0 - m{c})^2, but the spectator of the pair with squared mass sigma{k} is particle {k}: physical events are classified outside"
        return None

    valid_thresholds: list[str] = []
    tables = [(val, truth(cond)) for val, cond in pw.branches]
    if valid_thresholds and not problems:
        raise AnalysisError(valid_thresholds[0])

    def value_at(region):
        for val, table in tables:
            if table[region]:
                return val
        return None  # no branch applies: SymPy evaluates the Piecewise to nan there

    def is_one(v):
        return isinstance(v, RF) and v.is_const() and v.const_value() == 1

    if not kibble_atoms:
        problems.append("no branch condition compares `Kibble(...)` with 0")
    for atom in kibble_atoms:
        got = te.apps[atom].args
        want = [s1, s2, total - s1 - s2, *m]
        for name, g, w in zip(["sigma1", "sigma2", "sigma3", "m0", "m1", "m2", "m3"], got, want):
            if not equal(te._rf(g), w):
                demand_understood(te, f"{fn.qual}: the value of Kibble field {name}", te._rf(g))
                problems.append(f"Kibble field {name} receives {g!r} instead of {w!r}")
    below, boundary, above, at_nan = (value_at(r) for r in (-1, 0, 1, "nan"))
    if not is_one(below):
        problems.append(f"inside value is {below!r}, not 1 (where Kibble < 0)")
    if not is_one(boundary):
        problems.append(f"on the boundary Kibble == 0 the indicator is {boundary!r}, not 1: the boundary (collinear momenta) is physical and must be inside - accepted are `Kibble <= 0 -> 1` or `Kibble > 0 -> outside`")
    if not (isinstance(above, RF) and equal(above, outside)):
        problems.append(f"outside branch returns {above!r}, not the caller's outside_value (where Kibble > 0)")
    default_is_outside = not is_one(at_nan)
    ctx.verdict(not problems, "R-TERM", key, where,
                "is_within_phasespace == 1 where Kibble(s1,s2,sum m^2 - s1 - s2,m0,m1,m2,m3) <= 0, the caller's outside_value elsewhere (either Piecewise layout)", problems or None)
    # R-NAN: a comparison with NaN is False, so NaN falls into the otherwise-branch.  Either Kibble is
    # NaN-free on real input (polynomial: no radical, no division), or the otherwise-branch is `outside`.
    from ..terms import deep_atoms

    atoms = deep_atoms(te, kib)
    radicals = sorted({str(a[0]) for a in atoms if isinstance(a, tuple) and a and a[0] in {"sqrt", "pow", "ComplexSqrt", "log", "acos", "atan"}})
    has_division = not kib.normalized().d.is_const()
    nan_free = not radicals and not has_division
    ok = nan_free or default_is_outside is True
    ctx.verdict(ok, "R-NAN", f"{fn.qual}::nan-classified-outside", where,
                "points where Kibble cannot be evaluated are not classified as inside: " + ("Kibble is a polynomial in its arguments (no radicals, no division)" if nan_free else "the otherwise-branch of the indicator is the outside value"),
                None if ok else f"Kibble contains {radicals or 'a division'} (NaN for negative Kallen values in the corners of the bounding box) and NaN falls into the otherwise-branch, which returns 1")
    from .c14 import check_arg_order

    ctx.section(check_arg_order, ctx, tree)
