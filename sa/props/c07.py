"""C07 - kinematic variables mean what their names say, in every topology.

R-PROV     every producer that feeds HelicityAdapter.create_expressions stores values whose
           provenance is the state that names them (hence one name = one quantity, and the
           last-writer-wins merge over a set of topologies is harmless).
R-TERM     definitions of InvariantMass / Phi / Theta / Energy / FourMomentumX,Y,Z /
           ThreeMomentum / EuclideanNorm[Squared]; naming of mass symbols.
"""

from __future__ import annotations

import ast

from ..loader import AnalysisError, Tree, ancestors, unparse, walk_function
from ..poly import RF, D, equal, sqrt, sym
from ..report import Check
from ..terms import TermEval
from .c04 import check_frame, check_prov, recursion_worker

PID = "C07"
ADAPTER = "ampform.kinematics::HelicityAdapter.create_expressions"
LOR = "ampform.kinematics.lorentz"
ANG = "ampform.kinematics.angles"
SLICES = {"Energy": "0", "FourMomentumX": "1", "FourMomentumY": "2", "FourMomentumZ": "3", "ThreeMomentum": "slice(1, None)"}


def _merged_calls(tree: Tree, fn, rd, expr: ast.AST, seen: set) -> list[ast.Call]:
    """Calls of package functions whose RESULT flows into the mapping ``expr`` as a whole: through local
    names (every reaching definition), ``M.update(x)`` / ``M |= x``, ``{**a, **b}``, ``a | b``, ``dict(x)``,
    ``x.copy()`` and conditional expressions.  (Single entries ``M[k] = v`` are stores, not merges.)"""
    out: list[ast.Call] = []
    if isinstance(expr, ast.Name):
        for d in rd.reaching(expr):
            if id(d) in seen:
                continue
            seen.add(id(d))
            if d.kind == "assign" and isinstance(d.value, ast.AST) and d.index is None:
                out += _merged_calls(tree, fn, rd, d.value, seen)
            elif d.kind in {"store", "aug"}:
                # a weak update of the mapping: what was merged before it stays merged
                out += _merged_calls_of_update(tree, fn, rd, d, seen)
            elif d.kind in {"for", "comp"} and d.index is None and isinstance(getattr(d.node, "iter", None), (ast.Tuple, ast.List)):
                # `for part in (f(..), g(..)): M.update(part)`: each element of the literal sequence in turn
                for elt in d.node.iter.elts:
                    out += _merged_calls(tree, fn, rd, elt, seen)
        return out
    if isinstance(expr, ast.Call):
        callee = tree.callee(expr, fn)
        if callee and callee in tree.funcs:
            return [expr]
        if _callees_of_loop_variable(tree, fn, rd, expr):
            return [expr]  # `for producer in (f, g): M.update(producer(...))`
        f = expr.func
        if isinstance(f, ast.Name) and f.id in {"dict", "OrderedDict"} and len(expr.args) == 1:
            return _merged_calls(tree, fn, rd, expr.args[0], seen)
        if isinstance(f, ast.Attribute) and f.attr == "copy" and not expr.args:
            return _merged_calls(tree, fn, rd, f.value, seen)
        return out
    if isinstance(expr, ast.Dict):
        for k, v in zip(expr.keys, expr.values):
            if k is None:
                out += _merged_calls(tree, fn, rd, v, seen)
        return out
    if isinstance(expr, ast.BinOp) and isinstance(expr.op, ast.BitOr):
        return _merged_calls(tree, fn, rd, expr.left, seen) + _merged_calls(tree, fn, rd, expr.right, seen)
    if isinstance(expr, ast.IfExp):
        return _merged_calls(tree, fn, rd, expr.body, seen) + _merged_calls(tree, fn, rd, expr.orelse, seen)
    return out


def _callees_of_loop_variable(tree: Tree, fn, rd, call: ast.Call) -> list[str]:
    """The package functions a call `f(...)` may reach when `f` is the variable of a loop / comprehension over a literal
    tuple or list of functions."""
    f = call.func
    if not isinstance(f, ast.Name):
        return []
    out: list[str] = []
    defs = rd.reaching(f)
    if not defs:
        return []
    for d in defs:
        it = d.node.iter if d.kind in {"for", "comp"} and hasattr(d.node, "iter") else None
        if it is None or d.index is not None or not isinstance(it, (ast.Tuple, ast.List)):
            return []
        for elt in it.elts:
            q = tree.resolve(fn.module, elt, fn)
            if q is None or q not in tree.funcs:
                return []
            out.append(q)
    return out


def _callees(tree: Tree, fn, rd, call: ast.Call) -> list[str]:
    q = tree.callee(call, fn)
    if q and q in tree.funcs:
        return [q]
    return _callees_of_loop_variable(tree, fn, rd, call)


def _merged_calls_of_update(tree: Tree, fn, rd, d, seen: set) -> list[ast.Call]:
    """What one weak update (`M.update(x)`, `M |= x`) merges into M (plus, transitively, the older updates)."""
    out: list[ast.Call] = []
    node = d.value if d.kind == "store" else d.node
    if isinstance(node, ast.Call) and isinstance(node.func, ast.Attribute) and node.func.attr == "update":
        for a in node.args:
            out += _merged_calls(tree, fn, rd, a, seen)
    elif isinstance(node, ast.AugAssign) and isinstance(node.op, ast.BitOr):
        out += _merged_calls(tree, fn, rd, node.value, seen)
    for older in d.deps:
        if older.name == d.name and id(older) not in seen:
            seen.add(id(older))
            if older.kind == "assign" and isinstance(older.value, ast.AST) and older.index is None:
                out += _merged_calls(tree, fn, rd, older.value, seen)
            elif older.kind in {"store", "aug"}:
                out += _merged_calls_of_update(tree, fn, rd, older, seen)
    return out


def producers_of_adapter(ctx: Check, tree: Tree) -> list[str]:
    """The functions whose returned mapping ends up (as a whole) in the mapping returned by
    HelicityAdapter.create_expressions - directly or through helpers that only forward / merge the
    mappings of others (the data flow is followed into every package function on the way)."""
    from ..dataflow import RD

    out: list[str] = []
    work = [ADAPTER]
    visited: set[str] = set()
    while work:
        q = work.pop(0)
        if q in visited:
            continue
        visited.add(q)
        fn = tree.func(q)
        rd = RD(fn.node)
        # what flows into the returned mapping, and (the mapping may be parked in an attribute first) what
        # any `M.update(x)` / `M |= x` of the function merges
        roots = [ret.value for ret, _ in rd.returns if ret.value is not None]
        for node in walk_function(fn.node, nested=False):
            if isinstance(node, ast.Call) and isinstance(node.func, ast.Attribute) and node.func.attr == "update":
                roots += node.args
            elif isinstance(node, ast.AugAssign) and isinstance(node.op, ast.BitOr):
                roots.append(node.value)
        calls = {id(c): c for r in roots for c in _merged_calls(tree, fn, rd, r, set())}
        for call in sorted(calls.values(), key=lambda c: (c.lineno, c.col_offset)):
            for callee in _callees(tree, fn, rd, call):
                if callee not in out:
                    out.append(callee)
                work.append(callee)
    # a nested function of a producer is analysed together with it (check_prov)
    out = [q for q in out if not any(q.startswith(o + ".") for o in out)]
    fn = tree.func(ADAPTER)
    if len(out) < 2:
        raise AnalysisError(f"{ADAPTER}: expected >= 2 producers merged into the returned mapping, found {out}")
    # the merge loop iterates the registered topologies (a set): record the sink
    loops = [n for n in walk_function(fn.node) if isinstance(n, ast.For)]
    ctx.info("R-PROV", tree.loc(loops[0]) if loops else tree.loc(fn.node),
             f"create_expressions merges {[p.split('::')[-1] for p in out]} of all registered topologies with dict.update (last writer wins): safe iff equal names carry equal quantities")
    return out


def _slice_triple(v):
    """(start, stop, step) of a ``slice(...)`` value with the defaults made explicit, or None."""
    from ..symex import is_const

    if not (isinstance(v, tuple) and v and v[0] == "call" and v[1] == ("builtin", "slice") and not v[3] and 1 <= len(v[2]) <= 3):
        return None
    if not all(is_const(a) and (a[1] is None or (isinstance(a[1], int) and not isinstance(a[1], bool))) for a in v[2]):
        return None
    vals = [a[1] for a in v[2]]
    start, stop, step = (None, vals[0], None) if len(vals) == 1 else (vals + [None])[:3]
    return (start or 0, stop, 1 if step is None else step)


def _field_of_self(v, fn, field: str) -> bool:
    """``self.<field>`` or ``self.args[0]`` (the one field of these expression classes)."""
    me = ("param", fn.params[0]) if fn.params else None
    return v == ("attr", me, field) or v == ("sub", ("attr", me, "args"), ("const", 0))


def check_slices(ctx: Check, tree: Tree) -> None:
    """Energy / FourMomentumX,Y,Z / ThreeMomentum(p) == ArraySlice(p, (all events, component)): ``evaluate`` is run
    symbolically; the component is read from the VALUE of the index pair (temporaries, keyword arguments, another
    spelling of the same slice do not matter)."""
    from ..symex import alternatives, is_const
    from .c04 import Unreadable, _is_call, _pos_args, _show, helper_value

    want_index = {"0": 0, "1": 1, "2": 2, "3": 3, "slice(1, None)": (1, None, 1)}
    for cls_name, want in SLICES.items():
        cls = tree.cls(f"{LOR}::{cls_name}")
        ev = cls.methods.get("evaluate")
        if ev is None:
            raise AnalysisError(f"vanished anchor: {cls_name}.evaluate")
        _, value = helper_value(tree, ev.qual)
        alts = alternatives(value)
        if len(alts) != 1:
            raise AnalysisError(f"{ev.qual}: the value depends on conditions: `{_show(value)}`")
        val = alts[0][1]
        if not _is_call(val, "ArraySlice"):
            raise AnalysisError(f"{ev.qual}: returns `{_show(val)}`, not an ArraySlice(...): cannot read the component")
        try:
            base, idx = _pos_args(val, ("parent", "indices"))[:2]
        except (Unreadable, ValueError) as exc:
            raise AnalysisError(f"{ev.qual}: cannot read the arguments of `{_show(val)}`") from exc
        if not _field_of_self(base, ev, "momentum"):
            raise AnalysisError(f"{ev.qual}: slices `{_show(base)}`, which is not the momentum the expression was built from")
        if idx[0] != "tuple" or len(idx[1]) != 2:
            raise AnalysisError(f"{ev.qual}: the index `{_show(idx)}` is not a pair (events, component)")
        events, comp = idx[1]
        problems = []
        if _slice_triple(events) != (0, None, 1):
            if _slice_triple(events) is None and not is_const(events, int):
                raise AnalysisError(f"{ev.qual}: cannot read the event index `{_show(events)}`")
            problems.append(f"the event axis is indexed with `{_show(events)}`, not with all events")
        got = comp[1] if is_const(comp, int) else _slice_triple(comp)
        if got is None:
            raise AnalysisError(f"{ev.qual}: cannot read the component index `{_show(comp)}`")
        if got != want_index[want]:
            problems.append(f"component {got}, not {want}")
        ctx.verdict(not problems, "R-TERM", f"{cls.qual}.evaluate::component", tree.loc(ev.node),
                    f"{cls_name}(p) == p[:, {want}]", None if not problems else f"evaluate returns {_show(val)}: {'; '.join(problems)}")


def check_definitions(ctx: Check, tree: Tree) -> None:
    D.reset()
    te = TermEval(tree)
    p = sym("p")

    def C(name, *args, mod=LOR):
        return te.construct(f"{mod}::{name}", list(args), {})

    def known(got, what):
        """P1: a definition that does not evaluate to a term cannot be compared - that is "cannot decide", not "wrong"."""
        if not isinstance(got, RF):
            raise AnalysisError(f"{what}: evaluate() does not reduce to a term the rule can compare ({repr(got)[:120]})")
        return got

    def unfolded(name, mod=LOR):
        return known(te.unfold_atom(te.single_atom(C(name, p, mod=mod))), f"{name}.evaluate")

    norm = C("EuclideanNorm", C("ThreeMomentum", p))
    # InvariantMass
    got = unfolded("InvariantMass")
    want = te.app("ComplexSqrt", [C("Energy", p) ** 2 - norm**2])
    ok = isinstance(got, RF) and equal(got, want)
    cls = tree.cls(f"{LOR}::InvariantMass")
    ctx.verdict(ok, "R-TERM", f"{cls.qual}.evaluate", tree.loc(cls.node), "InvariantMass(p) == ComplexSqrt(Energy(p)^2 - |ThreeMomentum(p)|^2)",
                None if ok else repr(got)[:200])
    # EuclideanNorm / Squared
    v = sym("v")
    got = known(te.unfold_atom(te.single_atom(C("EuclideanNorm", v))), "EuclideanNorm.evaluate")
    ok = isinstance(got, RF) and equal(got, sqrt(C("EuclideanNormSquared", v)))
    cls = tree.cls(f"{LOR}::EuclideanNorm")
    ctx.verdict(ok, "R-TERM", f"{cls.qual}.evaluate", tree.loc(cls.node), "EuclideanNorm(v) == sqrt(EuclideanNormSquared(v))")
    cls = tree.cls(f"{LOR}::EuclideanNormSquared")
    ev = cls.methods["evaluate"]
    from ..symex import alternatives, as_number
    from .c04 import Unreadable, _is_call, _pos_args, _show, helper_value

    _, value = helper_value(tree, ev.qual)
    alts = alternatives(value)
    if len(alts) != 1 or not _is_call(alts[0][1], "ArrayAxisSum"):
        raise AnalysisError(f"{ev.qual}: returns `{_show(value)}`, not one ArrayAxisSum(...)")
    try:
        args = _pos_args(alts[0][1], ("array", "axis"))
    except Unreadable as exc:
        raise AnalysisError(f"{ev.qual}: {exc}") from exc
    if len(args) != 2:
        raise AnalysisError(f"{ev.qual}: `{_show(alts[0][1])}` without an explicit axis")
    arr, axis = args
    squared = arr[2] if arr[0] == "binop" and arr[1] == "**" and as_number(arr[3]) == 2 else (arr[1][0] if arr[0] == "mul" and len(arr[1]) == 2 and arr[1][0] == arr[1][1] else None)
    if squared is None or as_number(axis) is None:
        raise AnalysisError(f"{ev.qual}: cannot read `{_show(alts[0][1])}` as a sum of squares over an axis")
    problems = []
    if not _field_of_self(squared, ev, "vector"):
        problems.append(f"squares `{_show(squared)}`, not the vector")
    if as_number(axis) != 1:
        problems.append(f"sums over axis {as_number(axis)}, not over the components (axis 1)")
    ctx.verdict(not problems, "R-TERM", f"{cls.qual}.evaluate", tree.loc(ev.node), "EuclideanNormSquared(v) == sum(v**2, axis=1)", problems or None)
    # Phi / Theta
    got = unfolded("Phi", mod=ANG)
    want = te.app("atan2", [C("FourMomentumY", p), C("FourMomentumX", p)])
    ok = isinstance(got, RF) and equal(got, want)
    cls = tree.cls(f"{ANG}::Phi")
    ctx.verdict(ok, "R-TERM", f"{cls.qual}.evaluate", tree.loc(cls.node), "Phi(p) == atan2(p_y, p_x)", None if ok else repr(got)[:200])
    got = unfolded("Theta", mod=ANG)
    want = te.app("acos", [C("FourMomentumZ", p) / norm])
    ok = isinstance(got, RF) and equal(got, want)
    cls = tree.cls(f"{ANG}::Theta")
    ctx.verdict(ok, "R-TERM", f"{cls.qual}.evaluate", tree.loc(cls.node), "Theta(p) == acos(p_z / |ThreeMomentum(p)|)", None if ok else repr(got)[:200])


def _merge_literals(parts: list[tuple]) -> list[tuple]:
    out: list[tuple] = []
    for p in parts:
        if p[0] == "lit" and out and out[-1][0] == "lit":
            out[-1] = ("lit", out[-1][1] + p[1])
        elif p != ("lit", ""):
            out.append(p)
    return out


def text_parts(v) -> list[tuple] | None:
    """A text VALUE (sa/symex.py normal form: f-string, ``+``, ``str()``, ``format`` and ``join`` over a display are
    already one ("fstr", parts)) as pieces ("lit", text) | ("join", sep, X, how) for ``sep.join(<str of every x of X>)``
    with how = "each" (elements stringified one by one, in the order of X) or "sorted-strings" (the strings are
    sorted) | ("val", value) for str(value).  None if it is not a text of that kind."""
    from ..symex import is_const

    if is_const(v, str):
        return [("lit", v[1])]
    if isinstance(v, tuple) and v and v[0] == "binop" and v[1] == "+":
        left, right = text_parts(v[2]), text_parts(v[3])
        if left is None or right is None or not any(p_[0] in {"lit", "join"} for p_ in left + right):
            return None
        return _merge_literals(left + right)
    parts = v[1] if isinstance(v, tuple) and v and v[0] == "fstr" else [v]
    out: list[tuple] = []
    for x in parts:
        if isinstance(x, tuple) and x and x[0] == "binop" and x[1] == "+":
            inner = text_parts(x)
            if inner is not None:
                out += inner
                continue
        if is_const(x, str, int):
            out.append(("lit", str(x[1])))
            continue
        j = _joined(x)
        if j is not None:
            out.append(j)
            continue
        if x[0] == "call" and x[1][0] == "attr" and x[1][2] == "join":
            return None
        out.append(("val", x))
    return _merge_literals(out)


def _stringified(seq):
    """X if ``seq`` yields str(x) for every x of X in order (a comprehension / generator / map over X), else None."""
    if isinstance(seq, tuple) and seq and seq[0] in {"list", "tuple"} and len(seq[1]) == 1 and seq[1][0][0] == "foreach":
        each, elt = seq[1][0][1], seq[1][0][2]
        if elt == each or elt == ("call", ("builtin", "str"), (each,), ()) or elt == ("fstr", (each,)):
            return each[1]
    return None


def _joined(x):
    from ..symex import is_const

    if not (isinstance(x, tuple) and x and x[0] == "call" and x[1][0] == "attr" and x[1][2] == "join" and is_const(x[1][1], str) and len(x[2]) == 1 and not x[3]):
        return None
    sep, seq = x[1][1][1], x[2][0]
    src = _stringified(seq)
    if src is not None:
        return ("join", sep, src, "each")
    if seq[0] == "call" and seq[1] == ("builtin", "sorted") and len(seq[2]) == 1 and not seq[3]:
        inner = _stringified(seq[2][0])
        if inner is not None:
            return ("join", sep, inner, "sorted-strings")
    return None


def check_mass_naming(ctx: Check, tree: Tree) -> None:
    """Naming and filling of the invariant masses, read off the symbolic VALUES (sa/symex.py) of the two functions:
    temporaries, helpers (wherever they live), ``map`` / comprehension / generator, keyword arguments, a dict
    comprehension or a loop with stores do not matter."""
    from ..symex import alternatives, is_const, subterms
    from .c04 import ATTACHED, Unreadable, _is_call, _method_call, _pos_args, _same_elements, _show, entries_of, helper_value, pooled_sum, read_attached, run_recording

    fn = tree.func(f"{LOR}::get_invariant_mass_symbol")
    if len(fn.params) < 2:
        raise AnalysisError(f"{fn.qual}: no (topology, state) parameters")
    topo, state = ("param", fn.params[0]), ("param", fn.params[1])
    _, value = helper_value(tree, fn.qual, frozenset({ATTACHED}))
    alts = alternatives(value)
    if len(alts) != 1 or not (_is_call(alts[0][1], "Symbol") and alts[0][1][2]):
        raise AnalysisError(f"{fn.qual}: returns `{_show(value)}`, not one sympy.Symbol(...)")
    sym_call = alts[0][1]
    parts = text_parts(sym_call[2][0])
    if parts is None:
        raise AnalysisError(f"{fn.qual}: cannot read the name `{_show(sym_call[2][0])}` as a concatenation of text pieces")
    problems = []
    kw = dict(sym_call[3])
    if kw.get("nonnegative") != ("const", True):
        if any(not is_const(v) for v in kw.values()):
            raise AnalysisError(f"{fn.qual}: assumptions of the symbol are not literal: {sorted(kw)}")
        problems.append(f"assumptions {sorted(kw)}: not nonnegative=True")
    want_src = ("call", ("global", ATTACHED), (topo, state), ())
    if len(parts) != 2 or parts[0] != ("lit", "m_") or parts[1][0] != "join":
        if any(p_[0] == "val" and any(t[0] in {"unknown", "call"} and not _is_call(t, ATTACHED) for t in subterms(p_[1])) for p_ in parts):
            raise AnalysisError(f"{fn.qual}: the name is built from `{[_show(p_[1]) if p_[0] != 'lit' else p_[1] for p_ in parts]}`: cannot decide")
        problems.append(f"the name is {[p_[1] if p_[0] == 'lit' else _show(p_[-2] if p_[0] == 'join' else p_[1]) for p_ in parts]}, not 'm_' + the attached final-state ids")
    else:
        _, sep, src, how = parts[1]
        if sep != "":
            problems.append(f"the ids are joined with {sep!r}")
        if how != "each":
            problems.append("the ids are sorted AS STRINGS (10 sorts before 2): isomorphic sub-systems get different names")
        inner = src
        ordered = False
        if inner[0] == "call" and inner[1] == ("builtin", "sorted") and len(inner[2]) == 1 and set(dict(inner[3])) <= {"reverse"} \
                and is_const(dict(inner[3]).get("reverse", ("const", False)), bool):
            if dict(inner[3]).get("reverse", ("const", False))[1]:
                problems.append("the ids are listed in DESCENDING order")
            ordered, inner = True, inner[2][0]
        while inner[0] == "call" and inner[1][0] == "builtin" and inner[1][1] in {"list", "tuple"} and len(inner[2]) == 1 and not inner[3]:
            inner = inner[2][0]
        if _is_call(inner, ATTACHED) and _pos_args(inner, ("topology", "state_id"))[:2] == [topo, state]:
            pass  # (determine_attached_final_state returns the ids sorted: R-HELPERS)
        elif _is_call(inner, ATTACHED):
            problems.append(f"the name lists the final states attached to `{_show(inner)}`, not to the state itself")
        elif inner[0] == "call" and inner[1][0] == "builtin" and inner[1][1] in {"reversed", "set", "frozenset"} and _is_call(_same_elements(inner), ATTACHED) and not ordered:
            problems.append(f"the ids are listed in the order of `{_show(inner)}`, not sorted")
        else:
            raise AnalysisError(f"{fn.qual}: the name lists `{_show(src)}`: not the attached final-state ids in a form these rules understand")
    ctx.verdict(not problems, "R-TERM", f"{fn.qual}::name", tree.loc(fn.node),
                "get_invariant_mass_symbol: name = 'm_' + sorted attached final-state ids of that state, nonnegative", problems or None)
    # ---- the store(s) of compute_invariant_masses
    cm = tree.func(f"{LOR}::compute_invariant_masses")
    sx, value, _st = run_recording(tree, cm, frozenset({ATTACHED, fn.qual, "get_invariant_mass_symbol"}))
    entries = [e for e in entries_of(sx)]
    named = [e for e in entries if _is_call(e[1], fn.qual)]
    if not named or len(named) != len(entries):
        raise AnalysisError(f"{cm.qual}: expected entries keyed by get_invariant_mass_symbol(...), found {len(named)} of {len(entries)} entries")
    store_problems: list[str] = []
    edge_problems: list[str] = []
    sources = []
    for pc, key, val, eaches, node in named:
        try:
            ktopo, kstate = _pos_args(key, ("topology", "state_id"))[:2]
        except (Unreadable, ValueError) as exc:
            raise AnalysisError(f"{cm.qual}: cannot read the arguments of `{_show(key)}`") from exc
        if not (_is_call(val, "InvariantMass") and len(val[2]) == 1 and not val[3]):
            raise AnalysisError(f"{cm.qual}: the value `{_show(val)}` is not InvariantMass(<momentum>)")
        P = val[2][0]
        pools = {t[1] for t in subterms(P) if t[0] == "sub" and t[1][0] == "param"} | {t[1] for t in subterms(P) if t[0] == "attr" and t[2] in {"__getitem__", "get", "values"} and t[1][0] == "param"}
        if len(pools) != 1:
            raise AnalysisError(f"{cm.qual}: cannot tell from which mapping of momenta `{_show(P)}` is built")
        S = pooled_sum(P, next(iter(pools)))
        if S is None:
            raise AnalysisError(f"{cm.qual}: `{_show(P)}` is not an ArraySum over the momenta of a set of states")
        S = _same_elements(S)
        if not _is_call(S, ATTACHED):
            from ..symex import not_followed

            why = not_followed(S, known=(ATTACHED,))
            if why is not None:
                raise AnalysisError(f"{cm.qual}: sums the momenta of `{_show(S)}`, which depends on {why}")
            store_problems.append(f"the mass named after `{_show(kstate)}` sums the momenta of `{_show(S)}`, not of the final states attached to that state")
        stopo, sstate = _pos_args(S, ("topology", "state_id"))[:2] if _is_call(S, ATTACHED) else (ktopo, kstate)
        if (stopo, sstate) != (ktopo, kstate):
            store_problems.append(f"the mass named after `{_show(kstate)}` is computed from the final states attached to `{_show(sstate)}`")
        # which states are named?
        x = kstate
        if x[0] == "item" and x[2] == 0 and x[1][0] == "each" and _method_call(x[1][1], "items") is not None:
            coll = _method_call(x[1][1], "items")[0]
        elif x[0] == "each":
            coll = x[1]
            if _method_call(coll, "keys") is not None and not _method_call(coll, "keys")[1]:
                coll = _method_call(coll, "keys")[0]
            coll = _same_elements(coll)
        else:
            raise AnalysisError(f"{cm.qual}: the named state `{_show(x)}` is not the element of a loop / comprehension over edges")
        if not (coll[0] == "attr" and coll[1] == ktopo):
            raise AnalysisError(f"{cm.qual}: iterates `{_show(coll)}`, which is not a collection of edges of the topology")
        sources.append(coll[2])
        each = x if x[0] == "each" else x[1]
        filt = [(t, o) for t, o in pc if any(u == each for u in subterms(t))]
        if filt:
            raise AnalysisError(f"{cm.qual}: the edges are filtered by `{_show(filt[0][0])}` is {filt[0][1]}: cannot tell whether every edge keeps its mass")
    first = named[0][4]
    where = tree.loc(first) if hasattr(first, "lineno") else tree.loc(cm.node)
    ctx.verdict(not store_problems, "R-TERM", f"{cm.qual}::store", where,
                "compute_invariant_masses: m_<ids of state> := InvariantMass(sum of the momenta of exactly those ids), for every edge of the topology",
                store_problems or None)
    if set(sources) != {"edges"} and set(sources) != {"incoming_edge_ids", "intermediate_edge_ids", "outgoing_edge_ids"}:
        edge_problems.append(f"iterates topology.{', topology.'.join(sorted(set(sources)))}, not all edges of the topology")
    ctx.verdict(not edge_problems, "R-TERM", f"{cm.qual}::all-edges", where, "compute_invariant_masses iterates all edges of the topology", edge_problems or None)
    # attached final state: the id itself for a final state, else the sorted originating final-state ids
    da = tree.func(ATTACHED)
    try:
        problems, reading = read_attached(tree)
    except Unreadable as exc:
        raise AnalysisError(f"R-TERM {da.qual}: cannot decide - {exc}") from exc
    ctx.verdict(not problems, "R-TERM", f"{da.qual}::definition", tree.loc(da.node), "determine_attached_final_state: [id] for a final state, else sorted final-state ids below its ending node", problems or None)


def check_pool(ctx: Check, tree: Tree) -> None:
    """R-POOL: inside one activation of the recursion every momentum is read from the pool
    that was handed in (the rest frame of the node being processed).  The boosted pool of a
    decaying child is a new object that only the recursive call for that child receives;
    rebinding or writing the handed-in pool inside the loop over the children would make the
    second decaying child (two-resonance topologies, e.g. (01)(23)) work in the first
    child's helicity frame."""
    from ..prov import _rd_for

    from .c04 import stable_qual, worker_model

    fn = recursion_worker(tree)
    rd = _rd_for(fn, {})
    if not fn.params:
        raise AnalysisError(f"{fn.qual}: no momentum-pool parameter")
    pool = worker_model(tree)["pool"]  # the parameter that is used as the momentum pool (found by its use, not by its position)
    qual = stable_qual(tree, fn)
    pdefs = [d for d in rd.defs if d.kind == "param" and d.name == pool]
    if len(pdefs) != 1:
        raise AnalysisError(f"{fn.qual}: parameter definition of `{pool}` not found")
    pdef = pdefs[0]

    def is_alias(d, depth=0) -> bool:
        if d is pdef:
            return True
        if depth > 4 or d.kind != "assign" or not isinstance(d.value, ast.Name):
            return False
        return all(is_alias(x, depth + 1) for x in rd.reaching(d.value)) and bool(rd.reaching(d.value))

    reads = bad = 0
    for n in walk_function(fn.node):
        if not (isinstance(n, ast.Name) and isinstance(n.ctx, ast.Load)):
            continue
        reach = rd.reaching(n)
        if not any(is_alias(d) for d in reach):
            continue
        reads += 1
        foreign = [d for d in reach if not is_alias(d)]
        if foreign:
            bad += 1
            d = foreign[0]
            what = unparse(d.node)[:70] if isinstance(d.node, ast.AST) else d.kind
            ctx.violation("R-POOL", f"{qual}::pool-read-sees::{d.kind}", tree.loc(n),
                          f"`{n.id}` read here may be the handed-in momentum pool or the result of `{what}` (line {getattr(d.node, 'lineno', '?')})",
                          "the pool of the node being processed is rebound / written inside the loop over its children: the next decaying child is evaluated in its sibling's helicity frame")
    if reads < 2:
        raise AnalysisError(f"{fn.qual}: only {reads} reads of the momentum pool found (3 confirmed)")
    if not bad:
        ctx.ok("R-POOL", tree.loc(fn.node), f"all {reads} reads of the momentum pool `{pool}` in one activation see only the handed-in pool (never rebound or written)")


def check_dalitz(ctx: Check, tree: Tree) -> None:
    """R-TERM: formulate_scattering_angle(i, j) is the polar helicity angle of particle i in the
    (ij) rest frame, written in Dalitz variables.  Reference (geometry, not the code): in the
    (ij) frame with s_k=(p_i+p_j)^2: E_i=(s_k+m_i^2-m_j^2)/(2 sqrt s_k), E_k=(M^2-s_k-m_k^2)/(2 sqrt s_k),
    |p_i|=sqrt(Kallen(s_k,m_i^2,m_j^2))/(2 sqrt s_k), |p_k|=sqrt(Kallen(M^2,m_k^2,s_k))/(2 sqrt s_k), and
    s_j=(p_i+p_k)^2=m_i^2+m_k^2+2E_iE_k+2|p_i||p_k|cos(theta) because the helicity axis is -p_k."""
    fn = tree.func(f"{ANG}::formulate_scattering_angle")
    D.reset()
    te = TermEval(tree)
    two = RF.const(2)

    def comp(i):
        return "".join(str(x) for x in sorted({1, 2, 3} - {i}))

    def kallen(x, y, z):
        return x**2 + y**2 + z**2 - two * x * y - two * y * z - two * z * x

    for i, j in [(1, 2), (2, 3), (3, 1), (1, 3), (2, 1), (3, 2)]:
        key = f"{fn.qual}::({i},{j})"
        try:
            res = te.eval_function(fn, [RF.const(i), RF.const(j)])
        except AnalysisError as exc:
            if type(exc).__name__ == "RaisedError":
                ctx.violation("R-TERM", key + "::raises", tree.loc(fn.node), f"formulate_scattering_angle({i}, {j}) raises", str(exc)[:200])
                continue
            raise
        items = getattr(res, "items", None)
        if not items or len(items) != 2:
            raise AnalysisError(f"{fn.qual}: does not return (symbol, expression)")
        s, th = items
        atom = te.single_atom(th) if isinstance(th, RF) else None
        info = te.apps.get(atom) if atom is not None else None
        if not isinstance(th, RF):
            raise AnalysisError(f"{fn.qual}({i}, {j}): the angle `{repr(th)[:100]}` is not a term the evaluator can read")
        if info is None or info.cls != "acos":  # a term, but not one plain acos(...): e.g. -acos(...), pi - acos(...), asin(...)
            ctx.violation("R-TERM", key + "::acos", tree.loc(fn.node), f"formulate_scattering_angle({i}, {j}) is not acos(...)", repr(th)[:120])
            continue
        got = te.unfold(info.args[0])
        if not isinstance(got, RF):
            raise AnalysisError(f"{fn.qual}({i}, {j}): the argument of acos does not reduce to a term the rule can compare ({repr(got)[:100]})")
        k = ({1, 2, 3} - {i, j}).pop()
        m0, mi, mj, mk = sym("m_0"), sym(f"m_{i}"), sym(f"m_{j}"), sym(f"m_{k}")
        sj, sk = sym(f"m_{comp(j)}") ** 2, sym(f"m_{comp(k)}") ** 2
        e_i = sk + mi**2 - mj**2  # 2 sqrt(s_k) E_i
        e_k = m0**2 - sk - mk**2  # 2 sqrt(s_k) E_k
        want = (two * sk * (sj - mi**2 - mk**2) - e_i * e_k) / (sqrt(kallen(m0**2, mk**2, sk)) * sqrt(kallen(sk, mi**2, mj**2)))
        ok = equal(got, want) and isinstance(s, RF) and equal(s, sym(f"theta_{i}{j}"))
        ctx.verdict(ok, "R-TERM", key, tree.loc(fn.node),
                    f"formulate_scattering_angle({i}, {j}) == acos of the (ij)-frame geometry with spectator {k}: [2 s_k (s_j - m_i^2 - m_k^2) - (s_k + m_i^2 - m_j^2)(M^2 - s_k - m_k^2)] / [sqrt Kallen(M^2, m_k^2, s_k) sqrt Kallen(s_k, m_i^2, m_j^2)]",
                    None if ok else {"got": repr(got)[:300], "symbol": repr(s)})


# ---------------------------------------------------------------------------------------------
# R-LITERALID: WHAT is compared with the literal?  A small kind analysis over the reaching definitions:
#   "id"    a state / edge / node id            "ids"   a sequence or set of ids        "idmap"  a mapping keyed by ids
#   "pairs" (id, value) pairs (`m.items()`)     "other" anything that is certainly not an id (a count, a spin, a string)
#   None    unknown
_ID_FUNCS = {"get_parent_id", "get_sibling_state_id", "get_spectator_id"}
_IDS_FUNCS = {"determine_attached_final_state", "list_decay_chain_ids", "get_outer_state_ids", "get_decay_product_ids"}
_IDMAP_ATTRS = {"edges", "nodes", "states", "initial_states", "final_states", "interactions", "initial_state", "final_state"}
_NOT_ID_BUILTINS = {"len", "sum", "abs", "bool", "float", "str", "repr", "hash", "isinstance", "issubclass", "callable", "round", "divmod", "ord", "any", "all", "type", "id"}
_KEEP = {"sorted", "list", "tuple", "set", "frozenset", "reversed", "iter"}


def _name_kind(name: str) -> str | None:
    n = name.lower()
    if n == "id" or n.endswith("_id") or n.endswith("_id1") or n.endswith("_id2"):
        return "id"
    if n == "ids" or n.endswith("_ids"):
        return "ids"
    return None


def _element(kind: str | None) -> str | None:
    return {"ids": "id", "idmap": "id", "pairs": "pair", "other": "other"}.get(kind) if kind is not None else None


def id_kind(tree: Tree, fn, rd, e: ast.AST, depth: int = 0) -> str | None:
    if depth > 12:
        return None
    k = lambda x: id_kind(tree, fn, rd, x, depth + 1)  # noqa: E731
    if isinstance(e, ast.Constant):
        return "other"
    if isinstance(e, (ast.Compare, ast.BoolOp, ast.JoinedStr, ast.Lambda, ast.Dict, ast.DictComp)):
        return "other" if not isinstance(e, (ast.Dict, ast.DictComp)) else None
    if isinstance(e, ast.UnaryOp):
        return "other" if isinstance(e.op, ast.Not) else k(e.operand)
    if isinstance(e, ast.IfExp):
        a, b = k(e.body), k(e.orelse)
        return a if a == b else ("id" if "id" in (a, b) else None)
    if isinstance(e, ast.NamedExpr):
        return k(e.value)
    if isinstance(e, ast.Starred):
        return k(e.value)
    if isinstance(e, ast.Name):
        defs = rd.reaching(e) if isinstance(e.ctx, ast.Load) else set()
        if not defs:
            return _name_kind(e.id) if _name_kind(e.id) else None
        kinds = {_def_kind(tree, fn, rd, d, depth + 1) for d in defs}
        if len(kinds) == 1:
            return kinds.pop()
        return "id" if "id" in kinds else None
    if isinstance(e, ast.Attribute):
        if e.attr in _IDMAP_ATTRS:
            return "idmap"
        nk = _name_kind(e.attr)
        return nk if nk is not None else "other"
    if isinstance(e, ast.Subscript):
        base = k(e.value)
        if isinstance(e.slice, ast.Slice):
            return base if base in {"ids", "other"} else None
        if base in {"ids"}:
            return "id"
        if base == "pair":
            return "id" if isinstance(e.slice, ast.Constant) and e.slice.value == 0 else "other"
        if base in {"idmap", "other"}:
            return "other"
        return None
    if isinstance(e, (ast.List, ast.Tuple, ast.Set)):
        kinds = {k(x) for x in e.elts}
        if kinds == {"id"}:
            return "ids"
        return "other" if "id" not in kinds and None not in kinds else None
    if isinstance(e, (ast.ListComp, ast.SetComp, ast.GeneratorExp)):
        elt = k(e.elt)
        return "ids" if elt == "id" else ("other" if elt == "other" else None)
    if isinstance(e, ast.BinOp):
        a, b = k(e.left), k(e.right)
        if isinstance(e.op, (ast.Sub, ast.BitOr, ast.BitAnd, ast.BitXor, ast.Add)) and "ids" in (a, b):
            return "ids"
        if "id" in (a, b):
            return "id"  # id arithmetic (`state_id % 3 + 1`) still speaks about ids
        return "other" if a == b == "other" else None
    if isinstance(e, ast.Call):
        f = e.func
        name = f.id if isinstance(f, ast.Name) else (f.attr if isinstance(f, ast.Attribute) else None)
        q = tree.callee(e, fn)
        if isinstance(f, ast.Name) and q is None or (q is not None and "::" not in q and "." not in q):
            if name in _NOT_ID_BUILTINS:
                return "other"
            if name in _KEEP and len(e.args) == 1:
                a = k(e.args[0])
                return "ids" if a in {"ids", "idmap"} else a
            if name in {"next", "min", "max"} and e.args:
                return {"pair": None}.get(_element(k(e.args[0])), _element(k(e.args[0])))
            if name == "int" and len(e.args) == 1:
                return k(e.args[0])
            if name in {"enumerate", "zip", "range", "map", "filter"}:
                return None
        if name in _ID_FUNCS:
            return "id"
        if name in _IDS_FUNCS:
            return "ids"
        if isinstance(f, ast.Attribute):
            if name in {"keys", "copy"} and not e.args:
                a = k(f.value)
                return "ids" if name == "keys" and a == "idmap" else a
            if name == "items" and not e.args:
                return "pairs" if k(f.value) == "idmap" else None
            if name == "values":
                return "other" if k(f.value) == "idmap" else None
            if name in {"pop", "get"}:
                base = k(f.value)
                return "id" if base == "ids" and name == "pop" else ("other" if base in {"idmap", "other"} else None)
            if name in {"count", "index", "startswith", "endswith", "is_integer"}:
                return "other"
            if name in {"difference", "union", "intersection", "symmetric_difference"}:
                return "ids" if k(f.value) == "ids" else None
        if name is not None:
            nk = _name_kind(name)
            if nk is not None:
                return nk
        if q is not None and q in tree.funcs:
            return "other"  # a package function whose name does not speak of ids (counts, symbols, expressions, ...)
        if q is not None and q in tree.classes:
            return "other"
        return None
    return None


def _def_kind(tree: Tree, fn, rd, d, depth: int) -> str | None:
    k = lambda x: id_kind(tree, fn, rd, x, depth + 1)  # noqa: E731
    if d.kind in {"param", "lambda"}:
        nk = _name_kind(d.name)
        return nk if nk is not None else "other"
    if d.kind in {"for", "comp"}:
        it = d.node.iter if hasattr(d.node, "iter") else d.value
        el = _element(k(it)) if it is not None else None
        if el == "pair":
            return {0: "id"}.get(d.index, "other") if d.index is not None else "pair"
        if d.index is not None and el == "id":
            return None
        return el
    if d.kind == "assign" and isinstance(d.value, ast.AST):
        if d.index is None:
            return k(d.value)
        v = k(d.value)
        if v in {"ids"}:
            return "id"
        if v == "pair":
            return "id" if d.index == 0 else "other"
        return "other" if v == "other" else None
    if d.kind in {"import", "def", "with", "except"}:
        return "other"
    return None


def check_names_structural(ctx: Check, tree: Tree) -> None:
    """R-LITERALID: the name of a kinematic variable is a function of the topology's structure.
    Nothing reachable from the naming / producing functions compares a state, edge or node id with
    an integer literal (qrules numbers the initial state -1 by default, but relabelled topologies -
    the library's own relabel_edge_ids for the DPD alignment, user permutations - use other ids; the
    initial edge is `topology.incoming_edge_ids`).  WHAT is compared is decided by a kind analysis over the
    reaching definitions (``id_kind``): a count of edges (`len(...)`, also through a temporary), a spin or a string
    compared with a literal is not an id comparison; a value whose kind cannot be determined is "cannot decide"."""
    from ..dataflow import RD

    roots = ["ampform.helicity.naming::get_helicity_angle_symbols", "ampform.helicity.naming::get_boost_chain_suffix",
             f"{LOR}::get_invariant_mass_symbol", f"{ANG}::compute_helicity_angles", f"{LOR}::compute_invariant_masses"]
    graph = tree.call_graph()
    reach: set[str] = set()
    for r in roots:
        if r not in tree.funcs:
            raise AnalysisError(f"vanished anchor: {r}")
        reach |= tree.reachable(r, graph)
    reach = {q for q in reach if q in tree.funcs}
    tops = set()
    for q in reach:
        f = tree.funcs[q]
        while f.outer is not None:
            f = f.outer
        tops.add(f.qual)
    if len(reach) < 8:
        raise AnalysisError(f"only {len(reach)} functions reachable from the naming / producing functions (call graph degraded)")
    bad = []
    unknown = []
    n = 0
    cmp_ops = (ast.Eq, ast.NotEq, ast.Is, ast.IsNot, ast.Lt, ast.Gt, ast.LtE, ast.GtE)
    for q in sorted(tops):
        top = tree.funcs[q]
        if not q.startswith("ampform."):
            continue
        root_rd = RD(top.node)
        from ..prov import _rd_for

        cache = {top.qual: root_rd}
        for node in walk_function(top.node, nested=True):
            if not (isinstance(node, ast.Compare) and len(node.ops) == 1 and isinstance(node.ops[0], cmp_ops)):
                continue
            sides = [node.left, node.comparators[0]]
            lit = [s_ for s_ in sides if (isinstance(s_, ast.Constant) and isinstance(s_.value, int) and not isinstance(s_.value, bool))
                   or (isinstance(s_, ast.UnaryOp) and isinstance(s_.op, ast.USub) and isinstance(s_.operand, ast.Constant) and isinstance(s_.operand.value, int))]
            if len(lit) != 1:
                continue
            other = sides[0] if sides[1] is lit[0] else sides[1]
            n += 1
            owner = tree.func_of(node) or top
            rd = _rd_for(owner, cache)
            kind = id_kind(tree, owner, rd, other)
            if kind == "id":
                bad.append({"fn": top, "node": node, "literal": unparse(lit[0])})
            elif kind is None:
                unknown.append(f"{top.qual}: `{unparse(node)[:60]}`")
    for h in bad:
        ctx.violation("R-LITERALID", f"{h['fn'].qual}::{canon_cmp(h['node'])}", tree.loc(h["node"]),
                      f"{h['fn'].qual}: `{unparse(h['node'])}` compares an id with the literal {h['literal']} on the path that names / computes kinematic variables",
                      "for a relabelled topology (initial state not -1) the names differ from the documented ones and no longer describe the quantity that is computed")
    if unknown:
        raise AnalysisError("R-LITERALID cannot decide whether an id is compared with a literal in " + "; ".join(unknown[:4]))
    if not bad:
        ctx.ok("R-LITERALID", "src/ampform/helicity/naming.py", f"{len(reach)} functions reachable from the naming and producing functions of kinematic variables: "
               f"none of their {n} comparisons with an integer literal compares an id")


def canon_cmp(node: ast.AST) -> str:
    import re

    return re.sub(r"\s+", "", unparse(node))[:60]


def _resets_memo(tree: Tree, cls, method, memo: str, depth: int = 0, seen: set | None = None) -> bool:
    """Does ``method`` (or a method of the same object it calls, transitively) write / delete / clear ``self.<memo>``?
    `self.A = ...`, `del self.A`, `self.A.clear()`, `setattr(self, "A", ...)`, `self.__dict__.pop("A", ...)`."""
    seen = seen if seen is not None else set()
    if method.qual in seen or depth > 3:
        return False
    seen.add(method.qual)
    me = method.params[0] if method.params else "self"

    def is_memo(n) -> bool:
        return isinstance(n, ast.Attribute) and isinstance(n.value, ast.Name) and n.value.id == me and n.attr == memo

    for node in walk_function(method.node):
        if isinstance(node, (ast.Assign, ast.AnnAssign, ast.AugAssign)):
            targets = node.targets if isinstance(node, ast.Assign) else [node.target]
            if any(is_memo(t) or (isinstance(t, (ast.Tuple, ast.List)) and any(is_memo(e) for e in t.elts)) for t in targets):
                return True
        elif isinstance(node, ast.Delete) and any(is_memo(t) for t in node.targets):
            return True
        elif isinstance(node, ast.Call):
            f = node.func
            if isinstance(f, ast.Attribute) and f.attr in {"clear", "pop", "popitem"} and is_memo(f.value):
                return True
            if isinstance(f, ast.Name) and f.id in {"setattr", "delattr"} and len(node.args) >= 2 and isinstance(node.args[0], ast.Name) and node.args[0].id == me \
                    and isinstance(node.args[1], ast.Constant) and str(node.args[1].value).endswith(memo.lstrip("_")):
                return True
            if isinstance(f, ast.Attribute) and isinstance(f.value, ast.Name) and f.value.id == me and f.attr in cls.methods:
                if _resets_memo(tree, cls, cls.methods[f.attr], memo, depth + 1, seen):
                    return True
    return False


def check_adapter_memo(ctx: Check, tree: Tree) -> None:
    """R-MEMO: if HelicityAdapter keeps a lazily computed attribute (`if self.A is None: self.A = ...`)
    that is derived from other attributes (the registered topologies), every method that changes
    such an input resets the attribute - otherwise create_expressions() keeps answering for the
    topologies of an earlier registration state."""
    from ..rules import memo_invalidation

    cls_q = "ampform.kinematics::HelicityAdapter"
    if cls_q not in tree.classes:
        raise AnalysisError("vanished anchor: HelicityAdapter")
    rows = memo_invalidation(tree, cls_q)
    if not rows:
        ctx.ok("R-MEMO", tree.loc(tree.classes[cls_q].node), "HelicityAdapter keeps no lazily computed attribute: create_expressions() always reflects the registered topologies")
        return
    for r in rows:
        r["resets"] = r["resets"] or _resets_memo(tree, tree.classes[cls_q], r["writer"], r["memo"])
        ctx.verdict(r["resets"], "R-MEMO", f"{r['writer'].qual}::stale `{r['memo']}`", tree.loc(r["writer"].node),
                    f"{r['writer'].qual} changes {r['touched']} and resets the memo `{r['memo']}` computed in {r['computed_in'].name}",
                    None if r["resets"] else f"`{r['memo']}` is derived from {r['touched']} but survives this change: later calls of {r['computed_in'].name}() miss the variables of the new topologies")


def _quantified(test, outcome):
    """("all" | "some", each, element test in positive normal form, its outcome) for `all(E for x in X)` / `any(...)`
    with this outcome: all(E) is True = for all x: E; any(E) is False = for all x: not E; the other two are "some"."""
    from ..symex import normal, strip_when

    if not (isinstance(test, tuple) and test and test[0] == "call" and test[1] in {("builtin", "all"), ("builtin", "any")} and len(test[2]) == 1 and not test[3]):
        return None
    seq = test[2][0]
    if seq[0] not in {"list", "tuple", "set"} or len(seq[1]) != 1 or seq[1][0][0] != "foreach":
        return None
    each, elt = seq[1][0][1], seq[1][0][2]
    if strip_when(elt)[0]:
        return None
    atom, pos = normal(elt)
    if test[1][1] == "all":
        return ("all" if outcome else "some", each, atom, pos if outcome else not pos)
    return ("some" if outcome else "all", each, atom, pos if outcome else not pos)


def _children_of(v, model) -> bool:
    """``v`` (through sorted / list / tuple) is topology.get_edge_ids_outgoing_from_node(<the node parameter>)."""
    from .c04 import _edges_at

    e = _edges_at(v, "get_edge_ids_outgoing_from_node")
    return e is not None and e[1] == ("param", model["node"])


def _accumulator_kind(tree: Tree, fn, rd, names: set[str]) -> dict[str, str]:
    """How is each mapping that receives the named entries bound inside the recursion?  "local" (created in every
    activation), "closure" (a variable of an enclosing function: one object for all activations), "param"."""
    out = {}
    own = {d.name: d for d in rd.defs if d.kind == "param"}
    assigned = {n.id for n in walk_function(fn.node, nested=False) if isinstance(n, ast.Name) and isinstance(n.ctx, ast.Store)}
    for name in names:
        if name in own:
            out[name] = "param"
        elif name in assigned:
            out[name] = "local"
        else:
            out[name] = "closure"
    return out


def check_recursion_shape(ctx: Check, tree: Tree) -> None:
    """R-RECURSE: the angle dictionary of a node is the union of its own angle pairs and the
    dictionaries of all decaying children: (1) what the recursion registers for the sub-tree ends up in the
    returned mapping - the value of every recursive call is merged into it, or all activations write into ONE
    mapping (a variable of the enclosing function, or an accumulator parameter that is handed down) that is
    returned; (2) a child is descended into iff it decays further (ending_node_id is not None / more than one
    final state below it); (3) the leaf case applies iff ALL children of the node are final states.
    (2) and (3) are read off the path conditions of the symbolic model of the recursion (sa/symex.py)."""
    from ..prov import _rd_for, stores_through_helpers
    from .c04 import ATTACHED, Unreadable, _edge_attr, _is_call, _none_test, _pos_args, _same_elements, _show, stable_qual, worker_model

    fn = recursion_worker(tree)
    qual = stable_qual(tree, fn)
    cache: dict = {}
    rd = _rd_for(fn, cache)
    model = worker_model(tree)
    rec = [c for c in walk_function(fn.node) if isinstance(c, ast.Call) and tree.callee(c, tree.func_of(c) or fn) == fn.qual]
    if not rec:
        raise AnalysisError(f"{fn.qual}: no recursive call")
    # ---- (1) where do the entries of the sub-tree go?
    acc_names = {s_.target.id for s_ in stores_through_helpers(tree, fn, cache) if isinstance(s_.target, ast.Name) and (s_.origin is None or s_.origin is fn)}
    kinds = _accumulator_kind(tree, fn, rd, acc_names)
    returned: set[str] = set()
    for ret, _ in rd.returns:
        if ret.value is not None:
            returned |= {n.id for n in ast.walk(ret.value) if isinstance(n, ast.Name)}
    for c in rec:
        merged: bool | None = None  # None: cannot tell
        why = None
        par = getattr(c, "_parent", None)
        # direct: R.update(rec(...)) / return {**R, **rec(...)} / R |= rec(...)
        for a in ancestors(c):
            if isinstance(a, ast.Call) and isinstance(a.func, ast.Attribute) and a.func.attr == "update" and isinstance(a.func.value, ast.Name) and a.func.value.id in returned | acc_names:
                merged = True
            if isinstance(a, (ast.Return, ast.Yield, ast.YieldFrom)):
                merged = True
            if isinstance(a, ast.AugAssign) and isinstance(a.op, ast.BitOr) and isinstance(a.target, ast.Name) and a.target.id in returned | acc_names:
                merged = True
            if isinstance(a, (ast.FunctionDef, ast.AsyncFunctionDef, ast.Lambda)):
                break
        # via a local: x = rec(...); R.update(x) / R |= x / {**R, **x} returned / for k, v in x.items(): R[k] = v
        defs_of_c = [d for d in rd.defs if d.value is c and d.kind == "assign"]
        if merged is None and defs_of_c:
            used = False
            for node in walk_function(fn.node):
                reads = lambda e: any(isinstance(n, ast.Name) and isinstance(n.ctx, ast.Load) and any(d in rd.reaching(n) for d in defs_of_c) for n in ast.walk(e))  # noqa: E731
                if isinstance(node, ast.Call) and isinstance(node.func, ast.Attribute) and node.func.attr == "update" and isinstance(node.func.value, ast.Name) and node.func.value.id in returned | acc_names:
                    if any(reads(a_) for a_ in node.args):
                        merged = True
                elif isinstance(node, ast.AugAssign) and isinstance(node.op, ast.BitOr) and isinstance(node.target, ast.Name) and node.target.id in returned | acc_names:
                    if reads(node.value):
                        merged = True
                elif isinstance(node, ast.Return) and node.value is not None and reads(node.value):
                    merged = True
                elif isinstance(node, (ast.Assign, ast.AnnAssign)) and node.value is not None and any(isinstance(t, ast.Name) and t.id in returned | acc_names
                                                                                                       for t in (node.targets if isinstance(node, ast.Assign) else [node.target])):
                    v_ = node.value  # R = {**R, **x}  /  R = R | x  /  R = dict(R, **x)
                    if (isinstance(v_, ast.Dict) and any(k_ is None and reads(x_) for k_, x_ in zip(v_.keys, v_.values))) \
                            or (isinstance(v_, ast.BinOp) and isinstance(v_.op, ast.BitOr) and (reads(v_.left) or reads(v_.right))):
                        merged = True
                elif isinstance(node, ast.For) and reads(node.iter) and any(isinstance(t, ast.Assign) and isinstance(t.targets[0], ast.Subscript) and isinstance(t.targets[0].value, ast.Name)
                                                                         and t.targets[0].value.id in returned | acc_names for t in ast.walk(node)):
                    merged = True
                elif isinstance(node, ast.Name) and isinstance(node.ctx, ast.Load) and any(d in rd.reaching(node) for d in defs_of_c):
                    used = True
            if merged is None and not used:
                merged, why = False, "the result of the recursion is bound to a name that is never read"
            elif merged is None:
                raise AnalysisError(f"{fn.qual}: the value of the recursive call `{unparse(c)[:60]}` is used in a way these rules cannot follow")
        if merged is None and isinstance(par, ast.Expr):
            # the value is discarded: fine iff every activation writes into one and the same mapping
            if not acc_names:
                raise AnalysisError(f"{fn.qual}: the value of the recursive call is discarded and no mapping that receives the named entries was found")
            callee_args = None
            problems = []
            for name in sorted(acc_names):
                k = kinds[name]
                if k == "local":
                    problems.append(f"`{name}` is created anew in every activation")
                elif k == "param":
                    from ..prov import bind_call

                    callee_args = callee_args or bind_call(fn, c)
                    arg = (callee_args or {}).get(name)
                    if arg is None:
                        raise AnalysisError(f"{fn.qual}: cannot bind the arguments of `{unparse(c)[:60]}` to tell whether the accumulator `{name}` is handed down")
                    # (entries written into the parameter are weak updates of the same object: `store` definitions)
                    if not (isinstance(arg, ast.Name) and arg.id == name and all(d.kind in {"param", "store"} and d.name == name for d in rd.reaching(arg)) and rd.reaching(arg)):
                        problems.append(f"the accumulator parameter `{name}` is not handed down to the recursion (it receives `{unparse(arg)[:40]}`)")
            merged = not problems
            why = "; ".join(problems) or None
            if merged:
                _shared_accumulator_returned(tree, fn, acc_names, kinds)
        if merged is None:
            raise AnalysisError(f"{fn.qual}: cannot tell what happens to the value of the recursive call `{unparse(c)[:60]}`")
        ctx.verdict(merged, "R-RECURSE", f"{qual}::recursive-result-merged", tree.loc(c),
                    "the angles of the sub-tree end up in the returned mapping (the value of the recursive call is merged, or all activations fill one mapping)",
                    None if merged else f"the result of the recursion is dropped: angles below this node are never defined ({why})")
    # ---- (2) guards of the descent, from the path condition of every recursive call of the model
    if not model["calls"]:
        raise AnalysisError(f"{fn.qual}: the symbolic model has no recursive call")
    for pc, bound, callv, node in model["calls"]:
        pc = _split_conjunctions(pc)
        ea = _edge_attr(bound[model["node"]])
        if ea is None:
            raise AnalysisError(f"{fn.qual}: the recursion continues at `{_show(bound[model['node']])}`, which is not a node of a child edge")
        topo, child, _attr = ea
        decays = None
        problems = []
        shown = []
        for t, outcome in pc:
            subj = _none_test(t)
            e2 = _edge_attr(subj) if subj is not None else None
            if e2 is not None and e2[1] == child and e2[2] == "ending_node_id":
                shown.append(f"child.ending_node_id is {'None' if outcome else 'not None'}")
                if outcome:
                    problems.append("the recursion is entered for children WITHOUT an ending node (final states)")
                decays = not outcome if decays is None else decays
                continue
            n_attached = _count_test(t, outcome, lambda x: _is_call(_same_elements(x), ATTACHED) and _pos_args(_same_elements(x), ("topology", "state_id"))[1:2] == [child])
            if n_attached is not None:
                shown.append(f"number of final states below the child {n_attached}")
                if n_attached == "<=1":
                    problems.append("the recursion is entered only for children with at most one final state below them")
                else:
                    decays = True if decays is None else decays
                continue
            q_ = _quantified(t, outcome)
            if q_ is not None and _none_test(q_[2]) is not None and _edge_attr(_none_test(q_[2])) is not None and _edge_attr(_none_test(q_[2]))[2] == "ending_node_id":
                shown.append("after the leaf case")  # (a leaf case that returns early: which children are final is tested again per child)
                continue
            raise AnalysisError(f"{fn.qual}: the descent is guarded by `{_show(t)}` is {outcome}: not a test these rules understand")
        if decays is None and not problems:
            raise AnalysisError(f"{fn.qual}: no guard `ending_node_id is not None` (or more than one final state) found on the path to the recursive call")
        # "iff": no path on which this child is known to decay further leaves the iteration / the activation before the call
        from ..symex import subterms

        for kind, epc, enode in model["exits"]:
            epc = _split_conjunctions(epc)
            about_child = [(t, o) for t, o in epc if any(x == child for x in subterms(t))]
            if not about_child or (hasattr(enode, "lineno") and node is not None and hasattr(node, "lineno") and enode.lineno > node.lineno):
                continue
            says = None
            for t, o in about_child:
                subj = _none_test(t)
                e2 = _edge_attr(subj) if subj is not None else None
                if e2 is not None and e2[1] == child and e2[2] == "ending_node_id":
                    says = (not o) if says is None or says else says
                n_att = _count_test(t, o, lambda x: _is_call(_same_elements(x), ATTACHED) and _pos_args(_same_elements(x), ("topology", "state_id"))[1:2] == [child])
                if n_att == "<=1":
                    says = False
            extra = [f"{_show(t)} is {o}" for t, o in about_child if _none_test(t) is None and _count_test(t, o, lambda x: True) is None]
            if says is True:
                problems.append(f"a child that decays further is skipped (`{kind}` at line {getattr(enode, 'lineno', '?')}) when " + (" and ".join(extra) or "the guards hold")
                                + ": its sub-decay angles are never defined")
            elif says is None:
                raise AnalysisError(f"{fn.qual}: `{kind}` at line {getattr(enode, 'lineno', '?')} leaves the iteration for a child under {extra}: cannot tell whether decaying children are skipped")
        where = tree.loc(node) if node is not None and hasattr(node, "lineno") else tree.loc(rec[0])
        ctx.verdict(not problems, "R-RECURSE", f"{qual}::descent-guard", where,
                    "a child is descended into iff it decays further (" + ", ".join(shown) + ")", problems or None)
    # ---- (3) leaf recognition: the entries that read ONE pooled momentum directly are written iff all children are final
    pool = ("param", model["pool"])
    leaf = [st for st in model["stores"] if any(_is_call(st[2], n) for n in ("Phi", "Theta")) and st[2][2] and st[2][2][0][0] == "sub" and st[2][2][0][1] == pool]
    if not leaf:
        raise AnalysisError(f"{fn.qual}: no angle entry that is computed directly from one pooled momentum (the leaf case) was found")
    problems = []
    for pc, _key, _val, _eaches, node in leaf:
        quant = [(q, t, o) for t, o in pc for q in [_quantified(t, o)] if q is not None]
        others = [(t, o) for t, o in pc if _quantified(t, o) is None and not _is_call(t, "is_opposite_helicity_state")]
        if others:
            raise AnalysisError(f"{fn.qual}: the leaf entries are written under `{_show(others[0][0])}` is {others[0][1]}: not a test these rules understand")
        if len(quant) != 1:
            raise AnalysisError(f"{fn.qual}: the leaf entries are written under {len(quant)} all()/any() conditions (one expected)")
        kind, each, atom, pos = quant[0][0]
        subj = _none_test(atom)
        e2 = _edge_attr(subj) if subj is not None else None
        if e2 is None or e2[1] != each or not _children_of(each[1], model):
            raise AnalysisError(f"{fn.qual}: the leaf condition quantifies `{_show(atom)}` over `{_show(each[1])}`: not `edges[child].<node> is None` over the children of the node")
        if e2[2] != "ending_node_id":
            problems.append(f"the leaf case looks at `{e2[2]}` of the children")
        if kind != "all":
            problems.append("the leaf case applies as soon as SOME child is a final state")
        if not pos:
            problems.append("the leaf case applies when the children are NOT final states")
    where = tree.loc(leaf[0][4]) if hasattr(leaf[0][4], "lineno") else tree.loc(fn.node)
    ctx.verdict(not problems, "R-RECURSE", f"{qual}::leaf-test", where,
                "the leaf case (own angle pair from the pooled momentum of the helicity state) applies iff ALL children of the node are final states",
                sorted(set(problems)) or None)


def _split_conjunctions(pc) -> tuple:
    """(a and b) is True = a is True, b is True; (a or b) is False = a is False, b is False (tests in positive normal form)."""
    from ..symex import normal

    out = []
    for t, o in pc:
        if isinstance(t, tuple) and t and ((t[0] == "and" and o) or (t[0] == "or" and not o)):
            for x in t[1]:
                a, pos = normal(x)
                out += list(_split_conjunctions(((a, o if pos else not o),)))
        else:
            out.append((t, o))
    return tuple(out)


def _count_test(t, outcome: bool, is_subject):
    """">1" / "<=1" if the test (with this outcome) says that len(subject) is more than one / at most one; None otherwise."""
    from ..symex import is_const

    if not (isinstance(t, tuple) and t and t[0] == "cmp"):
        return None
    op, a, b = t[1], t[2], t[3]
    mirror = {"<": ">", ">": "<", "<=": ">=", ">=": "<=", "==": "=="}
    if is_const(a, int) and op in mirror:
        a, b, op = b, a, mirror[op]
    if not (isinstance(a, tuple) and a[0] == "call" and a[1] == ("builtin", "len") and len(a[2]) == 1 and is_subject(a[2][0]) and is_const(b, int)):
        return None
    k = b[1]
    more = {(">", 1): True, (">=", 2): True, ("<=", 1): False, ("<", 2): False, ("==", 1): False}.get((op, k))
    if more is None:
        return None
    return ">1" if more == outcome else "<=1"


def _shared_accumulator_returned(tree: Tree, fn, acc_names: set[str], kinds: dict[str, str]) -> None:
    """With one mapping shared by all activations: the enclosing producer must hand that mapping out.  Fails closed
    (AnalysisError) if that cannot be confirmed."""
    from ..dataflow import RD
    from ..prov import bind_call

    top = fn
    while top.outer is not None:
        top = top.outer
    producer = tree.func(f"{ANG}::compute_helicity_angles")
    rd = RD(producer.node)
    returned = set()
    for ret, defs in rd.returns:
        if ret.value is not None:
            returned |= {d.name for d in rd.closure(defs)}
    for name in acc_names:
        if kinds[name] == "closure":
            if name not in returned:
                raise AnalysisError(f"{producer.qual}: the recursion fills the enclosing mapping `{name}`, but that mapping does not reach the returned value")
        elif kinds[name] == "param":
            ok = False
            for call, q in tree.calls_in(producer, nested=False):
                if q == fn.qual:
                    bound = bind_call(fn, call) or {}
                    arg = bound.get(name)
                    if isinstance(arg, ast.Name) and arg.id in returned:
                        ok = True
            if not ok:
                raise AnalysisError(f"{producer.qual}: cannot confirm that the accumulator handed to {fn.name}() as `{name}` is what is returned")


def run(ctx: Check, tree: Tree) -> None:
    ctx.decided += [
        'R-FRAME (own pool): the pool handed to the recursion is the one boosted in the same activation, on every path',
        "R-PROV over every producer merged by HelicityAdapter.create_expressions: key identity reaches the value (names are a function of final-state ids only, so equal names then carry equal quantities across topologies)",
        "R-TERM: InvariantMass = ComplexSqrt(E^2 - |p|^2), Phi = atan2(p_y, p_x), Theta = acos(p_z/|p|), component slices 0,1,2,3,1:, norms; mass symbol naming and the mass store",
    ]
    ctx.decided += [
        "R-FRAME: the helicity frame of a decaying child is BoostZ(|P|/E) RotationY(-Theta(P)) RotationZ(-Phi(P)) of the child's summed momentum P, applied to the pooled momenta; the recursion descends with that boosted pool",
        "R-LITERALID: nothing on the naming / producing path compares an id with an integer literal; R-MEMO: a lazily computed attribute of HelicityAdapter is reset by every method that changes its inputs",
        "R-RECURSE: results of the recursion are merged into the returned mapping; descent iff the child decays further; leaf iff all children are final",
        "R-POOL: within one activation all momenta are read from the handed-in pool; it is never rebound or written (siblings do not see each other's frames)",
        "R-TERM (Dalitz): formulate_scattering_angle(i, j) equals acos of the (ij)-rest-frame geometry in Dalitz variables for all six ordered pairs, spectator = the third particle",
    ]
    ctx.not_decided += ["agreement with an independent boost-and-rotate implementation on events (numerical); the matrices BoostZMatrix/RotationY/Z themselves are decided under C08"]
    ctx.assumptions += ["qrules Topology.get_originating_final_state_edge_ids returns the final-state edges below a node"]
    producers = ctx.section(producers_of_adapter, ctx, tree) or []
    ctx.section(check_prov, ctx, tree, producers, min_stores=5)
    ctx.section(check_slices, ctx, tree)
    ctx.section(check_definitions, ctx, tree)
    ctx.section(check_mass_naming, ctx, tree)
    ctx.section(check_frame, ctx, tree)
    ctx.section(check_pool, ctx, tree)
    ctx.section(check_recursion_shape, ctx, tree)
    ctx.section(check_dalitz, ctx, tree)
    ctx.section(check_names_structural, ctx, tree)
    ctx.section(check_adapter_memo, ctx, tree)
    from .c04 import check_topology_helpers

    ctx.section(check_topology_helpers, ctx, tree)
