"""C07 - kinematic variables mean what their names say, in every topology.

R-PROV     every producer that feeds HelicityAdapter.create_expressions stores values whose
           provenance is the state that names them (hence one name = one quantity, and the
           last-writer-wins merge over a set of topologies is harmless).
R-TERM     definitions of InvariantMass / Phi / Theta / Energy / FourMomentumX,Y,Z /
           ThreeMomentum / EuclideanNorm[Squared]; naming of mass symbols.
"""

from __future__ import annotations

import ast

from ..inline import Inliner
from ..loader import AnalysisError, Tree, ancestors, unparse, walk_function
from ..poly import RF, D, equal, sqrt, sym
from ..report import Check
from ..terms import TermEval
from .c04 import check_frame, check_prov

PID = "C07"
ADAPTER = "ampform.kinematics::HelicityAdapter.create_expressions"
LOR = "ampform.kinematics.lorentz"
ANG = "ampform.kinematics.angles"
SLICES = {"Energy": "0", "FourMomentumX": "1", "FourMomentumY": "2", "FourMomentumZ": "3", "ThreeMomentum": "slice(1, None)"}


def _merged_calls(tree: Tree, fn, rd, expr: ast.AST, seen: set) -> list[ast.Call]:
    """Calls of package functions whose RESULT flows into the mapping ``expr`` as a whole: through local
    names (every reaching definition), ``M.update(x)`` / ``M |= x``, ``{**a, **b}``, ``a | b``, ``dict(x)``,
    ``x.copy()`` and conditional expressions.  (Single entries ``M[k] = v`` are stores, not merges.)"""
    out: list[ast.Call] = []
    if isinstance(expr, ast.Name):
        for d in rd.reaching(expr):
            if id(d) in seen:
                continue
            seen.add(id(d))
            if d.kind == "assign" and isinstance(d.value, ast.AST) and d.index is None:
                out += _merged_calls(tree, fn, rd, d.value, seen)
            elif d.kind in {"store", "aug"}:
                # a weak update of the mapping: what was merged before it stays merged
                out += _merged_calls_of_update(tree, fn, rd, d, seen)
        return out
    if isinstance(expr, ast.Call):
        callee = tree.callee(expr, fn)
        if callee and callee in tree.funcs:
            return [expr]
        f = expr.func
        if isinstance(f, ast.Name) and f.id in {"dict", "OrderedDict"} and len(expr.args) == 1:
            return _merged_calls(tree, fn, rd, expr.args[0], seen)
        if isinstance(f, ast.Attribute) and f.attr == "copy" and not expr.args:
            return _merged_calls(tree, fn, rd, f.value, seen)
        return out
    if isinstance(expr, ast.Dict):
        for k, v in zip(expr.keys, expr.values):
            if k is None:
                out += _merged_calls(tree, fn, rd, v, seen)
        return out
    if isinstance(expr, ast.BinOp) and isinstance(expr.op, ast.BitOr):
        return _merged_calls(tree, fn, rd, expr.left, seen) + _merged_calls(tree, fn, rd, expr.right, seen)
    if isinstance(expr, ast.IfExp):
        return _merged_calls(tree, fn, rd, expr.body, seen) + _merged_calls(tree, fn, rd, expr.orelse, seen)
    return out


def _merged_calls_of_update(tree: Tree, fn, rd, d, seen: set) -> list[ast.Call]:
    """What one weak update (`M.update(x)`, `M |= x`) merges into M (plus, transitively, the older updates)."""
    out: list[ast.Call] = []
    node = d.value if d.kind == "store" else d.node
    if isinstance(node, ast.Call) and isinstance(node.func, ast.Attribute) and node.func.attr == "update":
        for a in node.args:
            out += _merged_calls(tree, fn, rd, a, seen)
    elif isinstance(node, ast.AugAssign) and isinstance(node.op, ast.BitOr):
        out += _merged_calls(tree, fn, rd, node.value, seen)
    for older in d.deps:
        if older.name == d.name and id(older) not in seen:
            seen.add(id(older))
            if older.kind == "assign" and isinstance(older.value, ast.AST) and older.index is None:
                out += _merged_calls(tree, fn, rd, older.value, seen)
            elif older.kind in {"store", "aug"}:
                out += _merged_calls_of_update(tree, fn, rd, older, seen)
    return out


def producers_of_adapter(ctx: Check, tree: Tree) -> list[str]:
    """The functions whose returned mapping ends up (as a whole) in the mapping returned by
    HelicityAdapter.create_expressions - directly or through helpers that only forward / merge the
    mappings of others (the data flow is followed into every package function on the way)."""
    from ..dataflow import RD

    out: list[str] = []
    work = [ADAPTER]
    visited: set[str] = set()
    while work:
        q = work.pop(0)
        if q in visited:
            continue
        visited.add(q)
        fn = tree.func(q)
        rd = RD(fn.node)
        # what flows into the returned mapping, and (the mapping may be parked in an attribute first) what
        # any `M.update(x)` / `M |= x` of the function merges
        roots = [ret.value for ret, _ in rd.returns if ret.value is not None]
        for node in walk_function(fn.node, nested=False):
            if isinstance(node, ast.Call) and isinstance(node.func, ast.Attribute) and node.func.attr == "update":
                roots += node.args
            elif isinstance(node, ast.AugAssign) and isinstance(node.op, ast.BitOr):
                roots.append(node.value)
        calls = {id(c): c for r in roots for c in _merged_calls(tree, fn, rd, r, set())}
        for call in sorted(calls.values(), key=lambda c: (c.lineno, c.col_offset)):
            callee = tree.callee(call, fn)
            if callee not in out:
                out.append(callee)
            work.append(callee)
    # a nested function of a producer is analysed together with it (check_prov)
    out = [q for q in out if not any(q.startswith(o + ".") for o in out)]
    fn = tree.func(ADAPTER)
    if len(out) < 2:
        raise AnalysisError(f"{ADAPTER}: expected >= 2 producers merged into the returned mapping, found {out}")
    # the merge loop iterates the registered topologies (a set): record the sink
    loops = [n for n in walk_function(fn.node) if isinstance(n, ast.For)]
    ctx.info("R-PROV", tree.loc(loops[0]) if loops else tree.loc(fn.node),
             f"create_expressions merges {[p.split('::')[-1] for p in out]} of all registered topologies with dict.update (last writer wins): safe iff equal names carry equal quantities")
    return out


def check_slices(ctx: Check, tree: Tree) -> None:
    for cls_name, want in SLICES.items():
        mod = LOR
        cls = tree.cls(f"{mod}::{cls_name}")
        ev = cls.methods.get("evaluate")
        if ev is None:
            raise AnalysisError(f"vanished anchor: {cls_name}.evaluate")
        inl = Inliner(ev.node)
        ret = next(r for r in walk_function(ev.node) if isinstance(r, ast.Return))
        val = inl.expr(ret.value)
        ok = False
        got = unparse(val)
        if isinstance(val, ast.Call) and unparse(val.func) == "ArraySlice" and len(val.args) == 2:
            base, idx = val.args
            if unparse(base) in {"self.momentum", "self.args[0]"} and isinstance(idx, ast.Tuple) and len(idx.elts) == 2:
                ok = unparse(idx.elts[0]) == "slice(None)" and unparse(idx.elts[1]) == want
        ctx.verdict(ok, "R-TERM", f"{cls.qual}.evaluate::component", tree.loc(ev.node),
                    f"{cls_name}(p) == p[:, {want}]", None if ok else f"evaluate returns {got[:80]}")


def check_definitions(ctx: Check, tree: Tree) -> None:
    D.reset()
    te = TermEval(tree)
    p = sym("p")

    def C(name, *args, mod=LOR):
        return te.construct(f"{mod}::{name}", list(args), {})

    def unfolded(name, mod=LOR):
        return te.unfold_atom(te.single_atom(C(name, p, mod=mod)))

    norm = C("EuclideanNorm", C("ThreeMomentum", p))
    # InvariantMass
    got = unfolded("InvariantMass")
    want = te.app("ComplexSqrt", [C("Energy", p) ** 2 - norm**2])
    ok = isinstance(got, RF) and equal(got, want)
    cls = tree.cls(f"{LOR}::InvariantMass")
    ctx.verdict(ok, "R-TERM", f"{cls.qual}.evaluate", tree.loc(cls.node), "InvariantMass(p) == ComplexSqrt(Energy(p)^2 - |ThreeMomentum(p)|^2)",
                None if ok else repr(got)[:200])
    # EuclideanNorm / Squared
    v = sym("v")
    got = te.unfold_atom(te.single_atom(C("EuclideanNorm", v)))
    ok = isinstance(got, RF) and equal(got, sqrt(C("EuclideanNormSquared", v)))
    cls = tree.cls(f"{LOR}::EuclideanNorm")
    ctx.verdict(ok, "R-TERM", f"{cls.qual}.evaluate", tree.loc(cls.node), "EuclideanNorm(v) == sqrt(EuclideanNormSquared(v))")
    cls = tree.cls(f"{LOR}::EuclideanNormSquared")
    ev = cls.methods["evaluate"]
    ret = next(r for r in walk_function(ev.node) if isinstance(r, ast.Return))
    txt = unparse(ret.value).replace(" ", "")
    ok = txt in {"ArrayAxisSum(self.vector**2,axis=1)", "ArrayAxisSum(self.vector**2,1)"}
    ctx.verdict(ok, "R-TERM", f"{cls.qual}.evaluate", tree.loc(ev.node), "EuclideanNormSquared(v) == sum(v**2, axis=1)", None if ok else txt)
    # Phi / Theta
    got = unfolded("Phi", mod=ANG)
    want = te.app("atan2", [C("FourMomentumY", p), C("FourMomentumX", p)])
    ok = isinstance(got, RF) and equal(got, want)
    cls = tree.cls(f"{ANG}::Phi")
    ctx.verdict(ok, "R-TERM", f"{cls.qual}.evaluate", tree.loc(cls.node), "Phi(p) == atan2(p_y, p_x)", None if ok else repr(got)[:200])
    got = unfolded("Theta", mod=ANG)
    want = te.app("acos", [C("FourMomentumZ", p) / norm])
    ok = isinstance(got, RF) and equal(got, want)
    cls = tree.cls(f"{ANG}::Theta")
    ctx.verdict(ok, "R-TERM", f"{cls.qual}.evaluate", tree.loc(cls.node), "Theta(p) == acos(p_z / |ThreeMomentum(p)|)", None if ok else repr(got)[:200])


def _merge_literals(parts: list[tuple]) -> list[tuple]:
    out: list[tuple] = []
    for p in parts:
        if p[0] == "lit" and out and out[-1][0] == "lit":
            out[-1] = ("lit", out[-1][1] + p[1])
        elif p != ("lit", ""):
            out.append(p)
    return out


def _stringified_iterable(e: ast.AST) -> ast.AST | None:
    """X if ``e`` yields ``str(x)`` for every x of X in order: ``map(str, X)``, ``(str(i) for i in X)``,
    ``[str(i) for i in X]``, ``[f"{i}" for i in X]``."""
    if isinstance(e, ast.Call) and isinstance(e.func, ast.Name) and e.func.id == "map" and len(e.args) == 2 and not e.keywords \
            and isinstance(e.args[0], ast.Name) and e.args[0].id == "str":
        return e.args[1]
    if isinstance(e, (ast.GeneratorExp, ast.ListComp)) and len(e.generators) == 1:
        g = e.generators[0]
        if g.ifs or g.is_async or not isinstance(g.target, ast.Name):
            return None
        if string_parts(e.elt) == [("str", g.target.id)]:
            return g.iter
    return None


def string_parts(e: ast.AST) -> list[tuple] | None:
    """A str-valued expression as the concatenation it denotes, whatever it is spelled with (f-string,
    ``+``, ``str()``, ``sep.join`` over ``map(str, X)`` or a comprehension): a list of pieces
    ("lit", text) | ("str", <source of x>) for str(x) | ("join", sep, <source of X>) for sep.join(str(x) for x in X).
    None if the expression is not of that kind."""
    if isinstance(e, ast.Constant) and isinstance(e.value, str):
        return [("lit", e.value)]
    if isinstance(e, ast.JoinedStr):
        parts: list[tuple] = []
        for v in e.values:
            if isinstance(v, ast.Constant):
                parts.append(("lit", str(v.value)))
            elif isinstance(v, ast.FormattedValue) and v.format_spec is None and v.conversion in (-1, 115):
                parts += _parts_of_str(v.value)
            else:
                return None
        return _merge_literals(parts)
    if isinstance(e, ast.BinOp) and isinstance(e.op, ast.Add):
        left, right = string_parts(e.left), string_parts(e.right)
        if left is None or right is None:
            return None
        return _merge_literals(left + right)
    if isinstance(e, ast.Call) and not e.keywords and len(e.args) == 1:
        f = e.func
        if isinstance(f, ast.Attribute) and f.attr == "join" and isinstance(f.value, ast.Constant) and isinstance(f.value.value, str):
            src = _stringified_iterable(e.args[0])
            if src is not None:
                return [("join", f.value.value, unparse(src).replace(" ", ""))]
            return None
        if isinstance(f, ast.Name) and f.id == "str":
            return _parts_of_str(e.args[0])
    return None


def _parts_of_str(x: ast.AST) -> list[tuple]:
    """Pieces of ``str(x)`` / ``f"{x}"``: a string expression is its own str()."""
    inner = string_parts(x)
    if inner is not None:
        return inner
    return [("str", unparse(x).replace(" ", ""))]


def check_mass_naming(ctx: Check, tree: Tree) -> None:
    fn = tree.func(f"{LOR}::get_invariant_mass_symbol")
    inl = Inliner(fn.node)
    ret = next(r for r in walk_function(fn.node) if isinstance(r, ast.Return))
    val = inl.expr(ret.value)
    txt = unparse(val).replace(" ", "")
    ok = False
    if isinstance(val, ast.Call) and tree.resolve(fn.module, val.func, fn) == "sympy.Symbol" and len(val.args) == 1 and len(fn.params) >= 2:
        topo, state = fn.params[:2]
        name = string_parts(val.args[0])
        kw = {k.arg: k.value for k in val.keywords}
        ok = (name == [("lit", "m_"), ("join", "", f"sorted(determine_attached_final_state({topo},{state}))")]
              and isinstance(kw.get("nonnegative"), ast.Constant) and kw["nonnegative"].value is True)
    ctx.verdict(ok, "R-TERM", f"{fn.qual}::name", tree.loc(fn.node),
                "get_invariant_mass_symbol: name = 'm_' + sorted attached final-state ids of that state, nonnegative", None if ok else txt[:200])
    cm = tree.func(f"{LOR}::compute_invariant_masses")
    inl = Inliner(cm.node)
    stores = [n for n in walk_function(cm.node) if isinstance(n, ast.Assign) and isinstance(n.targets[0], ast.Subscript)]
    comps = [n for n in walk_function(cm.node) if isinstance(n, ast.DictComp)]
    if len(stores) + len(comps) != 1:
        raise AnalysisError("compute_invariant_masses: expected one store (a subscript assignment in a loop or one dict comprehension)")
    from ..canon import canon, local_names

    locs = local_names(cm.node)
    mapping: dict = {}
    if stores:
        st = stores[0]
        key_e, val_e = st.targets[0].slice, st.value
        loop = next((a for a in ancestors(st) if isinstance(a, ast.For)), None)
        loop_iter, loop_target, filtered = (loop.iter, loop.target, any(isinstance(a, ast.If) for a in ancestors(st))) if loop is not None else (None, None, False)
    else:
        st = comps[0]
        key_e, val_e = st.key, st.value
        gen = st.generators[0]
        loop_iter, loop_target, filtered = gen.iter, gen.target, bool(gen.ifs) or len(st.generators) != 1
    key = canon(inl.expr(key_e), locs, mapping).replace(" ", "")
    val = canon(inl.expr(val_e), locs, mapping).replace(" ", "")
    ok = val == "InvariantMass(ArraySum(*[four_momenta[_1]for_1indetermine_attached_final_state(topology,_0)]))" and key == "get_invariant_mass_symbol(topology,_0)"
    ctx.verdict(ok, "R-TERM", f"{cm.qual}::store", tree.loc(st),
                "compute_invariant_masses: m_<ids of state> := InvariantMass(sum of the momenta of exactly those ids), for every edge of the topology",
                None if ok else {"key": key[:120], "value": val[:160]})
    ok = loop_iter is not None and unparse(loop_iter) in {"topology.edges", "topology.edges.keys()", "topology.edges.items()"} and not filtered
    ctx.verdict(ok, "R-TERM", f"{cm.qual}::all-edges", tree.loc(st), "compute_invariant_masses iterates all edges of the topology")
    # attached final state: the id itself for a final state, else the sorted originating final-state ids
    da = tree.func("ampform.helicity.decay::determine_attached_final_state")
    dinl = Inliner(da.node)
    rets = [unparse(dinl.expr(r.value)).replace(" ", "") for r in walk_function(da.node) if isinstance(r, ast.Return)]
    ok = rets == ["[state_id]", "sorted(topology.get_originating_final_state_edge_ids(topology.edges[state_id].ending_node_id))"]
    ctx.verdict(ok, "R-TERM", f"{da.qual}::definition", tree.loc(da.node), "determine_attached_final_state: [id] for a final state, else sorted final-state ids below its ending node", None if ok else rets)


def check_pool(ctx: Check, tree: Tree) -> None:
    """R-POOL: inside one activation of the recursion every momentum is read from the pool
    that was handed in (the rest frame of the node being processed).  The boosted pool of a
    decaying child is a new object that only the recursive call for that child receives;
    rebinding or writing the handed-in pool inside the loop over the children would make the
    second decaying child (two-resonance topologies, e.g. (01)(23)) work in the first
    child's helicity frame."""
    from ..prov import _rd_for

    fn = tree.func(f"{ANG}::compute_helicity_angles.__recursive_helicity_angles")
    rd = _rd_for(fn, {})
    if not fn.params:
        raise AnalysisError(f"{fn.qual}: no momentum-pool parameter")
    pool = fn.params[0]
    pdefs = [d for d in rd.defs if d.kind == "param" and d.name == pool]
    if len(pdefs) != 1:
        raise AnalysisError(f"{fn.qual}: parameter definition of `{pool}` not found")
    pdef = pdefs[0]

    def is_alias(d, depth=0) -> bool:
        if d is pdef:
            return True
        if depth > 4 or d.kind != "assign" or not isinstance(d.value, ast.Name):
            return False
        return all(is_alias(x, depth + 1) for x in rd.reaching(d.value)) and bool(rd.reaching(d.value))

    reads = bad = 0
    for n in walk_function(fn.node):
        if not (isinstance(n, ast.Name) and isinstance(n.ctx, ast.Load)):
            continue
        reach = rd.reaching(n)
        if not any(is_alias(d) for d in reach):
            continue
        reads += 1
        foreign = [d for d in reach if not is_alias(d)]
        if foreign:
            bad += 1
            d = foreign[0]
            what = unparse(d.node)[:70] if isinstance(d.node, ast.AST) else d.kind
            ctx.violation("R-POOL", f"{fn.qual}::pool-read-sees::{d.kind}", tree.loc(n),
                          f"`{n.id}` read here may be the handed-in momentum pool or the result of `{what}` (line {getattr(d.node, 'lineno', '?')})",
                          "the pool of the node being processed is rebound / written inside the loop over its children: the next decaying child is evaluated in its sibling's helicity frame")
    if reads < 2:
        raise AnalysisError(f"{fn.qual}: only {reads} reads of the momentum pool found (3 confirmed)")
    if not bad:
        ctx.ok("R-POOL", tree.loc(fn.node), f"all {reads} reads of the momentum pool `{pool}` in one activation see only the handed-in pool (never rebound or written)")


def check_dalitz(ctx: Check, tree: Tree) -> None:
    """R-TERM: formulate_scattering_angle(i, j) is the polar helicity angle of particle i in the
    (ij) rest frame, written in Dalitz variables.  Reference (geometry, not the code): in the
    (ij) frame with s_k=(p_i+p_j)^2: E_i=(s_k+m_i^2-m_j^2)/(2 sqrt s_k), E_k=(M^2-s_k-m_k^2)/(2 sqrt s_k),
    |p_i|=sqrt(Kallen(s_k,m_i^2,m_j^2))/(2 sqrt s_k), |p_k|=sqrt(Kallen(M^2,m_k^2,s_k))/(2 sqrt s_k), and
    s_j=(p_i+p_k)^2=m_i^2+m_k^2+2E_iE_k+2|p_i||p_k|cos(theta) because the helicity axis is -p_k."""
    fn = tree.func(f"{ANG}::formulate_scattering_angle")
    D.reset()
    te = TermEval(tree)
    two = RF.const(2)

    def comp(i):
        return "".join(str(x) for x in sorted({1, 2, 3} - {i}))

    def kallen(x, y, z):
        return x**2 + y**2 + z**2 - two * x * y - two * y * z - two * z * x

    for i, j in [(1, 2), (2, 3), (3, 1), (1, 3), (2, 1), (3, 2)]:
        key = f"{fn.qual}::({i},{j})"
        try:
            res = te.eval_function(fn, [RF.const(i), RF.const(j)])
        except AnalysisError as exc:
            if type(exc).__name__ == "RaisedError":
                ctx.violation("R-TERM", key + "::raises", tree.loc(fn.node), f"formulate_scattering_angle({i}, {j}) raises", str(exc)[:200])
                continue
            raise
        items = getattr(res, "items", None)
        if not items or len(items) != 2:
            raise AnalysisError(f"{fn.qual}: does not return (symbol, expression)")
        s, th = items
        atom = te.single_atom(th) if isinstance(th, RF) else None
        info = te.apps.get(atom) if atom is not None else None
        if info is None or info.cls != "acos":
            ctx.violation("R-TERM", key + "::acos", tree.loc(fn.node), f"formulate_scattering_angle({i}, {j}) is not acos(...)", repr(th)[:120])
            continue
        got = te.unfold(info.args[0])
        k = ({1, 2, 3} - {i, j}).pop()
        m0, mi, mj, mk = sym("m_0"), sym(f"m_{i}"), sym(f"m_{j}"), sym(f"m_{k}")
        sj, sk = sym(f"m_{comp(j)}") ** 2, sym(f"m_{comp(k)}") ** 2
        e_i = sk + mi**2 - mj**2  # 2 sqrt(s_k) E_i
        e_k = m0**2 - sk - mk**2  # 2 sqrt(s_k) E_k
        want = (two * sk * (sj - mi**2 - mk**2) - e_i * e_k) / (sqrt(kallen(m0**2, mk**2, sk)) * sqrt(kallen(sk, mi**2, mj**2)))
        ok = equal(got, want) and isinstance(s, RF) and equal(s, sym(f"theta_{i}{j}"))
        ctx.verdict(ok, "R-TERM", key, tree.loc(fn.node),
                    f"formulate_scattering_angle({i}, {j}) == acos of the (ij)-frame geometry with spectator {k}: [2 s_k (s_j - m_i^2 - m_k^2) - (s_k + m_i^2 - m_j^2)(M^2 - s_k - m_k^2)] / [sqrt Kallen(M^2, m_k^2, s_k) sqrt Kallen(s_k, m_i^2, m_j^2)]",
                    None if ok else {"got": repr(got)[:300], "symbol": repr(s)})


def check_names_structural(ctx: Check, tree: Tree) -> None:
    """R-LITERALID: the name of a kinematic variable is a function of the topology's structure.
    Nothing reachable from the naming / producing functions compares a state, edge or node id with
    an integer literal (qrules numbers the initial state -1 by default, but relabelled topologies -
    the library's own relabel_edge_ids for the DPD alignment, user permutations - use other ids; the
    initial edge is `topology.incoming_edge_ids`)."""
    from ..rules import literal_id_comparisons

    roots = ["ampform.helicity.naming::get_helicity_angle_symbols", "ampform.helicity.naming::get_boost_chain_suffix",
             f"{LOR}::get_invariant_mass_symbol", f"{ANG}::compute_helicity_angles", f"{LOR}::compute_invariant_masses"]
    graph = tree.call_graph()
    reach: set[str] = set()
    for r in roots:
        if r not in tree.funcs:
            raise AnalysisError(f"vanished anchor: {r}")
        reach |= tree.reachable(r, graph)
    reach = {q for q in reach if q in tree.funcs}
    hits, _ = literal_id_comparisons(tree, ("ampform.",))
    tops = set()
    for q in reach:
        f = tree.funcs[q]
        while f.outer is not None:
            f = f.outer
        tops.add(f.qual)
    bad = [h for h in hits if h["fn"].qual in tops]
    for h in bad:
        ctx.violation("R-LITERALID", f"{h['fn'].qual}::{canon_cmp(h['node'])}", tree.loc(h["node"]),
                      f"{h['fn'].qual}: `{unparse(h['node'])}` compares an id with the literal {h['literal']} on the path that names / computes kinematic variables",
                      "for a relabelled topology (initial state not -1) the names differ from the documented ones and no longer describe the quantity that is computed")
    if len(reach) < 8:
        raise AnalysisError(f"only {len(reach)} functions reachable from the naming / producing functions (call graph degraded)")
    if not bad:
        ctx.ok("R-LITERALID", "src/ampform/helicity/naming.py", f"{len(reach)} functions reachable from the naming and producing functions of kinematic variables: no comparison of an id with an integer literal")


def canon_cmp(node: ast.AST) -> str:
    import re

    return re.sub(r"\s+", "", unparse(node))[:60]


def check_adapter_memo(ctx: Check, tree: Tree) -> None:
    """R-MEMO: if HelicityAdapter keeps a lazily computed attribute (`if self.A is None: self.A = ...`)
    that is derived from other attributes (the registered topologies), every method that changes
    such an input resets the attribute - otherwise create_expressions() keeps answering for the
    topologies of an earlier registration state."""
    from ..rules import memo_invalidation

    cls_q = "ampform.kinematics::HelicityAdapter"
    if cls_q not in tree.classes:
        raise AnalysisError("vanished anchor: HelicityAdapter")
    rows = memo_invalidation(tree, cls_q)
    if not rows:
        ctx.ok("R-MEMO", tree.loc(tree.classes[cls_q].node), "HelicityAdapter keeps no lazily computed attribute: create_expressions() always reflects the registered topologies")
        return
    for r in rows:
        ctx.verdict(r["resets"], "R-MEMO", f"{r['writer'].qual}::stale `{r['memo']}`", tree.loc(r["writer"].node),
                    f"{r['writer'].qual} changes {r['touched']} and resets the memo `{r['memo']}` computed in {r['computed_in'].name}",
                    None if r["resets"] else f"`{r['memo']}` is derived from {r['touched']} but survives this change: later calls of {r['computed_in'].name}() miss the variables of the new topologies")


def check_recursion_shape(ctx: Check, tree: Tree) -> None:
    """R-RECURSE: the angle dictionary of a node is the union of its own angle pairs and the
    dictionaries of all decaying children: (1) the value of every recursive call is merged into the
    returned mapping; (2) a child is descended into iff it decays further (ending_node_id is not
    None) and has more than one final state below it; (3) the two-final-state leaf is recognised by
    `ending_node_id is None` for all children."""
    from ..prov import _rd_for

    fn = tree.func(f"{ANG}::compute_helicity_angles.__recursive_helicity_angles")
    rd = _rd_for(fn, {})
    rec = [c for c in walk_function(fn.node) if isinstance(c, ast.Call) and isinstance(c.func, ast.Name) and c.func.id == fn.name]
    if not rec:
        raise AnalysisError(f"{fn.qual}: no recursive call")
    returned = set()
    for ret, _ in rd.returns:
        if ret.value is not None:
            returned |= {n.id for n in ast.walk(ret.value) if isinstance(n, ast.Name)}
    for c in rec:
        merged = False
        par = getattr(c, "_parent", None)
        # direct: R.update(rec(...)) / return {**R, **rec(...)}
        for a in ancestors(c):
            if isinstance(a, ast.Call) and isinstance(a.func, ast.Attribute) and a.func.attr == "update" and isinstance(a.func.value, ast.Name) and a.func.value.id in returned:
                merged = True
            if isinstance(a, ast.Return):
                merged = True
        # via a local: x = rec(...); R.update(x)
        for d in rd.defs:
            if d.value is c:
                for node in walk_function(fn.node):
                    if isinstance(node, ast.Call) and isinstance(node.func, ast.Attribute) and node.func.attr == "update" and isinstance(node.func.value, ast.Name) and node.func.value.id in returned:
                        if any(isinstance(n, ast.Name) and d in rd.reaching(n) for a_ in node.args for n in ast.walk(a_)):
                            merged = True
                    if isinstance(node, ast.AugAssign) and isinstance(node.op, ast.BitOr) and isinstance(node.target, ast.Name) and node.target.id in returned:
                        if any(isinstance(n, ast.Name) and d in rd.reaching(n) for n in ast.walk(node.value)):
                            merged = True
        ctx.verdict(merged, "R-RECURSE", f"{fn.qual}::recursive-result-merged", tree.loc(c),
                    "the angles of the sub-tree (value of the recursive call) are merged into the returned mapping",
                    None if merged else "the result of the recursion is dropped: angles below this node are never defined")
        # (2) guards of the descent
        guards = [a for a in ancestors(c) if isinstance(a, ast.If)]
        gtxt = [unparse(g.test).replace(" ", "") for g in guards]
        decays = any(t.endswith(".ending_node_idisnotNone") for t in gtxt)
        many = any(t.startswith("len(") and t.endswith(")>1") for t in gtxt) or any(t.startswith("len(") and t.endswith(")>=2") for t in gtxt)
        extra = [unparse(g.test) for g, t in zip(guards, gtxt) if not (t.endswith(".ending_node_idisnotNone") or (t.startswith("len(") and (t.endswith(")>1") or t.endswith(")>=2"))))]
        ok = decays and not extra
        ctx.verdict(ok, "R-RECURSE", f"{fn.qual}::descent-guard", tree.loc(c),
                    "a child is descended into iff it decays further (`ending_node_id is not None`" + (", more than one final state below it" if many else "") + ")",
                    None if ok else {"guards": [unparse(g.test) for g in guards]})
    # (3) leaf recognition
    leaf = [n for n in walk_function(fn.node) if isinstance(n, ast.If) and isinstance(n.test, ast.Call) and unparse(n.test.func) == "all"]
    ok = False
    if len(leaf) == 1 and leaf[0].test.args and isinstance(leaf[0].test.args[0], ast.GeneratorExp):
        g = leaf[0].test.args[0]
        t = unparse(g.elt).replace(" ", "")
        it = g.generators[0].iter
        over_children = any(d.value is not None and "get_edge_ids_outgoing_from_node" in unparse(d.value) for d in rd.closure(rd.uses(it)))
        ok = t.endswith(".ending_node_idisNone") and over_children and not g.generators[0].ifs
    ctx.verdict(ok, "R-RECURSE", f"{fn.qual}::leaf-test", tree.loc(leaf[0]) if leaf else tree.loc(fn.node),
                "the leaf case (own angle pair from the pooled momentum of the helicity state) applies iff ALL children of the node are final states")


def run(ctx: Check, tree: Tree) -> None:
    ctx.decided += [
        'R-FRAME (own pool): the pool handed to the recursion is the one boosted in the same activation, on every path',
        "R-PROV over every producer merged by HelicityAdapter.create_expressions: key identity reaches the value (names are a function of final-state ids only, so equal names then carry equal quantities across topologies)",
        "R-TERM: InvariantMass = ComplexSqrt(E^2 - |p|^2), Phi = atan2(p_y, p_x), Theta = acos(p_z/|p|), component slices 0,1,2,3,1:, norms; mass symbol naming and the mass store",
    ]
    ctx.decided += [
        "R-FRAME: the helicity frame of a decaying child is BoostZ(|P|/E) RotationY(-Theta(P)) RotationZ(-Phi(P)) of the child's summed momentum P, applied to the pooled momenta; the recursion descends with that boosted pool",
        "R-LITERALID: nothing on the naming / producing path compares an id with an integer literal; R-MEMO: a lazily computed attribute of HelicityAdapter is reset by every method that changes its inputs",
        "R-RECURSE: results of the recursion are merged into the returned mapping; descent iff the child decays further; leaf iff all children are final",
        "R-POOL: within one activation all momenta are read from the handed-in pool; it is never rebound or written (siblings do not see each other's frames)",
        "R-TERM (Dalitz): formulate_scattering_angle(i, j) equals acos of the (ij)-rest-frame geometry in Dalitz variables for all six ordered pairs, spectator = the third particle",
    ]
    ctx.not_decided += ["agreement with an independent boost-and-rotate implementation on events (numerical); the matrices BoostZMatrix/RotationY/Z themselves are decided under C08"]
    ctx.assumptions += ["qrules Topology.get_originating_final_state_edge_ids returns the final-state edges below a node"]
    producers = ctx.section(producers_of_adapter, ctx, tree) or []
    ctx.section(check_prov, ctx, tree, producers, min_stores=5)
    ctx.section(check_slices, ctx, tree)
    ctx.section(check_definitions, ctx, tree)
    ctx.section(check_mass_naming, ctx, tree)
    ctx.section(check_frame, ctx, tree)
    ctx.section(check_pool, ctx, tree)
    ctx.section(check_recursion_shape, ctx, tree)
    ctx.section(check_dalitz, ctx, tree)
    ctx.section(check_names_structural, ctx, tree)
    ctx.section(check_adapter_memo, ctx, tree)
    from .c04 import check_topology_helpers

    ctx.section(check_topology_helpers, ctx, tree)
