"""C14 - unevaluated expressions obey substitution, equality and folding laws.

Decides (structurally): R-SHALLOW on the reconstruction hooks installed by the
decorator, R-ARITY on every ``... = self.args`` unpacking, the hash/equality hook,
the conditional installation of the substitution hooks, R-ONEDEF for classes that
both unfold and print themselves.
"""

from __future__ import annotations

import ast

from ..exprmodel import IMPLEMENT_NEW, expression_classes, handwritten_expr_classes, installed_hooks
from ..loader import AnalysisError, Tree, unparse, walk_function
from ..report import Check
from ..rules import (
    DEEP_SOURCES,
    MObj,
    ModelExec,
    ModelRaise,
    argument_sources,
    check_arity,
    reach_functions,
    self_args_unpackings,
)

PID = "C14"
MIN_CLASSES = 30  # 35 decorated classes on the pinned tree
MIN_UNPACK = 14  # 16 unpack sites in decorated classes on the pinned tree
MIN_NESTED = 8  # nested expression-class constructions (non-vacuity of R-SHALLOW)


def check_shallow_hooks(ctx: Check, tree: Tree, hook_names: list[str], need_complete: bool) -> None:
    """R-SHALLOW: the hooks must take the instance's arguments from a shallow and
    complete source."""
    hooks = installed_hooks(tree)
    impl = tree.func(IMPLEMENT_NEW)
    for attr in hook_names:
        if attr not in hooks:
            if attr in {"_eval_subs", "_xreplace"}:
                ctx.violation(
                    "R-HOOKS",
                    f"{IMPLEMENT_NEW}::missing hook {attr}",
                    tree.loc(impl.node),
                    f"_implement_new_method installs no {attr}: Basic.{attr} rebuilds with self.func(*self.args) and loses non-SymPy attributes",
                )
            else:
                raise AnalysisError(f"vanished anchor: hook {attr} is not installed by _implement_new_method")
            continue
        value, _cond, resolved = hooks[attr]
        where = tree.loc(value)
        what = f"cls.{attr} = {unparse(value)}"
        if resolved in DEEP_SOURCES:
            ctx.violation(
                "R-SHALLOW",
                f"{IMPLEMENT_NEW}::cls.{attr}->{resolved}",
                where,
                f"{what}  (resolves to {resolved})",
                {"deep_source": resolved, "why": DEEP_SOURCES[resolved], "path": [IMPLEMENT_NEW, resolved]},
            )
            continue
        if resolved is None or resolved not in tree.funcs:
            raise AnalysisError(f"hook {attr} = {unparse(value)} cannot be resolved to a function ({resolved})")
        bad = False
        sources = []
        for fn, path in reach_functions(tree, tree.funcs[resolved], depth=3):
            for src in argument_sources(tree, fn):
                sources.append((src, fn, path))
        for src, fn, path in sources:
            if src["kind"] == "deep":
                bad = True
                ctx.violation(
                    "R-SHALLOW",
                    f"{IMPLEMENT_NEW}::cls.{attr}->{src['callee']}",
                    tree.loc(src["node"]),
                    f"{what}: {fn.qual} reads the arguments with {unparse(src['node'])} (= {src['callee']})",
                    {"deep_source": src["callee"], "why": DEEP_SOURCES[src["callee"]], "path": list(path)},
                )
        for src, fn, path in sources:
            if src["kind"] == "getter-arity":
                bad = True
                from ..exprmodel import expression_classes

                single = sorted(c.qual.split("::")[-1] for c in expression_classes(tree).values() if len(c.fields) == 1)
                ctx.violation(
                    "R-SHALLOW",
                    f"{IMPLEMENT_NEW}::cls.{attr}->{src['callee']}::arity",
                    tree.loc(src["node"]),
                    f"{what}: {fn.qual} reads the fields with {unparse(src['node'])[:70]} - for a class with ONE field that is the bare value, not a 1-tuple",
                    {"why": "the hooks rebuild with cls(*arguments): a bare expression is unpacked (or fails to)", "one_field_classes": single[:8], "n_one_field_classes": len(single), "path": list(path)},
                )
        if bad:
            continue
        shallow = [s for s in sources if s[0]["kind"] in {"args", "fields"}]
        if not shallow:
            raise AnalysisError(
                f"hook {attr} -> {resolved}: no recognised source of the instance's arguments (shape outside the rule's grammar)"
            )
        if need_complete:
            complete = [s for s in shallow if s[0]["kind"] == "fields" and not s[0]["filtered"]]
            if not complete:
                src, fn, _ = shallow[0]
                ctx.violation(
                    "R-COMPLETE",
                    f"{IMPLEMENT_NEW}::cls.{attr}::incomplete",
                    tree.loc(src["node"]),
                    f"{what}: arguments read from {unparse(src['node'])[:80]} omit the non-SymPy fields, but the object is rebuilt with all fields",
                )
                continue
        ctx.ok("R-SHALLOW", where, f"{what}: shallow source {unparse(shallow[0][0]['node'])[:70]} in {shallow[0][1].qual}")


def check_precedence(ctx: Check, tree: Tree, prefixes: tuple[str, ...]) -> int:
    """R-PREC over the printer methods of the given modules."""
    from ..rules import precedence_hazards, printer_methods

    n = 0
    for fn in sorted(printer_methods(tree), key=lambda f: f.qual):
        if not fn.qual.startswith(prefixes):
            continue
        n += 1
        hz = precedence_hazards(tree, fn)
        if hz:
            hole, why = hz[0]
            # key: the field of the class that the placeholder prints (not the name of the local that holds it)
            label = unparse(hole)
            try:
                from ..rules import self_args_unpackings
                from ..exprmodel import expression_classes

                ec = expression_classes(tree).get(fn.cls.qual) if fn.cls is not None else None
                if ec is not None and isinstance(hole, ast.Name):
                    for _st, elts, _ in self_args_unpackings(fn):
                        for e, f_ in zip(elts, [x.name for x in ec.sympy_fields]):
                            if isinstance(e, ast.Name) and e.id == hole.id:
                                label = f"field {f_}"
                    # `x = printer._print(self.<field>)`: the same field reached by attribute
                    from ..dataflow import RD as _RD

                    for d in _RD(fn.node).reaching(hole):
                        v = d.value
                        if isinstance(v, ast.Call) and v.args and isinstance(v.args[0], ast.Attribute) and isinstance(v.args[0].value, ast.Name) and v.args[0].value.id == "self" \
                                and v.args[0].attr in {x.name for x in ec.fields}:
                            label = f"field {v.args[0].attr}"
            except Exception:  # noqa: BLE001
                pass
            ctx.violation("R-PREC", f"{fn.qual}::precedence::{label}", tree.loc(hole), f"{fn.qual}: {why}",
                          "printer._print returns e.g. `a + b` for a sum without parentheses: `-{x}` / `{x}**2` / `{x} * c` then bind to the last term only, "
                          "so the generated code of the folded form computes something else than the unfolded expression for compound arguments")
        else:
            ctx.ok("R-PREC", tree.loc(fn.node), f"{fn.qual}: no printed sub-expression sits unparenthesised next to a tighter-binding operator")
    return n


# ---------------------------------------------------------------------------- the substitution hooks on a model
#
# R-DESCEND and R-PROPAGATE state what `_xreplace` / `_eval_subs` return for which instance and rule.  The
# hooks are interpreted (sa/rules.py ModelExec; helper functions of the package are entered) on model
# instances with up to three field values of every kind that matters - an expression that reports a
# replacement, one that does not, an expression kept in a non-SymPy field, a plain attribute value that
# is / is not a key of the rule, a class object that merely HAS the method - and compared with what the
# specification returns for the same model.  How the loop is spelt does not matter.

_MOD = "ampform.sympy._decorator"
_FREE_SYMBOL_VIEWS = ("free_symbols", "atoms", "has", "find")


class _Scenario:
    """One model instance of an @unevaluated class together with a substitution request."""

    def __init__(self, kinds: tuple[str, ...]) -> None:
        self.kinds = kinds
        self.visits: dict[int, list] = {}
        self.values: list[MObj] = []
        self.results: dict[int, MObj] = {}
        self.bad_calls: list[str] = []
        fields = []
        for i, kind in enumerate(kinds):
            sympify = kind in {"expr-hit", "expr-miss"}
            fields.append(MObj(f"field a{i}", {"name": f"a{i}", "metadata": {"sympify": sympify}}, kinds={"Field"}))
            if kind.startswith("expr") or kind.startswith("attr-expr"):
                v = MObj(f"a{i}: expression ({kind})", kinds={"expr"})
                v.attrs["__lacks__"] = ()
            elif kind.startswith("class"):
                v = MObj(f"a{i}: class object ({kind})", kinds={"class"}, open=False)
            else:
                v = MObj(f"a{i}: plain value ({kind})", kinds={"plain"}, open=False)
            self.values.append(v)
        self.me = MObj("self", kinds={"expr"})
        self.me.attrs.update({f"a{i}": v for i, v in enumerate(self.values)})
        self.me.attrs.update({
            "__dataclass_fields__": fields,
            "args": tuple(v for v, f in zip(self.values, fields) if f.attrs["metadata"]["sympify"]),
            "func": self._rebuild,
            "is_Mul": False,
            "free_symbols": set(),
            "atoms": lambda a, k: set(),
            "has": lambda a, k: False,
            "find": lambda a, k: set(),
        })

    @staticmethod
    def _rebuild(args, kwargs):
        return MObj("self.func(" + ", ".join(map(repr, args)) + ")", {"__rebuilt__": (tuple(args), dict(kwargs)), "is_Mul": False}, kinds={"expr"})

    def describe(self) -> str:
        return "(" + ", ".join(self.kinds) + ")"


def _same_object(got, want) -> bool:
    if isinstance(want, tuple) and want and want[0] == "rebuilt":
        if not (isinstance(got, MObj) and "__rebuilt__" in got.attrs):
            return False
        args, kwargs = got.attrs["__rebuilt__"]
        return not kwargs and len(args) == len(want[1]) and all(x is y for x, y in zip(args, want[1]))
    return got is want


def _show(v) -> str:
    if isinstance(v, tuple) and v and v[0] == "rebuilt":
        return "self.func(" + ", ".join(map(repr, v[1])) + ")"
    if isinstance(v, tuple) and v and v[0] == "raises":
        return f"raises {v[1]}"
    if isinstance(v, tuple):
        return "(" + ", ".join(_show(x) for x in v) + ")"
    return repr(v)


def _xreplace_scenarios():
    import itertools

    kinds = ("expr-hit", "expr-miss", "attr-expr-hit", "plain-in", "plain-out", "class-in", "class-out")
    outside = tuple(k for k in kinds if not k.endswith("-in"))
    for rule_kind in ("mapping", "mapping with self as key", "empty mapping", "not a Mapping"):
        pool = kinds if rule_kind.startswith("mapping") else outside
        for n in range(4 if rule_kind == "mapping" else 3):
            for combo in itertools.product(pool, repeat=n):
                yield rule_kind, combo


def _run_xreplace(tree: Tree, fn, rule_kind: str, combo: tuple[str, ...]):
    """(scenario, outcome, expected, arguments that had to be descended into)."""
    sc = _Scenario(combo)
    keys = {v: MObj(f"rule[a{i}]") for i, (v, k) in enumerate(zip(sc.values, combo)) if k.endswith("-in")}
    dummy = MObj("some sub-expression (a key that is no free symbol)")
    if rule_kind == "empty mapping":
        rule: object = {}
    elif rule_kind == "not a Mapping":
        rule = MObj("rule (not a Mapping)", {"__contains__": lambda a, k: a[0] in keys, "__getitem__": lambda a, k: keys[a[0]], "__bool__": lambda a, k: True,
                                                "__iter__": lambda a, k: [dummy, *keys], "__len__": lambda a, k: len(keys) + 1}, kinds={"rule"})
    else:
        rule = {dummy: MObj("its replacement"), **keys}
        if rule_kind == "mapping with self as key":
            rule[sc.me] = MObj("rule[self]")
    for i, (v, kind) in enumerate(zip(sc.values, combo)):
        if "expr" in kind:
            new = MObj(f"a{i} with the rule applied") if kind.endswith("hit") else v
            sc.results[i] = new

            def xreplace(a, k, i=i, v=v, new=new):
                sc.visits.setdefault(i, []).append(a)
                if k or len(a) != 1 or a[0] is not rule:
                    sc.bad_calls.append(f"a{i}._xreplace({', '.join(map(repr, a))}) is not called with the rule")
                return (new, new is not v)

            v.attrs["_xreplace"] = xreplace
        elif kind.startswith("class"):
            def unbound(a, k):
                raise ModelRaise("TypeError", "_xreplace() of a class object called without an instance")

            v.attrs["_xreplace"] = unbound
    # specification
    if rule_kind == "mapping with self as key":
        want = (rule[sc.me], True)
        must_visit: list[int] = []
    elif rule_kind == "empty mapping":
        want = (sc.me, False)
        must_visit = []
    else:
        results, flags = [], []
        for i, (v, kind) in enumerate(zip(sc.values, combo)):
            if "expr" in kind:
                results.append(sc.results[i])
                flags.append(sc.results[i] is not v)
            elif isinstance(rule, dict):
                results.append(rule.get(v, v))
                flags.append(v in rule)
            else:
                results.append(v)
                flags.append(False)
        want = ((("rebuilt", results), True) if any(flags) else (sc.me, False))
        must_visit = [i for i, kind in enumerate(combo) if "expr" in kind]
    ex = ModelExec(tree)
    try:
        got = ex.call_function(fn, [sc.me, rule])
    except ModelRaise as exc:
        got = ("raises", str(exc))
    return sc, got, want, must_visit


def _outcome_ok_pair(got, want) -> bool:
    return isinstance(got, tuple) and len(got) == 2 and got[0] != "raises" and isinstance(got[1], bool) and got[1] is want[1] and _same_object(got[0], want[0])


def _subs_scenarios():
    import itertools

    kinds = ("expr-hit", "expr-miss", "attr-expr-hit", "plain", "class")
    for n in range(4):
        for combo in itertools.product(kinds, repeat=n):
            for hints in ({}, {"hack2": True}) if n < 3 else ({},):
                yield combo, hints


def _run_subs(tree: Tree, fn, combo: tuple[str, ...], hints: dict):
    sc = _Scenario(combo)
    old, new = MObj("old"), MObj("new")
    for i, (v, kind) in enumerate(zip(sc.values, combo)):
        if "expr" in kind:
            res = MObj(f"a{i} with old -> new") if kind.endswith("hit") else v
            sc.results[i] = res

            def subs(a, k, i=i, v=v, res=res):
                sc.visits.setdefault(i, []).append(a)
                if len(a) != 2 or a[0] is not old or a[1] is not new:
                    sc.bad_calls.append(f"a{i}._subs({', '.join(map(repr, a))}) does not pass (old, new) in this order")
                    return MObj(f"a{i} with the wrong replacement")
                return res

            v.attrs["_subs"] = subs
            v.attrs["_eval_subs"] = subs
            v.attrs["subs"] = subs
        elif kind == "class":
            def unbound(a, k):
                raise ModelRaise("TypeError", "_subs() of a class object called without an instance")

            v.attrs["_subs"] = unbound
            v.attrs["_eval_subs"] = unbound
    results = [sc.results.get(i, v) for i, v in enumerate(sc.values)]
    want = ("rebuilt", results) if any(r is not v for r, v in zip(results, sc.values)) else sc.me
    ex = ModelExec(tree)
    try:
        got = ex.call_function(fn, [sc.me, old, new], dict(hints))
    except ModelRaise as exc:
        got = ("raises", str(exc))
    return sc, got, want, [i for i, kind in enumerate(combo) if "expr" in kind]


def _hook_function(tree: Tree, attr: str, default: str):
    hooks = installed_hooks(tree)
    if attr in hooks:
        fn = tree.funcs.get(hooks[attr][2] or "")
        if fn is None:
            raise AnalysisError(f"hook {attr} = {unparse(hooks[attr][0])} cannot be resolved to a function")
        return fn
    fn = tree.funcs.get(f"{_MOD}::{default}")
    if fn is None:
        raise AnalysisError(f"vanished anchor: {default}")
    return fn


def _model_hook(tree: Tree, attr: str):
    """Run every scenario of one hook: (fn, number of scenarios, wrong results, arguments not descended into)."""
    wrong: list[str] = []
    skipped: list[str] = []
    consulted: set[str] = set()
    n = 0
    if attr == "_xreplace":
        fn = _hook_function(tree, attr, "_xreplace_method")
        runs = ((f"{_Scenario(c).describe()}, rule: {rk}", _run_xreplace(tree, fn, rk, c), True) for rk, c in _xreplace_scenarios())
    else:
        fn = _hook_function(tree, attr, "_eval_subs_method")
        runs = ((f"{_Scenario(c).describe()}" + (f", hints {h}" if h else ""), _run_subs(tree, fn, c, h), False) for c, h in _subs_scenarios())
    for label, (sc, got, want, must_visit), pair in runs:
        n += 1
        ok = _outcome_ok_pair(got, want) if pair else _same_object(got, want)
        if sc.bad_calls:
            ok = False
        if not ok:
            wrong.append(f"fields {label}: returns {_show(got)}, specified {_show(want)}" + (f" [{sc.bad_calls[0]}]" if sc.bad_calls else ""))
        missed = [i for i in must_visit if i not in sc.visits]
        if missed:
            views = sorted(set(sc.me.reads) & set(_FREE_SYMBOL_VIEWS))
            consulted |= set(views)
            skipped.append(f"fields {label}: " + ", ".join(f"a{i}" for i in missed) + " not descended into" + (f" (the hook consulted self.{views[0]})" if views else ""))
    return fn, n, wrong, skipped, sorted(consulted)


def check_descent(ctx: Check, tree: Tree) -> None:
    """R-DESCEND: the substitution hooks visit every argument whenever the rule is non-empty.

    They re-implement Basic._subs / Basic._xreplace for classes with non-SymPy fields.  A
    replacement key may be ANY sub-expression, so whether an argument has to be visited
    cannot be decided from the free symbols of the expression.  Decided on the model: in every
    scenario (non-empty rule that does not contain the instance itself) every field value that is an
    expression - in a SymPy field or not - receives the recursive call."""
    hooks = installed_hooks(tree)
    for attr in ("_xreplace", "_eval_subs"):
        if attr not in hooks:
            continue
        fn, n, _wrong, skipped, consulted = _model_hook(tree, attr)
        key = f"{fn.qual}::descends-into-all-arguments"
        why = None
        if skipped:
            why = {"scenarios": skipped[:4], "count": len(skipped)}
            if consulted:
                why["why"] = (f"the hook decides from self.{consulted[0]} whether anything can be replaced: xreplace/subs keys may be arbitrary sub-expressions (or non-SymPy attribute values), "
                              "not only free symbols: such replacements are silently skipped inside these classes, so replace-then-unfold differs from unfold-then-replace")
        ctx.verdict(not skipped, "R-DESCEND", key, tree.loc(fn.node), f"{fn.qual}: every field value that is an expression receives the recursive call whenever the rule is non-empty ({n} model instances)", why)


def check_content_injective(ctx: Check, tree: Tree, hook_fn) -> None:
    """R-INJECTIVE: "equal exactly when ... non-SymPy attributes are equal".  _hashable_content
    maps every non-SymPy attribute through a key function.  For a *hashable* attribute (a class,
    a function, an instance) the key must determine the attribute: the object itself, or a
    wrapper whose __eq__ compares the wrapped objects.  A string derived from the object
    (__qualname__, __name__, str(), repr(), f-string) is not injective: two classes or lambdas of
    the same name - a redefined notebook cell, two closures of one factory - compare equal and
    SymPy's expression cache hands out nodes that carry the other attribute.
    (str(obj) for *unhashable* attributes, inside the TypeError handler of hash(obj), has no exact
    alternative and is recorded as an advisory.)"""
    from ..dataflow import RD

    # the key functions: the functions of the package that the hook applies to a single field value - found by
    # interpreting the hook on a model instance (whether the call sits in a generator, a loop, a map() or a helper)
    key_fns = hashable_content_model(tree, hook_fn)["key_fns"]
    if not key_fns:
        ctx.ok("R-INJECTIVE", tree.loc(hook_fn.node), f"{hook_fn.qual}: attribute values enter the hashable content unchanged")
        return
    for kf in key_fns:
        if not kf.params:
            raise AnalysisError(f"{kf.qual}: no parameter")
        param = kf.params[0]
        rd = RD(kf.node)
        n_ret = 0
        for ret in [r for r in walk_function(kf.node, nested=False) if isinstance(r, ast.Return) and r.value is not None]:
            n_ret += 1
            v = ret.value
            in_type_error_handler = any(isinstance(a, ast.ExceptHandler) and a.type is not None and "TypeError" in unparse(a.type) for a in _ancestors(ret))
            key = f"{kf.qual}::return {unparse(v)[:50]}"
            if isinstance(v, ast.Name) and v.id == param:
                ctx.ok("R-INJECTIVE", tree.loc(ret), f"{kf.qual}: `return {v.id}` - the attribute itself is the key")
                continue
            if isinstance(v, ast.Call):
                callee = tree.callee(v, kf)
                cls = tree.classes.get(callee) if callee else None
                if cls is not None and len(v.args) == 1 and isinstance(v.args[0], ast.Name) and v.args[0].id == param:
                    eq = cls.methods.get("__eq__")
                    hs = cls.methods.get("__hash__") or next(
                        (st for st in cls.node.body if isinstance(st, ast.Assign) and any(isinstance(t, ast.Name) and t.id == "__hash__" for t in st.targets)
                         and not (isinstance(st.value, ast.Constant) and st.value.value is None)), None)
                    compares = eq is not None and any(
                        isinstance(n, ast.Compare) and len(n.ops) == 1 and isinstance(n.ops[0], (ast.Is, ast.Eq))
                        and all(isinstance(x, ast.Attribute) for x in (n.left, n.comparators[0])) and n.left.attr == n.comparators[0].attr
                        for n in walk_function(eq.node))
                    ok = compares and hs is not None
                    ctx.verdict(ok, "R-INJECTIVE", key, tree.loc(ret), f"{kf.qual}: `return {unparse(v)}` - wrapper {cls.name} compares the wrapped objects ({'identity/equality' if compares else 'NO __eq__ on the wrapped object'}) and defines __hash__",
                                None if ok else "the wrapper does not determine the attribute")
                    continue
            lossy = isinstance(v, ast.JoinedStr) or (isinstance(v, ast.Call) and unparse(v.func) in {"str", "repr", "format", "id", "hash"}) or any(
                isinstance(n, ast.Attribute) and n.attr in {"__qualname__", "__name__", "__module__"} for n in ast.walk(v))
            if lossy and in_type_error_handler:
                ctx.advisory("R-INJECTIVE", tree.loc(ret), f"{kf.qual}: unhashable attributes are keyed by `{unparse(v)}` (no exact key exists for them)")
                continue
            if lossy:
                ctx.violation("R-INJECTIVE", f"{kf.qual}::name-derived-key", tree.loc(ret),
                              f"{kf.qual}: `return {unparse(v)[:70]}` - a hashable attribute is replaced by a string derived from it",
                              "two distinct classes / functions with the same module and qualified name (redefinition in a session, closures of one factory, lambdas) give equal, equally hashed expressions although evaluate() differs")
                continue
            if isinstance(v, ast.Tuple):
                # structural key: a tuple of components of the attribute.  A mapping-valued component
                # must enter with its VALUES (items()); iterating / sorting the mapping keeps the keys only
                probs = []
                for e in v.elts:
                    for sub in ast.walk(e):
                        if isinstance(sub, ast.Call) and unparse(sub.func) in {"sorted", "tuple", "list", "set", "frozenset"} and sub.args:
                            a0 = sub.args[0]
                            if isinstance(a0, ast.Attribute) and a0.attr in {"keywords", "kwargs", "__dict__"} and isinstance(a0.value, ast.Name) and a0.value.id == param:
                                probs.append(f"`{unparse(sub)}` keeps only the keys of `{unparse(a0)}`")
                        if isinstance(sub, ast.Call) and isinstance(sub.func, ast.Attribute) and sub.func.attr == "keys" and unparse(sub.func.value).startswith(param + "."):
                            probs.append(f"`{unparse(sub)}` keeps only the keys")
                if probs:
                    ctx.violation("R-INJECTIVE", f"{kf.qual}::lossy-structural-key", tree.loc(ret),
                                  f"{kf.qual}: the structural key `{unparse(v)[:70]}` drops part of the attribute: " + "; ".join(probs),
                                  "two attributes that differ only in the dropped part (e.g. partial(f, flag=False) vs partial(f, flag=True)) give equal, equally hashed expressions with different doit()")
                else:
                    ctx.advisory("R-INJECTIVE", tree.loc(ret), f"{kf.qual}: structural key `{unparse(v)[:70]}` (components not judged further)")
                continue
            raise AnalysisError(f"{kf.qual}: return `{unparse(v)[:60]}` of unknown shape")
        if not n_ret:
            raise AnalysisError(f"{kf.qual}: no return")


def check_arg_order(ctx: Check, tree: Tree) -> None:
    """R-ARGORDER: `.args` of an instance are in field-declaration order however the call spells its
    arguments (evaluate()/printers unpack `self.args` positionally, subs/xreplace/pickle rebuild
    positionally).  new_method lays out the SymPy args in the iteration order of the mapping that
    _extract_field_values returns, so every insertion into that mapping must happen in field order:
    by zip(fields, args) or inside a loop over (a slice of) the field tuple - never in the order of
    the caller's keyword arguments."""
    from ..dataflow import RD

    new = tree.funcs.get(f"{IMPLEMENT_NEW}.new_method")
    ext = tree.funcs.get("ampform.sympy._decorator::_extract_field_values")
    if new is None or ext is None:
        raise AnalysisError("vanished anchor: new_method / _extract_field_values")
    nrd = RD(new.node) if new.outer is None else None
    from ..prov import _rd_for

    nrd = _rd_for(new, {})
    # does new_method depend on the mapping's order?
    order_sensitive = False
    for node in walk_function(new.node):
        if isinstance(node, (ast.GeneratorExp, ast.ListComp)) and any(
            isinstance(c, ast.Call) and isinstance(c.func, ast.Attribute) and c.func.attr == "items" for c in ast.walk(node.generators[0].iter)
        ):
            src = node.generators[0].iter
            if any(d.value is not None and "_extract_field_values" in unparse(d.value) for d in nrd.closure(nrd.uses(src))):
                order_sensitive = True
    if not order_sensitive:
        ctx.ok("R-ARGORDER", tree.loc(new.node), "new_method lays out the SymPy args by iterating the field tuple: insertion order of the extracted mapping is irrelevant")
        return
    rd = RD(ext.node)
    params = ext.params
    kw_defs = {d for d in rd.defs if d.kind == "param" and d.name in {ext.node.args.kwarg.arg if ext.node.args.kwarg else "kwargs"}}
    ret_names = set()
    for ret, _ in rd.returns:
        if ret.value is not None and isinstance(ret.value, ast.Tuple) and ret.value.elts:
            ret_names |= {n.id for n in ast.walk(ret.value.elts[0]) if isinstance(n, ast.Name)}
    n_ins = 0
    problems = []
    for node in walk_function(ext.node):
        if isinstance(node, ast.Assign) and isinstance(node.targets[0], ast.Subscript) and isinstance(node.targets[0].value, ast.Name) and node.targets[0].value.id in ret_names:
            n_ins += 1
            loops = [a for a in _ancestors(node) if isinstance(a, ast.For)]
            if not loops:
                problems.append((node, "inserted outside any loop over the fields"))
                continue
            it = loops[0].iter
            deps = rd.closure(rd.uses(it))
            from_fields = any(d.value is not None and "_get_fields" in unparse(d.value) for d in deps)
            from_kwargs = bool(deps & kw_defs) or any(isinstance(n, ast.Name) and n.id in {d.name for d in kw_defs} for n in ast.walk(it))
            if from_kwargs:
                problems.append((node, f"inserted in a loop over `{unparse(it)}` - the order of the caller's keyword arguments"))
            elif not from_fields:
                problems.append((node, f"inserted in a loop over `{unparse(it)}`, which does not derive from the field tuple"))
    if n_ins == 0:
        raise AnalysisError(f"{ext.qual}: no insertion into the returned mapping found")
    for node, why in problems:
        ctx.violation("R-ARGORDER", f"{ext.qual}::{why.split(' - ')[0][:60]}", tree.loc(node), f"{ext.qual}: `{unparse(node)[:60]}` is {why}",
                      "Cls(b=.., a=..) then has .args == (b, a): evaluate() unpacks `a, b = self.args` and computes with the values interchanged, while the named attributes still look right")
    if not problems:
        ctx.ok("R-ARGORDER", tree.loc(ext.node), f"{ext.qual}: all {n_ins} insertions into the field mapping happen in field-declaration order (zip with the positional arguments, loops over slices of the field tuple)")


def check_internal_rebuild(ctx: Check, tree: Tree) -> None:
    """R-REBUILD (decorator): a method that @unevaluated installs on every class reconstructs an
    instance only from the COMPLETE argument list (_get_arguments(self): all fields), never from
    `self.args` (SymPy arguments only) - otherwise the copy carries the defaults of the non-SymPy
    attributes (phsp_factor=PhaseSpaceFactor, name=None) and e.g. doit() of a width with a nested
    argument unfolds with another phase-space factor than the one it was built with."""
    from ..dataflow import RD

    mod = "ampform.sympy._decorator"
    n = 0
    bad = 0
    for q, fn in sorted(tree.funcs.items()):
        if not q.startswith(mod + "::") or not fn.params or fn.params[0] != "self":
            continue
        from ..prov import _rd_for

        rd = _rd_for(fn, {})
        for node in walk_function(fn.node, nested=False):
            if not (isinstance(node, ast.Call) and isinstance(node.func, ast.Attribute) and node.func.attr == "func"
                    and isinstance(node.func.value, ast.Name) and node.func.value.id == "self"):
                continue
            n += 1
            srcs = []
            for a in node.args:
                inner = a.value if isinstance(a, ast.Starred) else a
                deps = rd.closure(rd.uses(inner))
                texts = [unparse(inner)] + [unparse(d.value) for d in deps if isinstance(d.value, ast.AST)]
                srcs.append(" ".join(texts))
            txt = " ".join(srcs)
            from_args = "self.args" in txt or "self._args" in txt
            complete = "_get_arguments(self)" in txt
            # self.func(coefficient, nonnumber, evaluate=False) - the 2-arg hack on already rebuilt values
            if not from_args and not complete and not any(isinstance(a, ast.Starred) for a in node.args):
                ctx.info("R-REBUILD", tree.loc(node), f"{q}: `{unparse(node)[:50]}` takes explicit values")
                continue
            ok = complete and not from_args
            if not ok:
                bad += 1
            ctx.verdict(ok, "R-REBUILD", f"{q}::self.func from {'self.args' if from_args else 'unknown'}", tree.loc(node),
                        f"{q}: `{unparse(node)[:50]}` rebuilds the instance from {'the complete field values (_get_arguments)' if ok else 'self.args (SymPy arguments only)'}",
                        None if ok else "non-SymPy attributes of the rebuilt instance fall back to their defaults")
    if n < 2:
        raise AnalysisError(f"only {n} self.func(...) reconstructions found in the decorator hooks (4 confirmed)")


def check_change_propagation(ctx: Check, tree: Tree) -> None:
    """R-PROPAGATE: the substitution hooks return a rebuilt instance exactly when a replacement
    happened somewhere below, built from the per-argument results:
      _xreplace:  (rule[self], True) iff `self in rule`; (self, False) for an empty rule; else for every
                  field value the pair (result, replaced?) of `value._xreplace(rule)` if it is an
                  expression (has the method and is not a class), (rule.get(value, value), value in rule)
                  for a Mapping, (value, False) otherwise; (self.func(*results), True) iff some flag
                  is set, else (self, False).
      _eval_subs: value._subs(old, new, **hints) with the hook's own (old, new) in that order for every
                  field value that is an expression; self.func(*results) iff some result is not the
                  value it came from, else self.
    Decided by interpreting the hooks on model instances (see above) and comparing with this
    specification, scenario by scenario."""
    for attr, what in (("_xreplace", "_xreplace hook: (rule[self], True) iff self in rule; every argument's result collected; rebuilt instance iff some argument reported a replacement"),
                       ("_eval_subs", "_eval_subs hook: arg._subs(old, new) per argument; a differing result sets the hit flag and replaces that argument's slot; rebuilt instance iff hit, else self")):
        fn, n, wrong, _skipped, _ = _model_hook(tree, attr)
        ctx.stats[f"model_instances{attr}"] = n
        ctx.verdict(not wrong, "R-PROPAGATE", f"{fn.qual}::change-propagation", tree.loc(fn.node), f"{what} ({n} model instances)",
                    {"scenarios": wrong[:4], "count": len(wrong)} if wrong else None)


def hashable_content_model(tree: Tree, hook_fn) -> dict:
    """Interpret the _hashable_content hook on a model instance with the fields s0, s1 (SymPy arguments) and
    n0, n1, n2 (non-SymPy attributes: a plain value, a class object, None).  A function of the package that is
    called with exactly one field value is a KEY FUNCTION (its result stands for that value); it is not
    entered but recorded.  Returns which non-SymPy values are missing from the returned content, which SymPy
    field values were added (through a key function), whether the inherited content is kept, and the key
    functions."""
    fields, values = [], {}
    for name, sympify, kinds in (("s0", True, {"expr"}), ("n0", False, {"plain"}), ("s1", True, {"expr"}), ("n1", False, {"class"}), ("n2", False, {"plain"})):
        fields.append(MObj(f"field {name}", {"name": name, "metadata": {"sympify": sympify}}, kinds={"Field"}))
        values[name] = MObj(f"value of {name}", kinds=kinds, open=False)
    inherited = (MObj("type(self)"), values["s0"], values["s1"])
    me = MObj("self", {**values, "__dataclass_fields__": fields, "args": (values["s0"], values["s1"]),
                       "__super__": MObj("super()", {"_hashable_content": lambda a, k: inherited})}, kinds={"expr"})
    key_fns: dict[str, object] = {}

    def intercept(fn, args, kwargs):
        if len(args) == 1 and not kwargs and any(args[0] is v for v in values.values()):
            key_fns[fn.qual] = fn
            return True, MObj(f"{fn.name}({args[0]!r})", {"__key_of__": args[0]}, open=False)
        return False, None

    ex = ModelExec(tree, intercept=intercept)
    try:
        got = ex.call_function(hook_fn, [me])
    except ModelRaise as exc:
        raise AnalysisError(f"{hook_fn.qual}: raises {exc} on the model instance") from None
    if not isinstance(got, (tuple, list)):
        raise AnalysisError(f"{hook_fn.qual}: returns {got!r} on the model instance, not a tuple")

    def stands_for(item, v) -> bool:
        return item is v or (isinstance(item, MObj) and item.attrs.get("__key_of__") is v)

    missing = [n for n in ("n0", "n1", "n2") if not any(stands_for(x, values[n]) for x in got)]
    wrapped_sympy = [n for n in ("s0", "s1") if any(isinstance(x, MObj) and x.attrs.get("__key_of__") is values[n] for x in got)]
    has_super = all(any(x is y for x in got) for y in inherited)
    return {"missing": missing, "wrapped_sympy": wrapped_sympy, "has_super": has_super, "key_fns": list(key_fns.values()), "entered": ex.entered}


def count_nested_constructions(tree: Tree) -> list[str]:
    classes = set(expression_classes(tree)) | set(handwritten_expr_classes(tree))
    out = []
    for q, fn in tree.funcs.items():
        if not q.startswith("ampform"):
            continue
        for call, callee in tree.calls_in(fn, nested=False):
            if callee in classes:
                for a in [*call.args, *[k.value for k in call.keywords]]:
                    if isinstance(a, ast.Call) and tree.callee(a, fn) in classes:
                        out.append(f"{tree.loc(call)} {unparse(call)[:70]}")
                        break
    return out


def run(ctx: Check, tree: Tree) -> None:
    ctx.decided += [
        'R-SHALLOW (arity): the field getter of the hooks yields a tuple for classes of every arity (operator.attrgetter(*names) does not for one field)',
        "reconstruction hooks (_eval_subs, _xreplace) installed by @unevaluated read arguments shallowly and completely (R-SHALLOW/R-COMPLETE)",
        "the substitution hooks visit every argument whenever the rule is non-empty; no pre-filter by free symbols (R-DESCEND)",
        "generated-code templates never put an unparenthesised printed sub-expression next to a tighter-binding operator (R-PREC)",
        "every `... = self.args` unpacking matches the class's SymPy field list in count and position (R-ARITY)",
        "_hashable_content hook is installed unconditionally and covers the non-SymPy fields (R-HASH)",
        "_eval_subs/_xreplace hooks are installed whenever a class has non-SymPy fields (R-HOOKS)",
        "classes that both unfold and print themselves print through their unfolding (R-ONEDEF)",
    ]
    ctx.not_decided += [
        "the commutation laws for arbitrary substitution maps and argument shapes (runtime values)",
        "LaTeX printing",
        "numerical equality of generated code",
    ]
    ctx.assumptions += [
        "dataclasses.astuple/asdict recurse into nested dataclass instances; copy.deepcopy copies (CPython documentation)",
        "sympy Basic.subs/xreplace call _eval_subs/_xreplace and rebuild with self.func(*args)",
    ]
    classes = expression_classes(tree)
    if len(classes) < MIN_CLASSES:
        raise AnalysisError(f"only {len(classes)} @unevaluated classes found (confirmed {MIN_CLASSES}+ by hand)")
    ctx.stats["decorated_classes"] = len(classes)
    ctx.stats["handwritten_expr_classes"] = len(handwritten_expr_classes(tree))

    # non-vacuity of R-SHALLOW: nested unevaluated arguments do occur in the package
    nested = count_nested_constructions(tree)
    ctx.stats["nested_construction_sites"] = len(nested)
    if len(nested) < MIN_NESTED:
        raise AnalysisError(f"only {len(nested)} nested expression constructions found (confirmed {MIN_NESTED}+)")
    ctx.info("R-SHALLOW", nested[0].split()[0], f"{len(nested)} nested expression-class constructions, e.g. {nested[0]}")

    # ---- R-SHALLOW on the substitution hooks
    ctx.section(check_shallow_hooks, ctx, tree, ["_eval_subs", "_xreplace"], need_complete=True)

    # ---- hooks installed under the right condition
    hooks = installed_hooks(tree)
    impl = tree.func(IMPLEMENT_NEW)
    if "_hashable_content" not in hooks:
        ctx.violation(
            "R-HASH",
            f"{IMPLEMENT_NEW}::missing _hashable_content",
            tree.loc(impl.node),
            "no _hashable_content hook: equality and hash ignore the non-SymPy attributes",
        )
    else:
        value, cond, resolved = hooks["_hashable_content"]
        key = f"{IMPLEMENT_NEW}::cls._hashable_content"
        if resolved not in tree.funcs:
            raise AnalysisError(f"_hashable_content hook {unparse(value)} unresolved")
        fn = tree.funcs[resolved]
        # what the hook returns is read off a model instance (two SymPy fields, three non-SymPy fields):
        # helper functions, generator vs list vs map() make no difference
        content = ctx.section(hashable_content_model, tree, fn)
        missing, wrapped_sympy, has_super = (content["missing"], content["wrapped_sympy"], content["has_super"]) if content is not None else ([], [], True)
        if cond:
            ctx.violation("R-HASH", key + "::conditional", tree.loc(value), "the _hashable_content hook is only installed under a condition")
        elif missing and not wrapped_sympy:
            ctx.violation(
                "R-HASH",
                key + "::no-fields",
                tree.loc(fn.node),
                f"{fn.qual} does not return the values of the non-SymPy fields: instances that differ only in a non-SymPy attribute compare equal",
            )
        elif missing:
            ctx.violation(
                "R-HASH",
                key + "::filter",
                tree.loc(fn.node),
                f"{fn.qual} keeps the values of the fields {wrapped_sympy} and drops {missing}: non-SymPy fields are not the ones kept",
            )
        elif not has_super:
            ctx.violation("R-HASH", key + "::no-super", tree.loc(fn.node), f"{fn.qual} drops the class/args part of the hashable content")
        elif content is not None:
            ctx.ok("R-HASH", tree.loc(value), f"cls._hashable_content = {unparse(value)}: unconditional, returns super content + getattr over non-SymPy fields")
        ctx.section(check_content_injective, ctx, tree, fn)
    n_nonsympy = sum(1 for c in classes.values() if c.non_sympy_fields)
    ctx.stats["classes_with_non_sympy_fields"] = n_nonsympy
    for attr in ("_eval_subs", "_xreplace"):
        if attr in hooks:
            value, cond, _ = hooks[attr]
            if cond:
                # the guarding condition must be (derived from) "has non-sympy fields"
                guard = next(a for a in _ancestors(value) if isinstance(a, ast.If))
                gtxt = unparse(guard.test)
                rd_ok = "non_sympy" in gtxt or "sympify" in gtxt
                negated = isinstance(guard.test, ast.UnaryOp) and isinstance(guard.test.op, ast.Not)
                in_else = not any(value is n for st in guard.body for n in ast.walk(st))
                if negated != in_else:
                    rd_ok = False
                elif not rd_ok:
                    # look at the definition of the tested name
                    rd_ok = _guard_is_nonsympy(tree, impl, guard.test)
                ctx.verdict(
                    rd_ok,
                    "R-HOOKS",
                    f"{IMPLEMENT_NEW}::cls.{attr}::guard",
                    tree.loc(guard),
                    f"cls.{attr} installed under `if {gtxt}` ({n_nonsympy} classes have non-SymPy fields)",
                )
            else:
                ctx.ok("R-HOOKS", tree.loc(value), f"cls.{attr} installed unconditionally")

    ctx.section(check_descent, ctx, tree)
    ctx.section(check_arg_order, ctx, tree)
    ctx.section(check_internal_rebuild, ctx, tree)
    ctx.section(check_change_propagation, ctx, tree)
    from .c18 import check_subs_returns

    ctx.section(check_subs_returns, ctx, tree)  # the sum helper class: subs-then-unfold == unfold-then-subs needs the pools substituted, too
    from .c15 import check_reentrant_new

    ctx.section(check_reentrant_new, ctx, tree)  # "reproduced by rebuilding it from its own arguments" for the array helper classes
    ctx.section(check_precedence, ctx, tree, prefixes=("ampform",))

    # ---- R-ARITY
    n_unpack = 0
    for q, cls in classes.items():
        for mname, m in cls.info.methods.items():
            for st, elts, _through_map in self_args_unpackings(m):
                n_unpack += 1
                problem = check_arity(cls, elts)
                ctx.verdict(
                    problem is None,
                    "R-ARITY",
                    f"{m.qual}::{unparse(st.targets[0])} = self.args",
                    tree.loc(st),
                    f"{cls.name}.{mname}: {unparse(st)[:90]}",
                    problem,
                )
    ctx.stats["self_args_unpack_sites"] = n_unpack
    if n_unpack < MIN_UNPACK:
        raise AnalysisError(f"only {n_unpack} `= self.args` unpack sites found (confirmed {MIN_UNPACK}+)")

    # ---- self.<attr> inside methods of decorated classes must exist (field, method, class attr)
    ctx.section(check_field_access, ctx, tree, classes)

    # ---- R-ONEDEF
    n_onedef = 0
    for q, cls in classes.items():
        ev, npc = cls.method("evaluate"), cls.method("_numpycode")
        if ev is None or npc is None:
            continue
        n_onedef += 1
        ok = False
        for node in walk_function(npc.node):
            if isinstance(node, ast.Return) and node.value is not None:
                v = node.value
                ok = (
                    isinstance(v, ast.Call)
                    and isinstance(v.func, ast.Attribute)
                    and v.func.attr in {"_print", "doprint"}
                    and v.args
                    and _derives_from_evaluate(npc, v.args[0])
                )
        ctx.verdict(
            ok,
            "R-ONEDEF",
            f"{npc.qual}::prints-evaluate",
            tree.loc(npc.node),
            f"{cls.name} defines evaluate() and _numpycode(): _numpycode must print self.evaluate()",
            None if ok else "two independent definitions of one quantity (folded code may differ from unfolded code)",
        )
    ctx.stats["onedef_instances"] = n_onedef
    if n_onedef < 3:
        raise AnalysisError(f"only {n_onedef} classes with both evaluate and _numpycode (confirmed 3)")

    # ---- advisory: commutative=False has no effect
    dec = tree.func("ampform.sympy._decorator::unevaluated")
    for node in walk_function(dec.node, nested=False):
        if isinstance(node, ast.If) and "assumptions.get('commutative')" in unparse(node.test) and isinstance(node.test, ast.UnaryOp):
            n = sum(1 for c in classes.values() if "commutative" in c.assumptions)
            ctx.advisory(
                "A-COMMUTATIVE",
                tree.loc(node),
                f"`if not assumptions.get('commutative')` overwrites an explicit commutative=False ({n} classes pass it); not a clause of C14",
            )


def _ancestors(node):
    from ..loader import ancestors

    return ancestors(node)


def _guard_is_nonsympy(tree: Tree, impl, test: ast.AST) -> bool:
    from ..dataflow import RD

    rd = RD(impl.node)
    for d in rd.closure(rd.uses(test)):
        if d.value is not None:
            txt = unparse(d.value)
            if "not _is_sympify" in txt or "not f.metadata" in txt or "sympify" in txt and "not" in txt:
                return True
    return False


def _derives_from_evaluate(fn, expr: ast.AST) -> bool:
    from ..dataflow import RD

    def is_eval_call(n):
        return (
            isinstance(n, ast.Call)
            and isinstance(n.func, ast.Attribute)
            and n.func.attr in {"evaluate", "doit"}
            and isinstance(n.func.value, ast.Name)
            and n.func.value.id == "self"
        )

    if any(is_eval_call(n) for n in ast.walk(expr)):
        return True
    rd = RD(fn.node)
    for d in rd.closure(rd.uses(expr)):
        if d.value is not None and any(is_eval_call(n) for n in ast.walk(d.value)):
            return True
    return False


def check_field_access(ctx: Check, tree: Tree, classes) -> None:
    """``self.x`` in evaluate/_numpycode/as_explicit of a decorated class: ``x`` must be a
    field, a method/property/class attribute of the class (repo MRO) - or the base is
    external, in which case only near-misses of field names are reported."""
    sympy_attrs = {"args", "func", "doit", "evaluate", "free_symbols", "xreplace", "subs", "is_commutative", "shape", "name"}
    n = 0
    for q, cls in classes.items():
        known = {f.name for f in cls.fields}
        for c in tree.mro(cls.info):
            known |= set(c.methods)
            for st in c.node.body:
                for t in getattr(st, "targets", []) or ([st.target] if isinstance(st, ast.AnnAssign) else []):
                    if isinstance(t, ast.Name):
                        known.add(t.id)
        for mname in ("evaluate", "as_explicit", "_numpycode", "_latex_repr_"):
            m = cls.method(mname)
            if m is None:
                continue
            for node in walk_function(m.node):
                if isinstance(node, ast.Attribute) and isinstance(node.value, ast.Name) and node.value.id == "self" and isinstance(node.ctx, ast.Load):
                    n += 1
                    if node.attr in known or node.attr in sympy_attrs or node.attr.startswith("_"):
                        continue
                    ctx.violation(
                        "R-FIELD",
                        f"{m.qual}::self.{node.attr}",
                        tree.loc(node),
                        f"{cls.name}.{mname} reads self.{node.attr}, which is neither a field {sorted(f.name for f in cls.fields)} nor a class attribute",
                    )
    ctx.stats["self_attr_reads_checked"] = n
    ctx.ok("R-FIELD", "src/ampform", f"{n} `self.<attr>` reads in evaluate/as_explicit/printers name an existing field or attribute") if n else None
