"""C14 - unevaluated expressions obey substitution, equality and folding laws.

The rules about the machinery that ``@unevaluated`` installs (R-HOOKS, R-HASH, R-INJECTIVE, R-SHALLOW,
R-COMPLETE, R-DESCEND, R-PROPAGATE, R-ARGORDER, R-REBUILD) are decided on a MODEL: the decorator itself is
interpreted (``sa/rules.object_exec``; nothing of the package is imported or run) on model classes with a few
dataclass fields, which yields the hooks it installs for which kind of class; every hook is then interpreted
on model instances and its result compared with what the specification says for the same instance.  How the
decorator and its hooks are spelt - helper functions, loops or comprehensions, guard clauses, try/except,
keyword or positional calls, wrapper objects - is invisible to these rules; code outside the interpreted
subset is an ANALYSIS-ERROR, never a violation.  The rules about the expression classes themselves (R-ARITY,
R-ONEDEF, R-FIELD, R-PREC) read the methods through reaching definitions and helper inlining.
"""

from __future__ import annotations

import ast
import itertools

from ..exprmodel import IMPLEMENT_NEW, UNEVALUATED, expression_classes, handwritten_expr_classes
from ..loader import AnalysisError, Tree, unparse, walk_function
from ..report import Check
from ..rules import (
    DEEP_SOURCES,
    MObj,
    ModelError,
    ModelRaise,
    MRef,
    _FuncRef,
    args_index_reads,
    args_star_calls,
    interpret_printer,
    object_exec,
    self_args_unpackings,
)

PID = "C14"
MIN_CLASSES = 30  # 35 decorated classes on the pinned tree
MIN_UNPACK = 8  # positional uses of `self.args` in decorated classes (16 unpackings on the pinned tree): non-vacuity only
MIN_NESTED = 4  # nested expression-class constructions (non-vacuity of R-SHALLOW; 8+ on the pinned tree)

_MOD = "ampform.sympy._decorator"
_MISSING = MRef("dataclasses.MISSING")
_FREE_SYMBOL_VIEWS = ("free_symbols", "atoms", "has", "find")


# ---------------------------------------------------------------------------- the decorator on a model
class DecoratorWorld:
    """``@unevaluated`` interpreted on model classes.

    ``model_class(sympify)`` builds a class object with one dataclass field per entry of ``sympify`` (True: a SymPy
    argument, False: ``argument(sympify=False)``), runs the decorator on it and returns it; ``installed`` of the
    class are the attributes the decorator set (``__new__``, ``__getnewargs__``, ``_hashable_content``, ``_eval_subs``,
    ``_xreplace``, ``doit``, ...), as callables of the interpreter."""

    _worlds: dict[int, "DecoratorWorld"] = {}

    @classmethod
    def of(cls, tree: Tree) -> "DecoratorWorld":
        w = cls._worlds.get(id(tree))
        if w is None or w.tree is not tree:
            w = cls._worlds[id(tree)] = DecoratorWorld(tree)
        return w

    def __init__(self, tree: Tree) -> None:
        self.tree = tree
        self.dec = tree.func(UNEVALUATED)
        self._classes: dict[tuple, MObj] = {}
        self.cache: dict = {}  # results of the model runs shared by several rules
        self.notes: list[tuple] = []  # what the models of astuple / deepcopy / attrgetter observed (shared by all interpreters of this world)
        self.names: dict[int, str] = {}  # id of an external callable that the decorator installed -> its dotted name
        self.type_marker = MObj("type(self)")

    # -- models of the SymPy entry points the decorator machinery calls
    @staticmethod
    def externals() -> dict:
        def expr_new(a, k):
            if not a:
                raise ModelRaise("TypeError", "Expr.__new__ needs the class")
            return MObj("new expression", {"__class__": a[0], "args": tuple(a[1:]), "_args": tuple(a[1:]), "__hints__": dict(k)}, kinds={"expr"}, open=False)

        ident = lambda a, k: a[0]  # noqa: E731 - sympify of a model value is the value
        out = {n: expr_new for n in ("sympy.Expr.__new__", "sympy.Basic.__new__", "sympy.core.expr.Expr.__new__", "sympy.core.basic.Basic.__new__")}
        out.update({n: ident for n in ("sympy.sympify", "sympy.core.sympify.sympify", "sympy.core.sympify._sympify", "sympy._sympify", "sympy.S")})
        return out

    def exec(self, intercept=None, externals: dict | None = None):
        ex = object_exec(self.tree, {**self.externals(), **(externals or {})}, intercept)
        ex.notes = self.notes  # a callable installed by one interpreter may be applied by another: one common record
        ex.mark = len(self.notes)
        return ex

    def notes_since(self, ex) -> list[tuple]:
        return self.notes[ex.mark:]

    def model_class(self, sympify: tuple[bool, ...], defaults: tuple = (), extra: tuple = ()) -> MObj:
        key = (tuple(sympify), tuple(id(d) for d in defaults), tuple(k for k, _ in extra))
        if key in self._classes:
            return self._classes[key]
        fields = []
        for i, s in enumerate(sympify):
            default = defaults[i] if i < len(defaults) and defaults[i] is not None else _MISSING
            fields.append(MObj(f"field a{i}", {"name": f"a{i}", "metadata": ({} if s else {"sympify": False}), "default": default, "default_factory": _MISSING, "init": True, "kw_only": False,
                                               "type": "Any", "repr": True, "hash": None, "compare": True},
                               kinds={"Field", "dataclasses.Field"}, open=False))
        sig = "".join("s" if s else "n" for s in sympify) or "-"
        cls = MObj(f"model class <{sig}>", {
            "__dataclass_fields__": {f.attrs["name"]: f for f in fields}, "__name__": "Model", "__qualname__": "Model", "__module__": "model", "__qual__": "model::Model",
            "__new__": MRef("sympy.Expr.__new__"), "doit": MRef("sympy.Basic.doit"), "__annotations__": {f"a{i}": "Any" for i in range(len(sympify))},
            "evaluate": lambda a, k: MObj("self.evaluate()", {"doit": lambda a2, k2: MObj("self.evaluate().doit()", kinds={"expr"})}, kinds={"expr"}),
            **dict(extra),
        }, kinds={"class"}, open=False)
        before = dict(cls.attrs)
        ex = self.exec()
        try:
            out = ex.run(self.dec, [cls])
        except ModelRaise as exc:
            raise AnalysisError(f"{self.dec.qual}: raises {exc} on a model class with the fields <{sig}>") from None
        if out is not cls:
            raise AnalysisError(f"{self.dec.qual}(cls) returns {out!r} on the model, not the class it decorates (outside the rule's model)")
        cls.installed = {k: v for k, v in cls.attrs.items() if k not in before or before[k] is not v}  # type: ignore[attr-defined]
        for v in cls.installed.values():  # type: ignore[attr-defined]
            if callable(v) and not isinstance(v, (MObj, _FuncRef)):
                self.names[id(v)] = next((n for n, f in ex.externals.items() if f is v), repr(v))
        cls.sympify = tuple(sympify)  # type: ignore[attr-defined]
        self._classes[key] = cls
        return cls

    def hook(self, sympify: tuple[bool, ...], attr: str):
        return self.model_class(sympify).installed.get(attr)  # type: ignore[attr-defined]

    def describe(self, f) -> tuple[str, str]:
        """(stable name, location) of an installed callable."""
        if isinstance(f, _FuncRef):
            if f.fn is not None:
                return f.fn.qual, self.tree.loc(f.fn.node)
            scope = f.scope.qual if f.scope is not None else "<closure>"
            return f"{scope}.{getattr(f.node, 'name', '<lambda>')}", self.tree.loc(f.node) if hasattr(f.node, "lineno") and getattr(f.node, "_module", None) is not None else self.tree.loc(self.dec.node)
        if isinstance(f, MRef):
            return f.name, self.tree.loc(self.dec.node)
        return self.names.get(id(f), repr(f)), self.tree.loc(self.dec.node)


def _interpret(what: str, run):
    """Run one interpretation: a raised exception of the interpreted code is an outcome, a gap of the interpreter
    (ModelError, or any failure inside it) is an ANALYSIS-ERROR."""
    try:
        return run()
    except ModelRaise as exc:
        return ("raises", str(exc))
    except ModelError:
        raise
    except RecursionError:
        raise ModelError(f"{what}: recursion too deep in the model interpreter") from None
    except AnalysisError:
        raise
    except Exception as exc:  # noqa: BLE001 - a failure of the interpreter must never look like a verdict
        raise ModelError(f"{what}: the model interpreter failed: {type(exc).__name__}: {exc}") from exc


ALL_SIGNATURES = [sig for n in range(4) for sig in itertools.product((True, False), repeat=n)]


def installed_by_model(tree: Tree) -> dict[str, dict[tuple, object]]:
    """attr -> {field signature -> installed callable} for all model classes with up to three fields."""
    world = DecoratorWorld.of(tree)
    if "installed" not in world.cache:
        table: dict[str, dict[tuple, object]] = {}
        for sig in ALL_SIGNATURES:
            for attr, v in world.model_class(sig).installed.items():  # type: ignore[attr-defined]
                table.setdefault(attr, {})[sig] = v
        world.cache["installed"] = table
    return world.cache["installed"]


def check_installed_hooks(ctx: Check, tree: Tree) -> None:
    """R-HOOKS / R-HASH (installation): which hooks does the decorator install for which class?  Read off the model:
    every class gets ``__new__``; every class with a non-SymPy field gets ``_hashable_content``, ``_eval_subs`` and
    ``_xreplace`` (Basic's own versions rebuild with ``self.func(*self.args)`` and compare ``args`` only)."""
    world = DecoratorWorld.of(tree)
    table = installed_by_model(tree)
    impl = tree.funcs.get(IMPLEMENT_NEW) or world.dec
    where = tree.loc(impl.node)
    if "__new__" not in table or len(table["__new__"]) != len(ALL_SIGNATURES):
        raise AnalysisError("vanished anchor: @unevaluated installs no __new__ on the model classes")
    with_nonsympy = [s for s in ALL_SIGNATURES if not all(s)]
    sympy_only = [s for s in ALL_SIGNATURES if all(s)]
    for attr in ("_eval_subs", "_xreplace"):
        have = table.get(attr, {})
        missing = [s for s in with_nonsympy if s not in have]
        if not have:
            ctx.violation("R-HOOKS", f"{IMPLEMENT_NEW}::missing hook {attr}", where,
                          f"@unevaluated installs no {attr}: Basic.{attr} rebuilds with self.func(*self.args) and loses non-SymPy attributes")
        elif missing:
            ctx.violation("R-HOOKS", f"{IMPLEMENT_NEW}::cls.{attr}::guard", where,
                          f"cls.{attr} is not installed for {len(missing)} of {len(with_nonsympy)} model classes with a non-SymPy field (e.g. fields <{_sig(missing[0])}>), "
                          f"but for {sum(1 for s in sympy_only if s in have)} of {len(sympy_only)} classes without one")
        else:
            name, loc = world.describe(next(iter(have.values())))
            ctx.ok("R-HOOKS", loc, f"cls.{attr} = {name.split('::')[-1]} is installed for every model class with a non-SymPy field" + (" (and for the others)" if all(s in have for s in sympy_only) else ""))
    have = table.get("_hashable_content", {})
    key = f"{IMPLEMENT_NEW}::cls._hashable_content"
    if not have:
        ctx.violation("R-HASH", f"{IMPLEMENT_NEW}::missing _hashable_content", where, "no _hashable_content hook: equality and hash ignore the non-SymPy attributes")
    elif any(s not in have for s in with_nonsympy):
        missing = [s for s in with_nonsympy if s not in have]
        ctx.violation("R-HASH", key + "::conditional", where, f"the _hashable_content hook is not installed for {len(missing)} of {len(with_nonsympy)} model classes with a non-SymPy field (e.g. <{_sig(missing[0])}>)")
    else:
        name, loc = world.describe(next(iter(have.values())))
        ctx.ok("R-HASH", loc, f"cls._hashable_content = {name.split('::')[-1]} is installed for every class with a non-SymPy field")


def _sig(sig: tuple[bool, ...]) -> str:
    return ", ".join("SymPy" if s else "non-SymPy" for s in sig) or "no fields"


# ---------------------------------------------------------------------------- the substitution hooks on a model
#
# R-DESCEND and R-PROPAGATE state what `_xreplace` / `_eval_subs` return for which instance and rule.  The
# hooks are interpreted on model instances with up to three field values of every kind that matters - an
# expression that reports a replacement, one that does not, an expression kept in a non-SymPy field, a plain
# attribute value that is / is not a key of the rule, a class object that merely HAS the method - and compared
# with what the specification returns for the same model.  How the loop is spelt does not matter.


class _Scenario:
    """One model instance of an @unevaluated class together with a substitution request."""

    def __init__(self, world: DecoratorWorld, kinds: tuple[str, ...]) -> None:
        self.kinds = kinds
        self.visits: dict[int, list] = {}
        self.values: list[MObj] = []
        self.results: dict[int, MObj] = {}
        self.bad_calls: list[str] = []
        self.rebuilds: list[tuple] = []
        self.sympify = tuple(kind in {"expr-hit", "expr-miss"} for kind in kinds)
        self.cls = world.model_class(self.sympify)
        for i, kind in enumerate(kinds):
            if kind.startswith("expr") or kind.startswith("attr-expr"):
                # an expression: itself an instance of a dataclass (every @unevaluated class is one) and not iterable
                v = MObj(f"a{i}: expression ({kind})", kinds={"expr"})
                v.attrs["__lacks__"] = ()
                v.attrs["__dataclass_fields__"] = {"x": MObj("field x", {"name": "x", "metadata": {}}, kinds={"Field"}, open=False)}
                v.attrs["x"] = MObj(f"a{i}.x", kinds={"expr"}, open=False)
                v.attrs["__iter__"] = _not_iterable
            elif kind.startswith("class"):
                v = MObj(f"a{i}: class object ({kind})", {"__iter__": _not_iterable}, kinds={"class"}, open=False)
            else:
                v = MObj(f"a{i}: plain value ({kind})", {"__iter__": _not_iterable}, kinds={"plain"}, open=False)
            self.values.append(v)
        self.me = MObj("self", kinds={"expr"})
        self.me.attrs.update({f"a{i}": v for i, v in enumerate(self.values)})
        self.me.attrs.update({
            "__class__": self.cls,
            "args": tuple(v for v, s in zip(self.values, self.sympify) if s),
            "func": self._rebuild,
            "is_Mul": False,
            "free_symbols": set(),
            "atoms": lambda a, k: set(),
            "has": lambda a, k: False,
            "find": lambda a, k: set(),
            "__iter__": _not_iterable,
        })
        self.me.attrs["_args"] = self.me.attrs["args"]

    def _rebuild(self, args, kwargs):
        self.rebuilds.append((tuple(args), dict(kwargs)))
        return MObj("self.func(" + ", ".join(map(repr, args)) + ")", {"__rebuilt__": (tuple(args), dict(kwargs)), "is_Mul": False}, kinds={"expr"})

    def describe(self) -> str:
        return "(" + ", ".join(self.kinds) + ")"


def _key_error(key):
    raise ModelRaise("KeyError", repr(key))


def _not_iterable(a, k):
    raise ModelRaise("TypeError", "the object is not iterable")


def _same_object(got, want) -> bool:
    if isinstance(want, tuple) and want and want[0] == "rebuilt":
        if not (isinstance(got, MObj) and "__rebuilt__" in got.attrs):
            return False
        args, kwargs = got.attrs["__rebuilt__"]
        return not kwargs and len(args) == len(want[1]) and all(x is y for x, y in zip(args, want[1]))
    return got is want


def _show(v) -> str:
    if isinstance(v, tuple) and v and v[0] == "rebuilt":
        return "self.func(" + ", ".join(map(repr, v[1])) + ")"
    if isinstance(v, tuple) and v and v[0] == "raises":
        return f"raises {v[1]}"
    if isinstance(v, tuple):
        return "(" + ", ".join(_show(x) for x in v) + ")"
    return repr(v)


def _xreplace_scenarios():
    kinds = ("expr-hit", "expr-miss", "attr-expr-hit", "plain-in", "plain-out", "class-in", "class-out")
    outside = tuple(k for k in kinds if not k.endswith("-in"))
    for rule_kind in ("mapping", "mapping with self as key", "empty mapping", "not a Mapping"):
        pool = kinds if rule_kind.startswith("mapping") else outside
        for n in range(4 if rule_kind == "mapping" else 3):
            for combo in itertools.product(pool, repeat=n):
                yield rule_kind, combo


def _run_xreplace(world: DecoratorWorld, rule_kind: str, combo: tuple[str, ...]):
    """(scenario, executor, outcome, expected, arguments that had to be descended into) - None if the class has no hook."""
    sc = _Scenario(world, combo)
    hook = sc.cls.installed.get("_xreplace")  # type: ignore[attr-defined]
    if hook is None:
        return None
    keys = {v: MObj(f"rule[a{i}]") for i, (v, k) in enumerate(zip(sc.values, combo)) if k.endswith("-in")}
    dummy = MObj("some sub-expression (a key that is no free symbol)")
    if rule_kind == "empty mapping":
        rule: object = {}
    elif rule_kind == "not a Mapping":
        rule = MObj("rule (not a Mapping)", {"__contains__": lambda a, k: a[0] in keys, "__getitem__": lambda a, k: keys[a[0]] if a[0] in keys else _key_error(a[0]), "__bool__": lambda a, k: True,
                                                "__iter__": lambda a, k: [dummy, *keys], "__len__": lambda a, k: len(keys) + 1}, kinds={"rule"})
    else:
        rule = {dummy: MObj("its replacement"), **keys}
        if rule_kind == "mapping with self as key":
            rule[sc.me] = MObj("rule[self]")
    for i, (v, kind) in enumerate(zip(sc.values, combo)):
        if "expr" in kind:
            new = MObj(f"a{i} with the rule applied") if kind.endswith("hit") else v
            sc.results[i] = new

            def xreplace(a, k, i=i, v=v, new=new):
                sc.visits.setdefault(i, []).append(a)
                if k or len(a) != 1 or a[0] is not rule:
                    sc.bad_calls.append(f"a{i}._xreplace({', '.join(map(repr, a))}) is not called with the rule")
                return (new, new is not v)

            v.attrs["_xreplace"] = xreplace
        elif kind.startswith("class"):
            def unbound(a, k):
                raise ModelRaise("TypeError", "_xreplace() of a class object called without an instance")

            v.attrs["_xreplace"] = unbound
    # specification
    if rule_kind == "mapping with self as key":
        want = (rule[sc.me], True)
        must_visit: list[int] = []
    elif rule_kind == "empty mapping":
        want = (sc.me, False)
        must_visit = []
    else:
        results, flags = [], []
        for i, (v, kind) in enumerate(zip(sc.values, combo)):
            if "expr" in kind:
                results.append(sc.results[i])
                flags.append(sc.results[i] is not v)
            elif isinstance(rule, dict):
                results.append(rule.get(v, v))
                flags.append(v in rule)
            else:
                results.append(v)
                flags.append(False)
        want = ((("rebuilt", results), True) if any(flags) else (sc.me, False))
        must_visit = [i for i, kind in enumerate(combo) if "expr" in kind]
    ex = world.exec()
    got = _interpret("_xreplace hook", lambda: ex.apply(hook, [sc.me, rule], {}))
    return sc, ex, got, want, must_visit


def _outcome_ok_pair(got, want) -> bool:
    return isinstance(got, tuple) and len(got) == 2 and got[0] != "raises" and isinstance(got[1], bool) and got[1] is want[1] and _same_object(got[0], want[0])


def _subs_scenarios():
    kinds = ("expr-hit", "expr-miss", "attr-expr-hit", "plain", "class")
    for n in range(4):
        for combo in itertools.product(kinds, repeat=n):
            for hints in ({}, {"hack2": True}) if n < 3 else ({},):
                yield combo, hints


def _run_subs(world: DecoratorWorld, combo: tuple[str, ...], hints: dict):
    sc = _Scenario(world, combo)
    hook = sc.cls.installed.get("_eval_subs")  # type: ignore[attr-defined]
    if hook is None:
        return None
    old, new = MObj("old"), MObj("new")
    for i, (v, kind) in enumerate(zip(sc.values, combo)):
        if "expr" in kind:
            res = MObj(f"a{i} with old -> new") if kind.endswith("hit") else v
            sc.results[i] = res

            def subs(a, k, i=i, v=v, res=res):
                sc.visits.setdefault(i, []).append(a)
                if len(a) != 2 or a[0] is not old or a[1] is not new:
                    sc.bad_calls.append(f"a{i}._subs({', '.join(map(repr, a))}) does not pass (old, new) in this order")
                    return MObj(f"a{i} with the wrong replacement")
                return res

            v.attrs["_subs"] = subs
            v.attrs["_eval_subs"] = subs
            v.attrs["subs"] = subs
        elif kind == "class":
            def unbound(a, k):
                raise ModelRaise("TypeError", "_subs() of a class object called without an instance")

            v.attrs["_subs"] = unbound
            v.attrs["_eval_subs"] = unbound
    results = [sc.results.get(i, v) for i, v in enumerate(sc.values)]
    want = ("rebuilt", results) if any(r is not v for r, v in zip(results, sc.values)) else sc.me
    ex = world.exec()
    got = _interpret("_eval_subs hook", lambda: ex.apply(hook, [sc.me, old, new], dict(hints)))
    return sc, ex, got, want, [i for i, kind in enumerate(combo) if "expr" in kind]


class _HookReport:
    """What the scenarios of one substitution hook showed."""

    def __init__(self) -> None:
        self.name = ""
        self.where = ""
        self.n = 0
        self.wrong: list[str] = []
        self.skipped: list[str] = []
        self.consulted: set[str] = set()
        self.deep: dict[str, str] = {}  # deep callee -> first scenario
        self.one_name_getter: list[str] = []  # scenarios in which a one-name attrgetter produced a bare value
        self.incomplete: list[str] = []  # scenarios in which the instance was rebuilt from the results of the SymPy fields only
        self.partial_rebuilds: list[str] = []  # self.func(...) with fewer values than fields
        self.n_rebuilds = 0


def _model_hook(tree: Tree, attr: str) -> _HookReport | None:
    """Run every scenario of one hook (None: the decorator installs no such hook on any model class)."""
    world = DecoratorWorld.of(tree)
    if ("hook", attr) in world.cache:
        return world.cache[("hook", attr)]
    rep = _HookReport()
    if attr == "_xreplace":
        runs = ((f"{_describe(c)}, rule: {rk}", _run_xreplace(world, rk, c), True) for rk, c in _xreplace_scenarios())
    else:
        runs = ((f"{_describe(c)}" + (f", hints {h}" if h else ""), _run_subs(world, c, h), False) for c, h in _subs_scenarios())
    any_hook = False
    for label, run, pair in runs:
        if run is None:
            continue  # no hook on this class (SymPy's own method applies; R-HOOKS states for which classes that is admissible)
        sc, ex, got, want, must_visit = run
        if not any_hook:
            any_hook = True
            rep.name, rep.where = world.describe(sc.cls.installed[attr])  # type: ignore[attr-defined]
        rep.n += 1
        ok = _outcome_ok_pair(got, want) if pair else _same_object(got, want)
        if sc.bad_calls:
            ok = False
        if not ok:
            rep.wrong.append(f"fields {label}: returns {_show(got)}, specified {_show(want)}" + (f" [{sc.bad_calls[0]}]" if sc.bad_calls else ""))
        missed = [i for i in must_visit if i not in sc.visits]
        if missed:
            views = sorted(set(sc.me.reads) & set(_FREE_SYMBOL_VIEWS))
            rep.consulted |= set(views)
            rep.skipped.append(f"fields {label}: " + ", ".join(f"a{i}" for i in missed) + " not descended into" + (f" (the hook consulted self.{views[0]})" if views else ""))
        for note in world.notes_since(ex):
            if note[0] == "deep" and (note[2] is sc.me or any(note[2] is v for v in sc.values)):
                rep.deep.setdefault(note[1], label)
            if note[0] == "attrgetter-one-name" and len(sc.values) == 1 and not ok:
                rep.one_name_getter.append(label)
        n_fields = len(sc.values)
        for args, _kw in sc.rebuilds:
            rep.n_rebuilds += 1
            if len(args) < n_fields:
                rep.partial_rebuilds.append(f"fields {label}: self.func({', '.join(map(repr, args))}) with {len(args)} of {n_fields} field values")
                sympy_results = [sc.results.get(i, v) for i, (v, s) in enumerate(zip(sc.values, sc.sympify)) if s]
                if len(args) == len(sympy_results) and all(x is y for x, y in zip(args, sympy_results)):
                    rep.incomplete.append(label)
    out = rep if any_hook else None
    world.cache[("hook", attr)] = out
    return out


def _describe(kinds: tuple[str, ...]) -> str:
    return "(" + ", ".join(kinds) + ")"


def check_descent(ctx: Check, tree: Tree) -> None:
    """R-DESCEND: the substitution hooks visit every argument whenever the rule is non-empty.

    They re-implement Basic._subs / Basic._xreplace for classes with non-SymPy fields.  A
    replacement key may be ANY sub-expression, so whether an argument has to be visited
    cannot be decided from the free symbols of the expression.  Decided on the model: in every
    scenario (non-empty rule that does not contain the instance itself) every field value that is an
    expression - in a SymPy field or not - receives the recursive call."""
    for attr in ("_xreplace", "_eval_subs"):
        rep = _model_hook(tree, attr)
        if rep is None:
            continue
        key = f"{rep.name}::descends-into-all-arguments"
        why = None
        if rep.skipped:
            why = {"scenarios": rep.skipped[:4], "count": len(rep.skipped)}
            if rep.consulted:
                first = sorted(rep.consulted)[0]
                why["why"] = (f"the hook decides from self.{first} whether anything can be replaced: xreplace/subs keys may be arbitrary sub-expressions (or non-SymPy attribute values), "
                              "not only free symbols: such replacements are silently skipped inside these classes, so replace-then-unfold differs from unfold-then-replace")
        ctx.verdict(not rep.skipped, "R-DESCEND", key, rep.where, f"{rep.name}: every field value that is an expression receives the recursive call whenever the rule is non-empty ({rep.n} model instances)", why)


def check_change_propagation(ctx: Check, tree: Tree) -> None:
    """R-PROPAGATE: the substitution hooks return a rebuilt instance exactly when a replacement
    happened somewhere below, built from the per-argument results:
      _xreplace:  (rule[self], True) iff `self in rule`; (self, False) for an empty rule; else for every
                  field value the pair (result, replaced?) of `value._xreplace(rule)` if it is an
                  expression (has the method and is not a class), (rule.get(value, value), value in rule)
                  for a Mapping, (value, False) otherwise; (self.func(*results), True) iff some flag
                  is set, else (self, False).
      _eval_subs: value._subs(old, new, **hints) with the hook's own (old, new) in that order for every
                  field value that is an expression; self.func(*results) iff some result is not the
                  value it came from, else self.
    Decided by interpreting the hooks on model instances (see above) and comparing with this
    specification, scenario by scenario."""
    for attr, what in (("_xreplace", "_xreplace hook: (rule[self], True) iff self in rule; every argument's result collected; rebuilt instance iff some argument reported a replacement"),
                       ("_eval_subs", "_eval_subs hook: arg._subs(old, new) per argument; a differing result sets the hit flag and replaces that argument's slot; rebuilt instance iff hit, else self")):
        rep = _model_hook(tree, attr)
        if rep is None:
            continue
        ctx.stats[f"model_instances{attr}"] = rep.n
        ctx.verdict(not rep.wrong, "R-PROPAGATE", f"{rep.name}::change-propagation", rep.where, f"{what} ({rep.n} model instances)",
                    {"scenarios": rep.wrong[:4], "count": len(rep.wrong)} if rep.wrong else None)


# ---------------------------------------------------------------------------- R-SHALLOW / R-COMPLETE
def _getnewargs_model(tree: Tree, attr: str) -> dict | None:
    """Interpret the argument hook (``__getnewargs__``) on model instances of every field layout with up to three
    fields; every field value is itself a dataclass instance (a nested @unevaluated expression)."""
    world = DecoratorWorld.of(tree)
    out = {"n": 0, "name": "", "where": "", "deep": {}, "not_tuple": [], "one_name_getter": [], "incomplete": [], "other": [], "raises": []}
    any_hook = False
    def nested(label: str) -> MObj:
        v = MObj(label, kinds={"expr"}, open=False)
        v.attrs["__dataclass_fields__"] = {"x": MObj("field x", {"name": "x", "metadata": {}}, kinds={"Field"}, open=False)}
        v.attrs["x"] = MObj(f"{label}.x", kinds={"expr"}, open=False)
        v.attrs["__iter__"] = _not_iterable
        return v

    # every field layout; then the layouts whose trailing fields are OPTIONAL (they carry a default), with every
    # combination of "the instance holds the default object itself" / "the instance holds another value"
    scenarios: list[tuple[tuple, tuple, tuple]] = [(sig, (), ()) for sig in ALL_SIGNATURES]
    for sig in ALL_SIGNATURES:
        for first_optional in range(len(sig)):
            n_opt = len(sig) - first_optional
            if n_opt > 2:
                continue
            for holds in itertools.product((True, False), repeat=n_opt):
                scenarios.append((sig, tuple(i >= first_optional for i in range(len(sig))), (False,) * first_optional + holds))
    default_objects: dict[tuple, tuple] = {}
    for sig, optional, holds_default in scenarios:
        defaults: tuple = ()
        if optional:
            dkey = (sig, optional)
            if dkey not in default_objects:
                default_objects[dkey] = tuple(nested(f"default of a{i}") if o else None for i, o in enumerate(optional))
            defaults = default_objects[dkey]
        cls = world.model_class(sig, defaults) if optional else world.model_class(sig)
        hook = cls.installed.get(attr)  # type: ignore[attr-defined]
        if hook is None:
            continue
        if not any_hook:
            any_hook = True
            out["name"], out["where"] = world.describe(hook)
        values = []
        for i, s in enumerate(sig):
            if optional and holds_default[i]:
                values.append(defaults[i])
                continue
            values.append(nested(f"a{i}: nested expression" if s else f"a{i}: nested expression in a non-SymPy field"))
        me = MObj("self", {f"a{i}": v for i, v in enumerate(values)}, kinds={"expr"}, open=False)
        me.attrs.update({"__class__": cls, "args": tuple(v for v, s in zip(values, sig) if s), "__iter__": _not_iterable})
        me.attrs["_args"] = me.attrs["args"]
        ex = world.exec()
        got = _interpret(f"{attr} hook", lambda ex=ex, hook=hook, me=me: ex.apply(hook, [me], {}))
        out["n"] += 1
        label = f"fields <{_sig(sig)}>"
        if optional:
            label += " (optional: " + ", ".join(f"a{i} {'holds its default' if holds_default[i] else 'set by the caller'}" for i, o in enumerate(optional) if o) + ")"
        notes = world.notes_since(ex)
        deep = [n for n in notes if n[0] == "deep"]
        for n in deep:
            out["deep"].setdefault(n[1], label)
        if isinstance(got, tuple) and got and got[0] == "raises":
            out["raises"].append(f"{label}: {got[1]}")
            continue
        if not isinstance(got, (tuple, list)):
            (out["one_name_getter"] if any(n[0] == "attrgetter-one-name" for n in notes) else out["not_tuple"]).append(f"{label}: returns {got!r}")
            continue
        if len(got) == len(values) and all(x is y for x, y in zip(got, values)):
            continue
        sympy_values = [v for v, s in zip(values, sig) if s]
        if not deep and len(got) == len(sympy_values) and all(x is y for x, y in zip(got, sympy_values)) and not optional:
            out["incomplete"].append(f"{label}: returns {tuple(got)!r}")
        elif not deep and optional and len(got) < len(values) and all(x is y for x, y in zip(got, values)) and all(h for h in holds_default[len(got):]):
            continue  # only trailing fields that hold their default are left out: __new__ fills them in again
        elif not deep:
            out["other"].append(f"{label}: returns {tuple(got)!r}, the field values are {tuple(values)!r}")
    return out if any_hook else None


def check_shallow_hooks(ctx: Check, tree: Tree, hook_names: list[str], need_complete: bool) -> None:
    """R-SHALLOW / R-COMPLETE: the hooks take the instance's arguments from a shallow and complete source - the
    field values themselves, all of them, in field order, as a tuple for every number of fields.  Decided on the
    model: ``__getnewargs__`` must return exactly the tuple of the field values (which are nested dataclass
    instances); the substitution hooks must hand every field value itself to the recursive call and rebuild from
    one value per field.  ``dataclasses.astuple`` / ``asdict`` / ``copy.deepcopy`` destructure or copy nested
    expressions (their models say so), ``operator.attrgetter`` with one name yields the bare value."""
    table = installed_by_model(tree)
    for attr in hook_names:
        if attr not in table:
            if attr in {"_eval_subs", "_xreplace"}:
                continue  # R-HOOKS reports the missing hook
            raise AnalysisError(f"vanished anchor: hook {attr} is not installed by @unevaluated on any model class")
        if attr in {"_eval_subs", "_xreplace"}:
            rep = _model_hook(tree, attr)
            if rep is None:
                continue
            facts = {"name": rep.name, "where": rep.where, "n": rep.n, "deep": rep.deep, "one_name_getter": rep.one_name_getter, "incomplete": rep.incomplete,
                     "not_tuple": [], "other": [], "raises": []}
        else:
            facts = _getnewargs_model(tree, attr)
            if facts is None:
                raise AnalysisError(f"vanished anchor: hook {attr} is not installed on any model class")
        what = f"cls.{attr} = {facts['name'].split('::')[-1]}"
        where = facts["where"]
        bad = False
        for callee, label in sorted(facts["deep"].items()):
            bad = True
            ctx.violation("R-SHALLOW", f"{IMPLEMENT_NEW}::cls.{attr}->{callee}", where, f"{what}: reads the arguments with {callee} ({label})",
                          {"deep_source": callee, "why": DEEP_SOURCES.get(callee, "copies / destructures nested expressions"), "path": [IMPLEMENT_NEW, facts["name"]]})
        if facts["one_name_getter"]:
            bad = True
            single = sorted(c.qual.split("::")[-1] for c in expression_classes(tree).values() if len(c.fields) == 1)
            ctx.violation("R-SHALLOW", f"{IMPLEMENT_NEW}::cls.{attr}->operator.attrgetter::arity", where,
                          f"{what}: reads the fields with operator.attrgetter - for a class with ONE field that is the bare value, not a 1-tuple ({facts['one_name_getter'][0]})",
                          {"why": "the hooks rebuild with cls(*arguments): a bare expression is unpacked (or fails to)", "one_field_classes": single[:8], "n_one_field_classes": len(single)})
        if facts["not_tuple"]:
            bad = True
            ctx.violation("R-SHALLOW", f"{IMPLEMENT_NEW}::cls.{attr}::not-a-tuple", where, f"{what}: does not return a tuple of the field values ({facts['not_tuple'][0]})")
        if facts["raises"] and not bad:
            bad = True
            ctx.violation("R-SHALLOW", f"{IMPLEMENT_NEW}::cls.{attr}::raises", where, f"{what}: raises on a model instance ({facts['raises'][0]})")
        if facts["other"]:
            bad = True
            ctx.violation("R-COMPLETE", f"{IMPLEMENT_NEW}::cls.{attr}::not-the-field-values", where, f"{what}: does not return the field values in field order ({facts['other'][0]})")
        if facts["incomplete"] and need_complete:
            bad = True
            ctx.violation("R-COMPLETE", f"{IMPLEMENT_NEW}::cls.{attr}::incomplete", where,
                          f"{what}: the arguments omit the non-SymPy fields, but the object is rebuilt with all fields ({facts['incomplete'][0]})")
        if not bad:
            ctx.ok("R-SHALLOW", where, f"{what}: on {facts['n']} model instances the arguments are the field values themselves (nested dataclass instances are handed out as they are), one per field, in field order")


# ---------------------------------------------------------------------------- R-EVALSUBST
def _own_argument_names(fn: FuncInfo, field_names: set[str]) -> set[str]:
    """Locals of ``evaluate`` that hold an argument of the instance: targets of an unpacking of ``self.args`` and plain
    copies of ``self.<field>`` / ``self.args[i]``."""
    out: set[str] = set()
    for n in walk_function(fn.node, nested=False):
        if not isinstance(n, ast.Assign) or len(n.targets) != 1:
            continue
        t, v = n.targets[0], n.value
        text = unparse(v)
        if isinstance(t, (ast.Tuple, ast.List)) and text in {"self.args", "self._args"}:
            for e in t.elts:
                e = e.value if isinstance(e, ast.Starred) else e
                if isinstance(e, ast.Name):
                    out.add(e.id)
        elif isinstance(t, ast.Name) and (text.startswith("self.args[") or (text.startswith("self.") and text[5:] in field_names)):
            out.add(t.id)
    return out


def _substitution_keys(fn: FuncInfo, call: ast.Call) -> list[ast.AST]:
    """The expressions that a .xreplace / .subs / .replace call replaces (keys of a dict display - directly or through
    one local -, first element of pairs, first positional argument of the two-argument forms)."""
    def keys_of(e: ast.AST, depth: int = 0) -> list[ast.AST]:
        if isinstance(e, ast.Dict):
            return [k for k in e.keys if k is not None]
        if isinstance(e, ast.DictComp):
            return [e.key]
        if isinstance(e, (ast.List, ast.Tuple)):
            return [x.elts[0] for x in e.elts if isinstance(x, (ast.Tuple, ast.List)) and len(x.elts) == 2]
        if isinstance(e, ast.Call) and isinstance(e.func, ast.Name) and e.func.id in {"dict", "zip", "list", "tuple"} and e.args:
            if e.func.id == "zip":
                a = e.args[0]
                return list(a.elts) if isinstance(a, (ast.List, ast.Tuple)) else [a]
            return keys_of(e.args[0], depth)
        if isinstance(e, ast.Name) and depth < 2:
            out: list[ast.AST] = []
            for n in walk_function(fn.node, nested=False):
                if isinstance(n, ast.Assign) and len(n.targets) == 1 and isinstance(n.targets[0], ast.Name) and n.targets[0].id == e.id:
                    out += keys_of(n.value, depth + 1)
                elif isinstance(n, ast.Assign) and len(n.targets) == 1 and isinstance(n.targets[0], ast.Subscript) and isinstance(n.targets[0].value, ast.Name) and n.targets[0].value.id == e.id:
                    out.append(n.targets[0].slice)
            return out
        return []

    if len(call.args) == 2 and call.func.attr in {"subs", "replace"}:  # type: ignore[union-attr]
        return [call.args[0]]
    return keys_of(call.args[0]) if call.args else []


def check_evaluate_substitutes_own_arguments(ctx: Check, tree: Tree) -> None:
    """R-EVALSUBST: the definition that ``evaluate()`` of an @unevaluated class builds must not be obtained by
    substituting FOR one of the instance's own arguments (``expr.xreplace({s: m0**2})`` with ``s`` an argument): after
    an outer substitution the argument is an arbitrary expression - a number, another argument, a sub-expression of
    another argument - and the inner substitution then also rewrites the other occurrences, so substituting and then
    unfolding differs from unfolding and then substituting.  Helpers of the package that receive own arguments are
    followed (two levels)."""
    classes = expression_classes(tree)
    n = 0
    for q, ec in sorted(classes.items()):
        ev = ec.method("evaluate")
        if ev is None:
            continue
        n += 1
        field_names = {f.name for f in ec.fields}
        work: list[tuple[FuncInfo, set[str], int]] = [(ev, _own_argument_names(ev, field_names), 0)]
        seen: set[str] = set()
        problems: list[tuple[ast.AST, str]] = []
        while work:
            fn, own, depth = work.pop()
            if fn.qual in seen:
                continue
            seen.add(fn.qual)

            def is_own(e: ast.AST, own=own, fn=fn) -> bool:
                if isinstance(e, ast.Name):
                    return e.id in own
                text = unparse(e)
                return fn is ev and (text.startswith("self.args[") or (text.startswith("self.") and text[5:] in field_names))

            for node in walk_function(fn.node, nested=False):
                if isinstance(node, ast.Call) and isinstance(node.func, ast.Attribute) and node.func.attr in {"xreplace", "subs", "replace"}:
                    for k in _substitution_keys(fn, node):
                        if is_own(k):
                            problems.append((node, f"{fn.qual}: `{unparse(node)[:70]}` substitutes for `{unparse(k)}`, an argument of the instance"))
                if isinstance(node, ast.Call) and depth < 2:
                    callee = tree.callee(node, fn)
                    target = tree.funcs.get(callee) if callee else None
                    if target is None or not target.qual.startswith("ampform") or target.cls is not None and target.name in {"__new__", "__init__"}:
                        continue
                    names = target.params
                    if target.cls is not None and names and names[0] in {"self", "cls"}:
                        names = names[1:]
                    bound = {pn for a, pn in zip(node.args, names) if is_own(a)} | {kw.arg for kw in node.keywords if kw.arg and is_own(kw.value)}
                    if bound:
                        work.append((target, bound, depth + 1))
        ctx.verdict(not problems, "R-EVALSUBST", f"{q}.evaluate::substitutes-own-argument", tree.loc(problems[0][0] if problems else ev.node),
                    f"{ec.name}.evaluate builds its definition without substituting for one of its own arguments", [t for _, t in problems] or None)
    if n < 10:
        raise AnalysisError(f"R-EVALSUBST: only {n} evaluate() methods of @unevaluated classes found (more than 20 confirmed)")


# ---------------------------------------------------------------------------- R-PREC
def check_precedence(ctx: Check, tree: Tree, prefixes: tuple[str, ...]) -> int:
    """R-PREC over the printer methods of the given modules."""
    from ..rules import precedence_hazards, printer_methods

    n = 0
    undecided: list[tuple] = []
    for fn in sorted(printer_methods(tree), key=lambda f: f.qual):
        if not fn.qual.startswith(prefixes):
            continue
        n += 1
        fields_of_holes: dict = {}
        hz = precedence_hazards(tree, fn, undecided, fields_of_holes)
        if hz:
            hole, why = hz[0]
            label = f"field {fields_of_holes[id(hole)]}" if id(hole) in fields_of_holes else _hole_label(tree, fn, hole)
            ctx.violation("R-PREC", f"{fn.qual}::precedence::{label}", tree.loc(hole), f"{fn.qual}: {why}",
                          "printer._print returns e.g. `a + b` for a sum without parentheses: `-{x}` / `{x}**2` / `{x} * c` then bind to the last term only, "
                          "so the generated code of the folded form computes something else than the unfolded expression for compound arguments")
        else:
            ctx.ok("R-PREC", tree.loc(fn.node), f"{fn.qual}: no printed sub-expression sits unparenthesised next to a tighter-binding operator")
    if undecided:
        raise AnalysisError("; ".join(f"{tree.loc(hole)}: {why}" for hole, why in undecided[:3]))
    return n


def _hole_label(tree: Tree, fn, hole: ast.AST) -> str:
    """Key of a placeholder: the field of the class that it prints (not the name of the local that holds it)."""
    label = unparse(hole)
    ec = expression_classes(tree).get(fn.cls.qual) if fn.cls is not None else None
    if ec is None or not isinstance(hole, ast.Name):
        return label
    for _st, elts, _ in self_args_unpackings(fn, tree):
        for e, f_ in zip(elts, [x.name for x in ec.sympy_fields]):
            if isinstance(e, ast.Name) and e.id == hole.id:
                label = f"field {f_}"
    # `x = printer._print(self.<field>)`: the same field reached by attribute
    from ..dataflow import RD

    for d in RD(fn.node).reaching(hole):
        v = d.value
        if isinstance(v, ast.Call) and v.args and isinstance(v.args[0], ast.Attribute) and isinstance(v.args[0].value, ast.Name) and v.args[0].value.id == "self" \
                and v.args[0].attr in {x.name for x in ec.fields}:
            label = f"field {v.args[0].attr}"
    return label


# ---------------------------------------------------------------------------- R-HASH / R-INJECTIVE
def _content_instance(world: DecoratorWorld, values: dict[str, object]):
    """A model instance with the fields s0, n0, s1, n1, n2 (s: SymPy argument, n: non-SymPy attribute)."""
    sig = (True, False, True, False, False)
    names = ("s0", "n0", "s1", "n1", "n2")
    cls = world.model_class(sig)
    inherited = (world.type_marker, values["s0"], values["s1"])
    me = MObj("self", {f"a{i}": values[n] for i, n in enumerate(names)}, kinds={"expr"}, open=False)
    me.attrs.update({"__class__": cls, "args": (values["s0"], values["s1"]), "_args": (values["s0"], values["s1"]),
                     "__super__": MObj("super()", {"_hashable_content": lambda a, k: inherited}, open=False)})
    return cls, me, inherited


def hashable_content_model(tree: Tree, hook_fn=None) -> dict:
    """Interpret the installed ``_hashable_content`` hook on a model instance with the fields s0, s1 (SymPy
    arguments) and n0, n1, n2 (non-SymPy attributes: a plain value, a class object, None).  A function of the
    package that is called with exactly one field value is a KEY FUNCTION (its result stands for that value); it
    is recorded (for naming the culprit) and entered.  Which non-SymPy attributes the content COVERS is decided by
    varying one attribute at a time: the content must change."""
    world = DecoratorWorld.of(tree)
    if "content" in world.cache:
        return world.cache["content"]
    base = {"s0": MObj("value of s0", kinds={"expr"}, open=False), "s1": MObj("value of s1", kinds={"expr"}, open=False),
            "n0": "rho", "n1": MObj("value of n1 (a class)", {"__module__": "m", "__qualname__": "A", "__name__": "A", "__str__": lambda a, k: "<class 'm.A'>"}, kinds={"class"}, open=False), "n2": None}
    key_fns: dict[str, object] = {}

    def run(values, record=False):
        cls, me, inherited = _content_instance(world, values)
        hook = cls.installed.get("_hashable_content")  # type: ignore[attr-defined]
        if hook is None:
            raise AnalysisError("no _hashable_content hook on the model class")
        field_values = [v for v in values.values()]

        def intercept(fn, args, kwargs):
            if record and len(args) == 1 and not kwargs and any(args[0] is v for v in field_values if isinstance(v, MObj)):
                key_fns[fn.qual] = fn
            return False, None

        ex = world.exec(intercept=intercept)
        got = _interpret("_hashable_content hook", lambda: ex.apply(hook, [me], {}))
        if isinstance(got, tuple) and got and got[0] == "raises":
            raise AnalysisError(f"_hashable_content hook: {got[1]} on the model instance")
        if not isinstance(got, (tuple, list)):
            raise AnalysisError(f"_hashable_content hook: returns {got!r} on the model instance, not a tuple")
        return ex, tuple(got), inherited, hook

    ex0, content0, inherited0, hook = run(base, record=True)
    name, where = world.describe(hook)
    other = {"n0": "sigma", "n1": MObj("another class", {"__module__": "m", "__qualname__": "B", "__name__": "B", "__str__": lambda a, k: "<class 'm.B'>"}, kinds={"class"}, open=False),
             "n2": "name"}
    missing = []
    for n in ("n0", "n1", "n2"):
        ex1, content1, _, _ = run({**base, n: other[n]})
        if _contents_equal(ex1, content0, content1, inherited0):
            missing.append(n)
    has_super = all(any(x is y for x in content0) for y in inherited0)
    # items beyond the inherited content that do not change with any non-SymPy attribute: the SymPy fields were kept instead
    wrapped_sympy = ["s0", "s1"][: max(0, len(content0) - len(inherited0))] if missing and has_super else []
    out = {"missing": missing, "wrapped_sympy": wrapped_sympy, "has_super": has_super, "key_fns": list(key_fns.values()), "name": name, "where": where, "run": run, "base": base}
    world.cache["content"] = out
    return out


def _contents_equal(ex, c1: tuple, c2: tuple, inherited=()) -> bool:
    """Model equality of two hashable contents (tuple equality, element-wise with the elements' own __eq__)."""
    return bool(ex.compare(ast.Eq(), tuple(c1), tuple(c2), None))


def check_hash_content(ctx: Check, tree: Tree) -> None:
    """R-HASH (content): the installed hook returns the inherited content (class, args) plus something that
    changes with every non-SymPy attribute."""
    content = hashable_content_model(tree)
    key = f"{IMPLEMENT_NEW}::cls._hashable_content"
    missing, wrapped_sympy, has_super = content["missing"], content["wrapped_sympy"], content["has_super"]
    name, where = content["name"], content["where"]
    if missing and not wrapped_sympy:
        ctx.violation("R-HASH", key + "::no-fields", where, f"{name} does not return the values of the non-SymPy fields: instances that differ only in a non-SymPy attribute compare equal")
    elif missing:
        ctx.violation("R-HASH", key + "::filter", where, f"{name} keeps the values of the fields {wrapped_sympy} and drops {missing}: non-SymPy fields are not the ones kept")
    elif not has_super:
        ctx.violation("R-HASH", key + "::no-super", where, f"{name} drops the class/args part of the hashable content")
    else:
        ctx.ok("R-HASH", where, f"cls._hashable_content = {name.split('::')[-1]}: returns the inherited content and changes with each of the three non-SymPy attributes of the model instance")


def check_content_injective(ctx: Check, tree: Tree, hook_fn=None) -> None:
    """R-INJECTIVE: "equal exactly when ... non-SymPy attributes are equal".  _hashable_content
    maps every non-SymPy attribute to a key.  For a *hashable* attribute (a class, a function, an instance,
    a functools.partial) the key must determine the attribute: two DISTINCT attributes that merely look alike -
    two classes or functions with the same module and qualified name (a redefined notebook cell, two closures of
    one factory), two instances with the same str(), two partials that differ in a keyword value - must give
    different contents; the SAME attribute must give equal contents.  Decided on the model: the installed hook
    is interpreted on pairs of instances that differ in exactly one such attribute and the two contents are
    compared with the keys' own ``__eq__``.  (For *unhashable* attributes no exact key exists: equal contents of
    two unhashable look-alikes are recorded as an advisory.)"""
    content = hashable_content_model(tree)
    run, base = content["run"], content["base"]
    key_fns = content["key_fns"]
    culprit = key_fns[0].qual if len(key_fns) == 1 else content["name"]
    where = tree.loc(key_fns[0].node) if len(key_fns) == 1 else content["where"]

    def lookalike(label, kinds, hashable=True, **attrs):
        def make(tag):
            return MObj(f"{label} {tag}", {"__module__": "m", "__qualname__": "f.<locals>.Q", "__name__": "Q", "__str__": lambda a, k: f"<{label} Q>", **attrs}, kinds=kinds, open=False, hashable=hashable)

        return make("#1"), make("#2")

    shared_func = MObj("function F", {"__module__": "m", "__qualname__": "F", "__name__": "F", "__str__": lambda a, k: "<function F>"}, kinds={"function"}, open=False)
    pairs = [
        ("class", "two distinct classes with the same module and qualified name", *lookalike("class", {"class"})),
        ("function", "two distinct functions with the same module and qualified name (closures of one factory, lambdas)", *lookalike("function", {"function"})),
        ("instance", "two distinct hashable instances with the same str()", *lookalike("instance", {"plain"})),
        ("partial", "two functools.partial objects that differ only in the value of a keyword (partial(F, flag=False) / partial(F, flag=True))",
         MObj("partial(F, flag=False)", {"func": shared_func, "args": (), "keywords": {"flag": False}, "__str__": lambda a, k: "functools.partial(<function F>, flag=False)"}, kinds={"functools.partial", "plain"}, open=False),
         MObj("partial(F, flag=True)", {"func": shared_func, "args": (), "keywords": {"flag": True}, "__str__": lambda a, k: "functools.partial(<function F>, flag=True)"}, kinds={"functools.partial", "plain"}, open=False)),
    ]
    unhashable = ("unhashable", "two distinct unhashable attributes with the same str()", *lookalike("unhashable object", {"plain"}, hashable=False))
    n = 0
    problems: dict[str, list[str]] = {}
    for kind, text, x, y in [*pairs, unhashable]:
        for field in ("n1",):
            ex1, c1, inh1, _ = run({**base, field: x})
            ex2, c2, _, _ = run({**base, field: y})
            ex3, c3, _, _ = run({**base, field: x})
            n += 1
            if not _contents_equal(ex3, c1, c3):
                problems.setdefault("not-reproducible", []).append(f"{text}: the SAME attribute gives different contents")
            if _contents_equal(ex2, c1, c2):
                if kind == "unhashable":
                    ctx.advisory("R-INJECTIVE", where, f"{culprit}: unhashable attributes with the same str() get the same key (no exact key exists for them)")
                else:
                    problems.setdefault("lossy-structural-key" if kind == "partial" else "name-derived-key", []).append(text)
    # a wrapper class that defines __eq__ without __hash__ is unhashable: hash(expr) raises
    for kf_key, texts in sorted(problems.items()):
        detail = {
            "name-derived-key": "two distinct classes / functions with the same module and qualified name (redefinition in a session, closures of one factory, lambdas) give equal, equally hashed expressions although evaluate() differs",
            "lossy-structural-key": "two attributes that differ only in the dropped part (e.g. partial(f, flag=False) vs partial(f, flag=True)) give equal, equally hashed expressions with different doit()",
            "not-reproducible": "two expressions built from the same class, arguments and attributes do not compare equal",
        }[kf_key]
        ctx.violation("R-INJECTIVE", f"{culprit}::{kf_key}", where, f"{culprit}: the hashable content does not determine the attribute - " + "; ".join(texts[:3]), detail)
    if not problems:
        ctx.ok("R-INJECTIVE", where, f"{culprit}: on {n} pairs of model instances that differ in one look-alike attribute (classes, functions, instances, partials of equal name / str) the contents differ, "
                                     "and the same attribute gives equal contents")


# ---------------------------------------------------------------------------- R-ARGORDER
def check_arg_order(ctx: Check, tree: Tree) -> None:
    """R-ARGORDER: `.args` of an instance are in field-declaration order however the call spells its
    arguments (evaluate()/printers unpack `self.args` positionally, subs/xreplace/pickle rebuild
    positionally), and every field is bound to the value given for it.  Decided on the model: the installed
    ``__new__`` is interpreted on a model class with four fields (SymPy, non-SymPy with default, SymPy, SymPy with
    default) for calls that give the values positionally, by keyword in REVERSED order, mixed, and with defaults
    left out; the resulting instance must have ``args`` = the values of the SymPy fields in field order and every
    attribute bound to its value."""
    world = DecoratorWorld.of(tree)
    d1, d3 = MObj("default of a1"), MObj("default of a3")
    sig = (True, False, True, True)
    cls = world.model_class(sig, defaults=(None, d1, None, d3))
    new = cls.installed.get("__new__")  # type: ignore[attr-defined]
    if new is None:
        raise AnalysisError("vanished anchor: @unevaluated installs no __new__")
    name, where = world.describe(new)
    v = [MObj(f"value for a{i}", kinds={"expr"}, open=False) for i in range(4)]
    calls = [
        ("all positional", list(v), {}, v),
        ("three positional, a3 by default", v[:3], {}, [v[0], v[1], v[2], d3]),
        ("a0 positional, the others by keyword in reversed order", v[:1], {"a3": v[3], "a2": v[2], "a1": v[1]}, v),
        ("all by keyword in reversed order", [], {"a3": v[3], "a2": v[2], "a1": v[1], "a0": v[0]}, v),
        ("a0 positional, a3 and a2 by keyword (reversed), a1 by default", v[:1], {"a3": v[3], "a2": v[2]}, [v[0], d1, v[2], v[3]]),
        ("a0 positional, a2 by keyword, a1 and a3 by default", v[:1], {"a2": v[2]}, [v[0], d1, v[2], d3]),
        ("a2 and a0 by keyword, a1 and a3 by default", [], {"a2": v[2], "a0": v[0]}, [v[0], d1, v[2], d3]),
    ]
    permuted, wrong = [], []
    for label, args, kwargs, want in calls:
        ex = world.exec()
        got = _interpret("__new__ hook", lambda ex=ex, args=args, kwargs=kwargs: ex.apply(new, [cls, *args], dict(kwargs)))
        want_args = [x for x, s in zip(want, sig) if s]
        if not (isinstance(got, MObj) and "args" in got.attrs):
            wrong.append(f"{label}: returns {_show(got)}")
            continue
        got_args = list(got.attrs["args"])
        bound = [got.attrs.get(f"a{i}", None) for i in range(4)]
        if len(got_args) == len(want_args) and all(x is y for x, y in zip(got_args, want_args)) and all(x is y for x, y in zip(bound, want)):
            continue
        if sorted(map(id, got_args)) == sorted(map(id, want_args)) and all(x is y for x, y in zip(bound, want)):
            permuted.append(f"{label}: args = {tuple(got_args)!r}, in field order {tuple(want_args)!r}")
        else:
            wrong.append(f"{label}: args = {tuple(got_args)!r}, attributes {tuple(bound)!r}; specified args {tuple(want_args)!r}, attributes {tuple(want)!r}")
    if permuted:
        ctx.violation("R-ARGORDER", f"{IMPLEMENT_NEW}::cls.__new__::args-in-call-order", where, f"{name}: the SymPy args follow the order in which the caller spelt the arguments: " + "; ".join(permuted[:2]),
                      "Cls(b=.., a=..) then has .args == (b, a): evaluate() unpacks `a, b = self.args` and computes with the values interchanged, while the named attributes still look right")
    if wrong:
        ctx.violation("R-ARGORDER", f"{IMPLEMENT_NEW}::cls.__new__::binding", where, f"{name}: the constructed instance does not carry the given values: " + "; ".join(wrong[:2]))
    if not permuted and not wrong:
        ctx.ok("R-ARGORDER", where, f"{name}: on {len(calls)} model calls (positional, keywords in reversed order, mixed, defaults in between) .args are the values of the SymPy fields in field-declaration order and every attribute is bound to its value")


# ---------------------------------------------------------------------------- R-REBUILD
def check_internal_rebuild(ctx: Check, tree: Tree) -> None:
    """R-REBUILD (decorator): a method that @unevaluated installs on every class reconstructs an
    instance only from the COMPLETE list of field values, never from `self.args` (SymPy arguments only) -
    otherwise the copy carries the defaults of the non-SymPy attributes (phsp_factor=PhaseSpaceFactor,
    name=None) and e.g. doit() of a width with a nested argument unfolds with another phase-space factor than the
    one it was built with.  Decided on the model: every installed method is interpreted on a model instance with
    a non-SymPy field whose SymPy arguments change under ``doit()``; every ``self.func(...)`` it calls must receive
    one value per field."""
    world = DecoratorWorld.of(tree)
    n_checked = 0
    for attr in ("_eval_subs", "_xreplace"):
        rep = _model_hook(tree, attr)
        if rep is None:
            continue
        n_checked += 1
        key = f"{rep.name}::self.func from self.args"
        ctx.verdict(not rep.partial_rebuilds, "R-REBUILD", key, rep.where,
                    f"{rep.name}: every one of the {rep.n_rebuilds} reconstructions `self.func(...)` on the model instances receives one value per field",
                    {"scenarios": rep.partial_rebuilds[:3], "why": "non-SymPy attributes of the rebuilt instance fall back to their defaults"} if rep.partial_rebuilds else None)
    # the other installed methods (doit, _latex, ... - whatever the decorator installs on a class with an evaluate() and a LaTeX template)
    sig = (True, False, True)
    variants = [((), "plain class"), ((("_latex_repr_", "{a0} {a2}"),), "class with a _latex_repr_ template")]
    seen: set[str] = set()
    for extra, vlabel in variants:
        cls = world.model_class(sig, extra=extra)
        for attr, f in sorted(cls.installed.items(), key=lambda kv: kv[0]):  # type: ignore[attr-defined]
            if attr in {"__new__", "_eval_subs", "_xreplace"} or not isinstance(f, _FuncRef):
                continue
            name, where = world.describe(f)
            if name in seen:
                continue
            seen.add(name)
            node = f.node if f.node is not None else f.fn.node
            params = [a.arg for a in [*node.args.posonlyargs, *node.args.args]]
            required = params[: len(params) - len(node.args.defaults)]
            if not required:
                continue
            rebuilds: list[tuple] = []
            values = []
            for i, s in enumerate(sig):
                val = MObj(f"a{i}", kinds={"expr"} if s else {"plain"}, open=False)
                if s:
                    val.attrs["doit"] = lambda a, k, i=i: MObj(f"a{i}.doit()", kinds={"expr"}, open=False)
                    val.attrs["__iter__"] = _not_iterable
                values.append(val)
            me = MObj("self", {f"a{i}": x for i, x in enumerate(values)}, kinds={"expr"}, open=False)

            def func(a, k, rebuilds=rebuilds):
                rebuilds.append(tuple(a))
                return MObj("self.func(" + ", ".join(map(repr, a)) + ")", {"evaluate": lambda a2, k2: MObj("rebuilt.evaluate()", {"doit": lambda a3, k3: MObj("unfolded", kinds={"expr"})}, kinds={"expr"}),
                                                                              "doit": lambda a2, k2: MObj("rebuilt.doit()", kinds={"expr"})}, kinds={"expr"}, open=False)

            me.attrs.update({"__class__": cls, "args": tuple(x for x, s in zip(values, sig) if s), "func": func, "__iter__": _not_iterable,
                             "__super__": MObj("super()", {"_hashable_content": lambda a, k: ()}, open=False)})
            me.attrs["_args"] = me.attrs["args"]
            printer = MObj("printer", {"_print": lambda a, k: f"<{a[0]!r}>", "doprint": lambda a, k: f"<{a[0]!r}>"}, open=False)
            extra_args = {"doit": [[], [True], [False]], "_latex": [[printer]], "_numpycode": [[printer]], "_sympystr": [[printer]]}.get(attr)
            if extra_args is None:
                if len(required) > 1:
                    if _mentions_reconstruction(tree, f):
                        raise AnalysisError(f"installed method cls.{attr} = {name}: reconstructs instances, but the rule has no model call for its parameters {required[1:]}")
                    ctx.info("R-REBUILD", where, f"cls.{attr} = {name.split('::')[-1]}: never reconstructs an instance (no .func / type(self) / __class__ in reach)")
                    continue
                extra_args = [[]]
            for more in extra_args:
                ex = world.exec()
                _interpret(f"cls.{attr}", lambda ex=ex, f=f, more=more: ex.apply(f, [me, *more], {}))
            n_checked += 1
            partial = [r for r in rebuilds if len(r) < len(sig)]
            ctx.verdict(not partial, "R-REBUILD", f"{name}::self.func from self.args", where,
                        f"cls.{attr} = {name.split('::')[-1]} ({vlabel}): " + (f"{len(rebuilds)} reconstruction(s) `self.func(...)` on the model instance, each with one value per field" if rebuilds else "does not reconstruct the instance"),
                        {"rebuilt_with": [repr(r) for r in partial[:2]], "fields": list(_sig(sig).split(", ")), "why": "non-SymPy attributes of the rebuilt instance fall back to their defaults"} if partial else None)
    if n_checked < 2:
        raise AnalysisError(f"only {n_checked} installed methods could be interpreted for R-REBUILD (the two substitution hooks and doit confirmed)")


def _mentions_reconstruction(tree: Tree, f: _FuncRef) -> bool:
    nodes = [f.node if f.node is not None else f.fn.node]
    if f.fn is not None:
        from ..rules import reach_functions

        nodes = [g.node for g, _ in reach_functions(tree, f.fn, depth=3)]
    for node in nodes:
        for n in ast.walk(node):
            if isinstance(n, ast.Attribute) and n.attr in {"func", "__class__", "__new__"}:
                return True
            if isinstance(n, ast.Call) and isinstance(n.func, ast.Name) and n.func.id == "type":
                return True
    return False


def count_nested_constructions(tree: Tree) -> list[str]:
    """Construction sites where an argument of an expression class is itself the construction of one - directly, through
    a local that holds it, a starred tuple of a helper, or a helper that returns it (CallInliner)."""
    from ..inline import CallInliner

    classes = set(expression_classes(tree)) | set(handwritten_expr_classes(tree))
    out = []
    for q, fn in tree.funcs.items():
        if not q.startswith("ampform"):
            continue
        inl = None
        for call, callee in tree.calls_in(fn, nested=False):
            if callee in classes:
                for a in [*call.args, *[k.value for k in call.keywords]]:
                    a = a.value if isinstance(a, ast.Starred) else a
                    if not isinstance(a, ast.Call):
                        if inl is None:
                            top = fn
                            while top.outer is not None:
                                top = top.outer
                            try:
                                inl = CallInliner(tree, top)
                            except Exception:  # noqa: BLE001
                                inl = False
                        if inl:
                            try:
                                a = inl.expr(a)
                            except Exception:  # noqa: BLE001
                                pass
                    hit = False
                    for sub in ([a] if isinstance(a, ast.Call) else a.elts if isinstance(a, (ast.Tuple, ast.List)) else []):
                        if isinstance(sub, ast.Call) and getattr(sub, "_module", None) is not None and tree.callee(sub, tree.func_of(sub) or fn) in classes:
                            hit = True
                    if hit:
                        out.append(f"{tree.loc(call)} {unparse(call)[:70]}")
                        break
    return out


def run(ctx: Check, tree: Tree) -> None:
    ctx.decided += [
        'R-SHALLOW (arity): the field getter of the hooks yields a tuple for classes of every arity (operator.attrgetter(*names) does not for one field)',
        "reconstruction hooks (_eval_subs, _xreplace) installed by @unevaluated read arguments shallowly and completely (R-SHALLOW/R-COMPLETE)",
        "the substitution hooks visit every argument whenever the rule is non-empty; no pre-filter by free symbols (R-DESCEND)",
        "generated-code templates never put an unparenthesised printed sub-expression next to a tighter-binding operator (R-PREC)",
        "every positional use of `self.args` (unpacking, `*self.args` into a helper, `self.args[k]`) matches the class's SymPy field list in count and position (R-ARITY)",
        "_hashable_content hook is installed for every class with non-SymPy fields and covers them (R-HASH)",
        "_eval_subs/_xreplace hooks are installed whenever a class has non-SymPy fields (R-HOOKS)",
        "classes that both unfold and print themselves print through their unfolding (R-ONEDEF)",
    ]
    ctx.not_decided += [
        "the commutation laws for arbitrary substitution maps and argument shapes (runtime values)",
        "LaTeX printing",
        "numerical equality of generated code",
    ]
    ctx.assumptions += [
        "dataclasses.astuple/asdict recurse into nested dataclass instances; copy.deepcopy copies (CPython documentation)",
        "sympy Basic.subs/xreplace call _eval_subs/_xreplace and rebuild with self.func(*args)",
        "decorators on the functions that @unevaluated installs (functools.wraps, signature editing) do not change what the function returns",
    ]
    classes = expression_classes(tree)
    if len(classes) < MIN_CLASSES:
        raise AnalysisError(f"only {len(classes)} @unevaluated classes found (confirmed {MIN_CLASSES}+ by hand)")
    ctx.stats["decorated_classes"] = len(classes)
    ctx.stats["handwritten_expr_classes"] = len(handwritten_expr_classes(tree))

    # non-vacuity of R-SHALLOW: nested unevaluated arguments do occur in the package
    nested = count_nested_constructions(tree)
    ctx.stats["nested_construction_sites"] = len(nested)
    if len(nested) < MIN_NESTED:
        raise AnalysisError(f"only {len(nested)} nested expression constructions found (confirmed {MIN_NESTED}+)")
    ctx.info("R-SHALLOW", nested[0].split()[0], f"{len(nested)} nested expression-class constructions, e.g. {nested[0]}")

    # ---- which hooks are installed for which class (R-HOOKS, R-HASH)
    ctx.section(check_installed_hooks, ctx, tree)
    # ---- R-SHALLOW on the substitution hooks
    ctx.section(check_shallow_hooks, ctx, tree, ["_eval_subs", "_xreplace"], need_complete=True)
    if "_hashable_content" in (ctx.section(installed_by_model, tree) or {}):
        ctx.section(check_hash_content, ctx, tree)
        ctx.section(check_content_injective, ctx, tree)
    n_nonsympy = sum(1 for c in classes.values() if c.non_sympy_fields)
    ctx.stats["classes_with_non_sympy_fields"] = n_nonsympy

    ctx.section(check_descent, ctx, tree)
    ctx.section(check_arg_order, ctx, tree)
    ctx.section(check_internal_rebuild, ctx, tree)
    ctx.section(check_change_propagation, ctx, tree)
    from .c18 import check_subs_returns

    ctx.section(check_subs_returns, ctx, tree)  # the sum helper class: subs-then-unfold == unfold-then-subs needs the pools substituted, too
    from .c15 import check_reentrant_new, check_reentrant_none_token

    ctx.section(check_evaluate_substitutes_own_arguments, ctx, tree)
    ctx.section(check_reentrant_none_token, ctx, tree)
    ctx.section(check_reentrant_new, ctx, tree)  # "reproduced by rebuilding it from its own arguments" for the array helper classes
    ctx.section(check_precedence, ctx, tree, prefixes=("ampform",))
    ctx.section(check_arity, ctx, tree, classes)

    # ---- self.<attr> inside methods of decorated classes must exist (field, method, class attr)
    ctx.section(check_field_access, ctx, tree, classes)
    ctx.section(check_one_definition, ctx, tree, classes)

    # ---- advisory: commutative=False has no effect
    dec = tree.func("ampform.sympy._decorator::unevaluated")
    for node in walk_function(dec.node, nested=False):
        if isinstance(node, ast.If) and "assumptions.get('commutative')" in unparse(node.test) and isinstance(node.test, ast.UnaryOp):
            n = sum(1 for c in classes.values() if "commutative" in c.assumptions)
            ctx.advisory(
                "A-COMMUTATIVE",
                tree.loc(node),
                f"`if not assumptions.get('commutative')` overwrites an explicit commutative=False ({n} classes pass it); not a clause of C14",
            )


# ---------------------------------------------------------------------------- R-ARITY
def check_arity(ctx: Check, tree: Tree, classes) -> None:  # noqa: F811 - the rule (rules.check_arity is the comparison it uses)
    """R-ARITY over every positional use of ``self.args`` in a method of a decorated class:
    * ``a, b, c = <self.args, element by element>`` (``self.args``, ``map(f, self.args)``, a comprehension over it, a
      helper that returns one): as many targets as SymPy fields; a target named like a field sits at its position;
    * ``helper(*self.args, ...)``: the helper binds the SymPy fields to its leading parameters - it must accept
      exactly that many positionally, and a parameter named like a field sits at its position;
    * ``self.args[k]``: k is a valid index; ``<field name> = self.args[k]`` reads that field's position."""
    from ..rules import check_arity as arity_problem

    n_sites = 0
    for q, cls in classes.items():
        fields = [f.name for f in cls.sympy_fields]
        for mname, m in cls.info.methods.items():
            for st, elts, _through_map in self_args_unpackings(m, tree):
                n_sites += 1
                problem = arity_problem(cls, elts)
                ctx.verdict(problem is None, "R-ARITY", f"{m.qual}::{unparse(st.targets[0])} = self.args", tree.loc(st), f"{cls.name}.{mname}: {unparse(st)[:90]}", problem)
            for call, callee, n_before in args_star_calls(tree, m):
                n_sites += 1
                problem = _star_call_problem(callee, n_before, fields)
                key = f"{m.qual}::{callee.qual.split('::')[-1]}(*self.args)"
                ctx.verdict(problem is None, "R-ARITY", key, tree.loc(call), f"{cls.name}.{mname}: {unparse(call)[:90]} binds the SymPy fields {fields} to the leading parameters of {callee.qual.split('::')[-1]}", problem)
            for node, index, target in args_index_reads(m):
                n_sites += 1
                problem = None
                pos = index if index >= 0 else len(fields) + index
                if not 0 <= pos < len(fields):
                    problem = f"self.args[{index}] but the class has {len(fields)} SymPy fields {fields}"
                elif target in fields and fields.index(target) != pos:
                    problem = f"'{target}' is read from position {pos} but field '{target}' is at position {fields.index(target)} of {fields}"
                ctx.verdict(problem is None, "R-ARITY", f"{m.qual}::self.args[{index}]" + (f"->{target}" if target in fields else ""), tree.loc(node), f"{cls.name}.{mname}: {unparse(node)[:60]}", problem)
    ctx.stats["self_args_unpack_sites"] = n_sites
    if n_sites < MIN_UNPACK:
        raise AnalysisError(f"only {n_sites} positional uses of `self.args` found in the decorated classes (confirmed {MIN_UNPACK}+)")


def _star_call_problem(callee, n_before: int, fields: list[str]) -> str | None:
    a = callee.node.args
    pos = [p.arg for p in [*a.posonlyargs, *a.args]]
    if callee.cls is not None and pos[:1] in (["self"], ["cls"]) and not any(unparse(d).split(".")[-1] == "staticmethod" for d in callee.node.decorator_list):
        pos = pos[1:]
    need = n_before + len(fields)
    n_required = len(pos) - len(a.defaults)
    if need > len(pos) and a.vararg is None:
        return f"{callee.name} accepts {len(pos)} positional arguments but receives {need}"
    if need < n_required:
        # the remaining required parameters may be given by keyword at the call site: only name positions are judged below
        pass
    for i, f in enumerate(fields):
        at = n_before + i
        if at < len(pos) and pos[at] != f and f in pos:
            return f"field '{f}' (position {i} of self.args) is bound to parameter '{pos[at]}', but {callee.name} has a parameter '{f}' at position {pos.index(f)}"
    return None


# ---------------------------------------------------------------------------- R-ONEDEF
def check_one_definition(ctx: Check, tree: Tree, classes) -> None:
    """R-ONEDEF: a class that both unfolds (evaluate) and prints itself (_numpycode) prints THROUGH its unfolding:
    every value _numpycode returns is what the printer makes of ``self.evaluate()`` / ``self.doit()``."""
    n_onedef = 0
    undecided = []
    for q, cls in classes.items():
        ev, npc = cls.method("evaluate"), cls.method("_numpycode")
        if ev is None or npc is None:
            continue
        n_onedef += 1
        # first by interpretation: on a model instance whose unfolding prints as one mark, _numpycode must return exactly that mark
        run = interpret_printer(tree, npc)
        result = run["result"] if run is not None else None
        if isinstance(result, str) and result.strip() == "\x00unfolded\x01":
            verdicts = [("through", "")]
        elif isinstance(result, str) and "\x00unfolded\x01" not in result and result.strip():
            verdicts = [("independent", result)]
        else:
            verdicts = _printer_returns(tree, npc, npc.params[1] if len(npc.params) > 1 else "printer", 0)
        key = f"{npc.qual}::prints-evaluate"
        what = f"{cls.name} defines evaluate() and _numpycode(): _numpycode must print self.evaluate()"
        if verdicts and all(v == "through" for v, _ in verdicts):
            ctx.ok("R-ONEDEF", tree.loc(npc.node), what)
        elif any(v == "independent" for v, _ in verdicts):
            ctx.violation("R-ONEDEF", key, tree.loc(npc.node), what, "two independent definitions of one quantity (folded code may differ from unfolded code)")
        else:
            undecided.append(f"{npc.qual}: cannot tell whether `{next((t for v, t in verdicts if v == 'unknown'), 'no return')[:60]}` prints the unfolding")
    ctx.stats["onedef_instances"] = n_onedef
    if undecided:
        raise AnalysisError("; ".join(undecided))
    if n_onedef < 1:
        raise AnalysisError("no class with both evaluate and _numpycode found (3 confirmed)")


def _printer_returns(tree: Tree, fn, printer: str, depth: int) -> list[tuple[str, str]]:
    """(verdict, text) for every value a printer method returns; a value that is produced by a helper method of the
    same object (``return self._code(printer)``) is judged by what the helper returns."""
    from ..inline import Inliner

    inl = Inliner(fn.node)
    out = []
    for r in [n for n in walk_function(fn.node, nested=False) if isinstance(n, ast.Return) and n.value is not None]:
        v = inl.expr(r.value)
        verdict = _prints_evaluate(v, printer)
        if verdict == "unknown" and depth < 3 and isinstance(v, ast.Call) and isinstance(v.func, ast.Attribute) and isinstance(v.func.value, ast.Name) and v.func.value.id == "self" \
                and fn.cls is not None and not any(_is_self_unfolding(n) for n in ast.walk(v)):
            helper = tree.lookup_method(fn.cls, v.func.attr)
            if helper is not None and helper is not fn:
                pos = next((i for i, a in enumerate(v.args) if isinstance(a, ast.Name) and a.id == printer), None)
                kw = next((k.arg for k in v.keywords if isinstance(k.value, ast.Name) and k.value.id == printer), None)
                hp = kw or (helper.params[pos + 1] if pos is not None and len(helper.params) > pos + 1 else None)
                if hp is not None:
                    out += _printer_returns(tree, helper, hp, depth + 1)
                    continue
        out.append((verdict, unparse(r.value)))
    return out


def _is_self_unfolding(n: ast.AST) -> bool:
    return (isinstance(n, ast.Call) and isinstance(n.func, ast.Attribute) and n.func.attr in {"evaluate", "doit"}
            and isinstance(n.func.value, ast.Name) and n.func.value.id == "self")


def _prints_evaluate(v: ast.AST, printer: str) -> str:
    """'through' (the printer applied to self.evaluate()/doit()), 'independent' (generated code that does not go
    through the unfolding: a string template, the printer applied to fields), 'unknown'."""
    if isinstance(v, ast.IfExp):
        a, b = _prints_evaluate(v.body, printer), _prints_evaluate(v.orelse, printer)
        return a if a == b else "independent" if "independent" in (a, b) else "unknown"
    if isinstance(v, ast.Call) and isinstance(v.func, ast.Attribute) and isinstance(v.func.value, ast.Name) and v.func.value.id == printer and v.args:
        a0 = v.args[0]
        if _is_self_unfolding(a0) or (isinstance(a0, ast.Call) and isinstance(a0.func, ast.Attribute) and a0.func.attr == "doit" and _is_self_unfolding(a0.func.value)):
            return "through"
        if any(_is_self_unfolding(n) for n in ast.walk(a0)):
            return "unknown"  # something computed from the unfolding
        return "independent"
    if isinstance(v, (ast.JoinedStr, ast.Constant)) or (isinstance(v, ast.BinOp) and isinstance(v.op, (ast.Add, ast.Mod))) or \
            (isinstance(v, ast.Call) and isinstance(v.func, ast.Attribute) and v.func.attr in {"format", "join"}):
        if any(_is_self_unfolding(n) for n in ast.walk(v)):
            return "unknown"
        return "independent"
    return "unknown"


def check_field_access(ctx: Check, tree: Tree, classes) -> None:
    """``self.x`` in evaluate/_numpycode/as_explicit of a decorated class: ``x`` must be a
    field, a method/property/class attribute of the class (repo MRO) - or the base is
    external, in which case only near-misses of field names are reported."""
    sympy_attrs = {"args", "func", "doit", "evaluate", "free_symbols", "xreplace", "subs", "is_commutative", "shape", "name"}
    n = 0
    for q, cls in classes.items():
        known = {f.name for f in cls.fields}
        for c in tree.mro(cls.info):
            known |= set(c.methods)
            for st in c.node.body:
                for t in getattr(st, "targets", []) or ([st.target] if isinstance(st, ast.AnnAssign) else []):
                    if isinstance(t, ast.Name):
                        known.add(t.id)
        for mname in ("evaluate", "as_explicit", "_numpycode", "_latex_repr_"):
            m = cls.method(mname)
            if m is None:
                continue
            for node in walk_function(m.node):
                if isinstance(node, ast.Attribute) and isinstance(node.value, ast.Name) and node.value.id == "self" and isinstance(node.ctx, ast.Load):
                    n += 1
                    if node.attr in known or node.attr in sympy_attrs or node.attr.startswith("_"):
                        continue
                    # positive evidence of a misspelt field: the name is a near-miss of a declared field (an attribute of the
                    # external SymPy base that the rule does not know is not a violation)
                    near = [f for f in sorted(known) if _near_miss(node.attr, f)]
                    if not near:
                        ctx.info("R-FIELD", tree.loc(node), f"{cls.name}.{mname} reads self.{node.attr}: not a field of the class (an attribute of the SymPy base class is assumed)")
                        continue
                    ctx.violation(
                        "R-FIELD",
                        f"{m.qual}::self.{node.attr}",
                        tree.loc(node),
                        f"{cls.name}.{mname} reads self.{node.attr}, which is neither a field {sorted(f.name for f in cls.fields)} nor a class attribute (a near-miss of `{near[0]}`)",
                    )
    ctx.stats["self_attr_reads_checked"] = n
    ctx.ok("R-FIELD", "src/ampform", f"{n} `self.<attr>` reads in evaluate/as_explicit/printers name an existing field or attribute") if n else None


def _near_miss(a: str, b: str) -> bool:
    """Edit distance 1 (one substitution, insertion, deletion or transposition) between two identifiers of length >= 4."""
    if a == b or min(len(a), len(b)) < 4 or abs(len(a) - len(b)) > 1:
        return False
    if len(a) == len(b):
        diff = [i for i in range(len(a)) if a[i] != b[i]]
        return len(diff) == 1 or (len(diff) == 2 and diff[1] == diff[0] + 1 and a[diff[0]] == b[diff[1]] and a[diff[1]] == b[diff[0]])
    s, t = (a, b) if len(a) < len(b) else (b, a)
    return any(t[:i] + t[i + 1:] == s for i in range(len(t)))
