"""C14 - unevaluated expressions obey substitution, equality and folding laws.

Decides (structurally): R-SHALLOW on the reconstruction hooks installed by the
decorator, R-ARITY on every ``... = self.args`` unpacking, the hash/equality hook,
the conditional installation of the substitution hooks, R-ONEDEF for classes that
both unfold and print themselves.
"""

from __future__ import annotations

import ast

from ..exprmodel import IMPLEMENT_NEW, expression_classes, handwritten_expr_classes, installed_hooks
from ..loader import AnalysisError, Tree, unparse, walk_function
from ..report import Check
from ..rules import (
    DEEP_SOURCES,
    argument_sources,
    check_arity,
    reach_functions,
    self_args_unpackings,
)

PID = "C14"
MIN_CLASSES = 30  # 35 decorated classes on the pinned tree
MIN_UNPACK = 14  # 16 unpack sites in decorated classes on the pinned tree
MIN_NESTED = 8  # nested expression-class constructions (non-vacuity of R-SHALLOW)


def check_shallow_hooks(ctx: Check, tree: Tree, hook_names: list[str], need_complete: bool) -> None:
    """R-SHALLOW: the hooks must take the instance's arguments from a shallow and
    complete source."""
    hooks = installed_hooks(tree)
    impl = tree.func(IMPLEMENT_NEW)
    for attr in hook_names:
        if attr not in hooks:
            if attr in {"_eval_subs", "_xreplace"}:
                ctx.violation(
                    "R-HOOKS",
                    f"{IMPLEMENT_NEW}::missing hook {attr}",
                    tree.loc(impl.node),
                    f"_implement_new_method installs no {attr}: Basic.{attr} rebuilds with self.func(*self.args) and loses non-SymPy attributes",
                )
            else:
                raise AnalysisError(f"vanished anchor: hook {attr} is not installed by _implement_new_method")
            continue
        value, _cond, resolved = hooks[attr]
        where = tree.loc(value)
        what = f"cls.{attr} = {unparse(value)}"
        if resolved in DEEP_SOURCES:
            ctx.violation(
                "R-SHALLOW",
                f"{IMPLEMENT_NEW}::cls.{attr}->{resolved}",
                where,
                f"{what}  (resolves to {resolved})",
                {"deep_source": resolved, "why": DEEP_SOURCES[resolved], "path": [IMPLEMENT_NEW, resolved]},
            )
            continue
        if resolved is None or resolved not in tree.funcs:
            raise AnalysisError(f"hook {attr} = {unparse(value)} cannot be resolved to a function ({resolved})")
        bad = False
        sources = []
        for fn, path in reach_functions(tree, tree.funcs[resolved], depth=3):
            for src in argument_sources(tree, fn):
                sources.append((src, fn, path))
        for src, fn, path in sources:
            if src["kind"] == "deep":
                bad = True
                ctx.violation(
                    "R-SHALLOW",
                    f"{IMPLEMENT_NEW}::cls.{attr}->{src['callee']}",
                    tree.loc(src["node"]),
                    f"{what}: {fn.qual} reads the arguments with {unparse(src['node'])} (= {src['callee']})",
                    {"deep_source": src["callee"], "why": DEEP_SOURCES[src["callee"]], "path": list(path)},
                )
        for src, fn, path in sources:
            if src["kind"] == "getter-arity":
                bad = True
                from ..exprmodel import expression_classes

                single = sorted(c.qual.split("::")[-1] for c in expression_classes(tree).values() if len(c.fields) == 1)
                ctx.violation(
                    "R-SHALLOW",
                    f"{IMPLEMENT_NEW}::cls.{attr}->{src['callee']}::arity",
                    tree.loc(src["node"]),
                    f"{what}: {fn.qual} reads the fields with {unparse(src['node'])[:70]} - for a class with ONE field that is the bare value, not a 1-tuple",
                    {"why": "the hooks rebuild with cls(*arguments): a bare expression is unpacked (or fails to)", "one_field_classes": single[:8], "n_one_field_classes": len(single), "path": list(path)},
                )
        if bad:
            continue
        shallow = [s for s in sources if s[0]["kind"] in {"args", "fields"}]
        if not shallow:
            raise AnalysisError(
                f"hook {attr} -> {resolved}: no recognised source of the instance's arguments (shape outside the rule's grammar)"
            )
        if need_complete:
            complete = [s for s in shallow if s[0]["kind"] == "fields" and not s[0]["filtered"]]
            if not complete:
                src, fn, _ = shallow[0]
                ctx.violation(
                    "R-COMPLETE",
                    f"{IMPLEMENT_NEW}::cls.{attr}::incomplete",
                    tree.loc(src["node"]),
                    f"{what}: arguments read from {unparse(src['node'])[:80]} omit the non-SymPy fields, but the object is rebuilt with all fields",
                )
                continue
        ctx.ok("R-SHALLOW", where, f"{what}: shallow source {unparse(shallow[0][0]['node'])[:70]} in {shallow[0][1].qual}")


def check_precedence(ctx: Check, tree: Tree, prefixes: tuple[str, ...]) -> int:
    """R-PREC over the printer methods of the given modules."""
    from ..rules import precedence_hazards, printer_methods

    n = 0
    for fn in sorted(printer_methods(tree), key=lambda f: f.qual):
        if not fn.qual.startswith(prefixes):
            continue
        n += 1
        hz = precedence_hazards(tree, fn)
        if hz:
            hole, why = hz[0]
            # key: the field of the class that the placeholder prints (not the name of the local that holds it)
            label = unparse(hole)
            try:
                from ..rules import self_args_unpackings
                from ..exprmodel import expression_classes

                ec = expression_classes(tree).get(fn.cls.qual) if fn.cls is not None else None
                if ec is not None and isinstance(hole, ast.Name):
                    for _st, elts, _ in self_args_unpackings(fn):
                        for e, f_ in zip(elts, [x.name for x in ec.sympy_fields]):
                            if isinstance(e, ast.Name) and e.id == hole.id:
                                label = f"field {f_}"
                    # `x = printer._print(self.<field>)`: the same field reached by attribute
                    from ..dataflow import RD as _RD

                    for d in _RD(fn.node).reaching(hole):
                        v = d.value
                        if isinstance(v, ast.Call) and v.args and isinstance(v.args[0], ast.Attribute) and isinstance(v.args[0].value, ast.Name) and v.args[0].value.id == "self" \
                                and v.args[0].attr in {x.name for x in ec.fields}:
                            label = f"field {v.args[0].attr}"
            except Exception:  # noqa: BLE001
                pass
            ctx.violation("R-PREC", f"{fn.qual}::precedence::{label}", tree.loc(hole), f"{fn.qual}: {why}",
                          "printer._print returns e.g. `a + b` for a sum without parentheses: `-{x}` / `{x}**2` / `{x} * c` then bind to the last term only, "
                          "so the generated code of the folded form computes something else than the unfolded expression for compound arguments")
        else:
            ctx.ok("R-PREC", tree.loc(fn.node), f"{fn.qual}: no printed sub-expression sits unparenthesised next to a tighter-binding operator")
    return n


def check_descent(ctx: Check, tree: Tree) -> None:
    """R-DESCEND: the substitution hooks visit every argument whenever the rule is non-empty.

    They re-implement Basic._subs / Basic._xreplace for classes with non-SymPy fields.  A
    replacement key may be ANY sub-expression, so whether an argument has to be visited
    cannot be decided from the free symbols of the expression: the only admissible
    conditions around the argument loop are tests of the rule itself."""
    hooks = installed_hooks(tree)
    for attr, param_idx in (("_xreplace", 1), ("_eval_subs", 1)):
        if attr not in hooks:
            continue
        _, _, resolved = hooks[attr]
        fn = tree.funcs.get(resolved or "")
        if fn is None:
            continue
        rule_params = set(fn.params[1:])
        loops = [n for n in walk_function(fn.node, nested=False) if isinstance(n, ast.For)]
        arg_loops = []
        from ..dataflow import RD

        rd = RD(fn.node)
        for loop in loops:
            srcs = [unparse(loop.iter)] + [unparse(d.value) for d in rd.closure(rd.uses(loop.iter)) if d.value is not None]
            if any("_get_arguments(self)" in t or "self.args" in t for t in srcs):
                arg_loops.append(loop)
        if not arg_loops:
            raise AnalysisError(f"{fn.qual}: no loop over the instance's arguments found")
        loop = arg_loops[0]
        from ..loader import ancestors

        bad, unknown = [], []
        for anc in ancestors(loop):
            if anc is fn.node:
                break
            if not isinstance(anc, ast.If):
                continue
            conj = anc.test.values if isinstance(anc.test, ast.BoolOp) and isinstance(anc.test.op, ast.And) else [anc.test]
            for t in conj:
                txt = unparse(t)
                if isinstance(t, ast.Name) and t.id in rule_params:
                    continue
                if isinstance(t, ast.Call) and unparse(t.func) == "isinstance" and t.args and unparse(t.args[0]) in rule_params:
                    continue
                if isinstance(t, ast.Compare) and "self" in txt and any(p in txt for p in rule_params) and isinstance(t.ops[0], (ast.In, ast.NotIn)):
                    continue
                # anything else: a pre-filter - look at what it consults
                consulted = txt
                for c in ast.walk(t):
                    if isinstance(c, ast.Call):
                        callee = tree.callee(c, fn)
                        if callee in tree.funcs:
                            consulted += " " + unparse(tree.funcs[callee].node)
                if "free_symbols" in consulted or ".atoms(" in consulted:
                    bad.append(txt)
                else:
                    unknown.append(txt)
        key = f"{fn.qual}::descends-into-all-arguments"
        if bad:
            ctx.violation("R-DESCEND", key, tree.loc(loop), f"{fn.qual}: the argument loop is guarded by `{bad[0][:60]}`, which decides from free symbols whether anything can be replaced",
                          "xreplace/subs keys may be arbitrary sub-expressions (or non-SymPy attribute values), not only free symbols: such replacements are silently skipped inside these classes, so replace-then-unfold differs from unfold-then-replace")
        elif unknown:
            raise AnalysisError(f"{fn.qual}: argument loop guarded by `{unknown[0][:60]}` - cannot decide whether every argument is still visited")
        else:
            filtered = [n for n in walk_function(loop) if isinstance(n, (ast.Break,))]
            ctx.verdict(not filtered, "R-DESCEND", key, tree.loc(loop), f"{fn.qual}: every argument is visited whenever the rule is non-empty (loop guarded by tests of the rule only)")


def check_content_injective(ctx: Check, tree: Tree, hook_fn) -> None:
    """R-INJECTIVE: "equal exactly when ... non-SymPy attributes are equal".  _hashable_content
    maps every non-SymPy attribute through a key function.  For a *hashable* attribute (a class,
    a function, an instance) the key must determine the attribute: the object itself, or a
    wrapper whose __eq__ compares the wrapped objects.  A string derived from the object
    (__qualname__, __name__, str(), repr(), f-string) is not injective: two classes or lambdas of
    the same name - a redefined notebook cell, two closures of one factory - compare equal and
    SymPy's expression cache hands out nodes that carry the other attribute.
    (str(obj) for *unhashable* attributes, inside the TypeError handler of hash(obj), has no exact
    alternative and is recorded as an advisory.)"""
    from ..dataflow import RD

    key_fns = []
    for node in walk_function(hook_fn.node):
        if isinstance(node, ast.Call) and any(isinstance(a, ast.Call) and unparse(a.func) == "getattr" for a in node.args):
            callee = tree.callee(node, hook_fn)
            if callee in tree.funcs:
                key_fns.append(tree.funcs[callee])
    if not key_fns:
        ctx.ok("R-INJECTIVE", tree.loc(hook_fn.node), f"{hook_fn.qual}: attribute values enter the hashable content unchanged")
        return
    for kf in key_fns:
        if not kf.params:
            raise AnalysisError(f"{kf.qual}: no parameter")
        param = kf.params[0]
        rd = RD(kf.node)
        n_ret = 0
        for ret in [r for r in walk_function(kf.node, nested=False) if isinstance(r, ast.Return) and r.value is not None]:
            n_ret += 1
            v = ret.value
            in_type_error_handler = any(isinstance(a, ast.ExceptHandler) and a.type is not None and "TypeError" in unparse(a.type) for a in _ancestors(ret))
            key = f"{kf.qual}::return {unparse(v)[:50]}"
            if isinstance(v, ast.Name) and v.id == param:
                ctx.ok("R-INJECTIVE", tree.loc(ret), f"{kf.qual}: `return {v.id}` - the attribute itself is the key")
                continue
            if isinstance(v, ast.Call):
                callee = tree.callee(v, kf)
                cls = tree.classes.get(callee) if callee else None
                if cls is not None and len(v.args) == 1 and isinstance(v.args[0], ast.Name) and v.args[0].id == param:
                    eq = cls.methods.get("__eq__")
                    hs = cls.methods.get("__hash__") or next(
                        (st for st in cls.node.body if isinstance(st, ast.Assign) and any(isinstance(t, ast.Name) and t.id == "__hash__" for t in st.targets)
                         and not (isinstance(st.value, ast.Constant) and st.value.value is None)), None)
                    compares = eq is not None and any(
                        isinstance(n, ast.Compare) and len(n.ops) == 1 and isinstance(n.ops[0], (ast.Is, ast.Eq))
                        and all(isinstance(x, ast.Attribute) for x in (n.left, n.comparators[0])) and n.left.attr == n.comparators[0].attr
                        for n in walk_function(eq.node))
                    ok = compares and hs is not None
                    ctx.verdict(ok, "R-INJECTIVE", key, tree.loc(ret), f"{kf.qual}: `return {unparse(v)}` - wrapper {cls.name} compares the wrapped objects ({'identity/equality' if compares else 'NO __eq__ on the wrapped object'}) and defines __hash__",
                                None if ok else "the wrapper does not determine the attribute")
                    continue
            lossy = isinstance(v, ast.JoinedStr) or (isinstance(v, ast.Call) and unparse(v.func) in {"str", "repr", "format", "id", "hash"}) or any(
                isinstance(n, ast.Attribute) and n.attr in {"__qualname__", "__name__", "__module__"} for n in ast.walk(v))
            if lossy and in_type_error_handler:
                ctx.advisory("R-INJECTIVE", tree.loc(ret), f"{kf.qual}: unhashable attributes are keyed by `{unparse(v)}` (no exact key exists for them)")
                continue
            if lossy:
                ctx.violation("R-INJECTIVE", f"{kf.qual}::name-derived-key", tree.loc(ret),
                              f"{kf.qual}: `return {unparse(v)[:70]}` - a hashable attribute is replaced by a string derived from it",
                              "two distinct classes / functions with the same module and qualified name (redefinition in a session, closures of one factory, lambdas) give equal, equally hashed expressions although evaluate() differs")
                continue
            if isinstance(v, ast.Tuple):
                # structural key: a tuple of components of the attribute.  A mapping-valued component
                # must enter with its VALUES (items()); iterating / sorting the mapping keeps the keys only
                probs = []
                for e in v.elts:
                    for sub in ast.walk(e):
                        if isinstance(sub, ast.Call) and unparse(sub.func) in {"sorted", "tuple", "list", "set", "frozenset"} and sub.args:
                            a0 = sub.args[0]
                            if isinstance(a0, ast.Attribute) and a0.attr in {"keywords", "kwargs", "__dict__"} and isinstance(a0.value, ast.Name) and a0.value.id == param:
                                probs.append(f"`{unparse(sub)}` keeps only the keys of `{unparse(a0)}`")
                        if isinstance(sub, ast.Call) and isinstance(sub.func, ast.Attribute) and sub.func.attr == "keys" and unparse(sub.func.value).startswith(param + "."):
                            probs.append(f"`{unparse(sub)}` keeps only the keys")
                if probs:
                    ctx.violation("R-INJECTIVE", f"{kf.qual}::lossy-structural-key", tree.loc(ret),
                                  f"{kf.qual}: the structural key `{unparse(v)[:70]}` drops part of the attribute: " + "; ".join(probs),
                                  "two attributes that differ only in the dropped part (e.g. partial(f, flag=False) vs partial(f, flag=True)) give equal, equally hashed expressions with different doit()")
                else:
                    ctx.advisory("R-INJECTIVE", tree.loc(ret), f"{kf.qual}: structural key `{unparse(v)[:70]}` (components not judged further)")
                continue
            raise AnalysisError(f"{kf.qual}: return `{unparse(v)[:60]}` of unknown shape")
        if not n_ret:
            raise AnalysisError(f"{kf.qual}: no return")


def check_arg_order(ctx: Check, tree: Tree) -> None:
    """R-ARGORDER: `.args` of an instance are in field-declaration order however the call spells its
    arguments (evaluate()/printers unpack `self.args` positionally, subs/xreplace/pickle rebuild
    positionally).  new_method lays out the SymPy args in the iteration order of the mapping that
    _extract_field_values returns, so every insertion into that mapping must happen in field order:
    by zip(fields, args) or inside a loop over (a slice of) the field tuple - never in the order of
    the caller's keyword arguments."""
    from ..dataflow import RD

    new = tree.funcs.get(f"{IMPLEMENT_NEW}.new_method")
    ext = tree.funcs.get("ampform.sympy._decorator::_extract_field_values")
    if new is None or ext is None:
        raise AnalysisError("vanished anchor: new_method / _extract_field_values")
    nrd = RD(new.node) if new.outer is None else None
    from ..prov import _rd_for

    nrd = _rd_for(new, {})
    # does new_method depend on the mapping's order?
    order_sensitive = False
    for node in walk_function(new.node):
        if isinstance(node, (ast.GeneratorExp, ast.ListComp)) and any(
            isinstance(c, ast.Call) and isinstance(c.func, ast.Attribute) and c.func.attr == "items" for c in ast.walk(node.generators[0].iter)
        ):
            src = node.generators[0].iter
            if any(d.value is not None and "_extract_field_values" in unparse(d.value) for d in nrd.closure(nrd.uses(src))):
                order_sensitive = True
    if not order_sensitive:
        ctx.ok("R-ARGORDER", tree.loc(new.node), "new_method lays out the SymPy args by iterating the field tuple: insertion order of the extracted mapping is irrelevant")
        return
    rd = RD(ext.node)
    params = ext.params
    kw_defs = {d for d in rd.defs if d.kind == "param" and d.name in {ext.node.args.kwarg.arg if ext.node.args.kwarg else "kwargs"}}
    ret_names = set()
    for ret, _ in rd.returns:
        if ret.value is not None and isinstance(ret.value, ast.Tuple) and ret.value.elts:
            ret_names |= {n.id for n in ast.walk(ret.value.elts[0]) if isinstance(n, ast.Name)}
    n_ins = 0
    problems = []
    for node in walk_function(ext.node):
        if isinstance(node, ast.Assign) and isinstance(node.targets[0], ast.Subscript) and isinstance(node.targets[0].value, ast.Name) and node.targets[0].value.id in ret_names:
            n_ins += 1
            loops = [a for a in _ancestors(node) if isinstance(a, ast.For)]
            if not loops:
                problems.append((node, "inserted outside any loop over the fields"))
                continue
            it = loops[0].iter
            deps = rd.closure(rd.uses(it))
            from_fields = any(d.value is not None and "_get_fields" in unparse(d.value) for d in deps)
            from_kwargs = bool(deps & kw_defs) or any(isinstance(n, ast.Name) and n.id in {d.name for d in kw_defs} for n in ast.walk(it))
            if from_kwargs:
                problems.append((node, f"inserted in a loop over `{unparse(it)}` - the order of the caller's keyword arguments"))
            elif not from_fields:
                problems.append((node, f"inserted in a loop over `{unparse(it)}`, which does not derive from the field tuple"))
    if n_ins == 0:
        raise AnalysisError(f"{ext.qual}: no insertion into the returned mapping found")
    for node, why in problems:
        ctx.violation("R-ARGORDER", f"{ext.qual}::{why.split(' - ')[0][:60]}", tree.loc(node), f"{ext.qual}: `{unparse(node)[:60]}` is {why}",
                      "Cls(b=.., a=..) then has .args == (b, a): evaluate() unpacks `a, b = self.args` and computes with the values interchanged, while the named attributes still look right")
    if not problems:
        ctx.ok("R-ARGORDER", tree.loc(ext.node), f"{ext.qual}: all {n_ins} insertions into the field mapping happen in field-declaration order (zip with the positional arguments, loops over slices of the field tuple)")


def check_internal_rebuild(ctx: Check, tree: Tree) -> None:
    """R-REBUILD (decorator): a method that @unevaluated installs on every class reconstructs an
    instance only from the COMPLETE argument list (_get_arguments(self): all fields), never from
    `self.args` (SymPy arguments only) - otherwise the copy carries the defaults of the non-SymPy
    attributes (phsp_factor=PhaseSpaceFactor, name=None) and e.g. doit() of a width with a nested
    argument unfolds with another phase-space factor than the one it was built with."""
    from ..dataflow import RD

    mod = "ampform.sympy._decorator"
    n = 0
    bad = 0
    for q, fn in sorted(tree.funcs.items()):
        if not q.startswith(mod + "::") or not fn.params or fn.params[0] != "self":
            continue
        from ..prov import _rd_for

        rd = _rd_for(fn, {})
        for node in walk_function(fn.node, nested=False):
            if not (isinstance(node, ast.Call) and isinstance(node.func, ast.Attribute) and node.func.attr == "func"
                    and isinstance(node.func.value, ast.Name) and node.func.value.id == "self"):
                continue
            n += 1
            srcs = []
            for a in node.args:
                inner = a.value if isinstance(a, ast.Starred) else a
                deps = rd.closure(rd.uses(inner))
                texts = [unparse(inner)] + [unparse(d.value) for d in deps if isinstance(d.value, ast.AST)]
                srcs.append(" ".join(texts))
            txt = " ".join(srcs)
            from_args = "self.args" in txt or "self._args" in txt
            complete = "_get_arguments(self)" in txt
            # self.func(coefficient, nonnumber, evaluate=False) - the 2-arg hack on already rebuilt values
            if not from_args and not complete and not any(isinstance(a, ast.Starred) for a in node.args):
                ctx.info("R-REBUILD", tree.loc(node), f"{q}: `{unparse(node)[:50]}` takes explicit values")
                continue
            ok = complete and not from_args
            if not ok:
                bad += 1
            ctx.verdict(ok, "R-REBUILD", f"{q}::self.func from {'self.args' if from_args else 'unknown'}", tree.loc(node),
                        f"{q}: `{unparse(node)[:50]}` rebuilds the instance from {'the complete field values (_get_arguments)' if ok else 'self.args (SymPy arguments only)'}",
                        None if ok else "non-SymPy attributes of the rebuilt instance fall back to their defaults")
    if n < 2:
        raise AnalysisError(f"only {n} self.func(...) reconstructions found in the decorator hooks (4 confirmed)")


def check_change_propagation(ctx: Check, tree: Tree) -> None:
    """R-PROPAGATE: the substitution hooks return a rebuilt instance exactly when a replacement
    happened somewhere below, built from the per-argument results:
      _xreplace:  (rule[self], True) iff `self in rule`; for every argument the pair (result,
                  replaced?) of `arg._xreplace(rule)` or (rule.get(arg, arg), arg in rule) or (arg,
                  False); result appended for EVERY argument; hit accumulates the flags from False;
                  (self.func(*results), True) iff hit, else (self, False).
      _eval_subs: new = old_arg._subs(old, new, **hints) with the hook's own (old, new) in that order;
                  `if not same(new_attr, old_arg)`: hit = True AND the slot of that argument is
                  replaced; self.func(*new_args) iff hit, else self."""
    from ..dataflow import RD

    mod = "ampform.sympy._decorator"
    # ------------------------------------------------------------------ _xreplace
    fn = tree.funcs.get(f"{mod}::_xreplace_method")
    if fn is None:
        raise AnalysisError("vanished anchor: _xreplace_method")
    rd = RD(fn.node)
    self_, rule = fn.params[0], fn.params[1]
    problems: list[str] = []
    rets = [r for r in walk_function(fn.node, nested=False) if isinstance(r, ast.Return)]
    hit_names = set()
    for r in rets:
        v = r.value
        if not (isinstance(v, ast.Tuple) and len(v.elts) == 2 and isinstance(v.elts[1], ast.Constant) and isinstance(v.elts[1].value, bool)):
            problems.append(f"`{unparse(r)}` is not (expression, literal flag)")
            continue
        obj, flag = v.elts[0], v.elts[1].value
        guards = [a for a in _ancestors(r) if isinstance(a, ast.If)]
        if isinstance(obj, ast.Name) and obj.id == self_:
            if flag is not False:
                problems.append("`return self, True` - nothing was replaced")
        elif unparse(obj) == f"{rule}[{self_}]":
            if flag is not True or not any(unparse(g.test).replace(" ", "") == f"{self_}in{rule}" for g in guards):
                problems.append(f"`{unparse(r)}` is not guarded by `{self_} in {rule}` / flag is not True")
        elif isinstance(obj, ast.Call) and unparse(obj.func) == f"{self_}.func":
            g_hit = [g for g in guards if isinstance(g.test, ast.Name) and g.test.id not in {rule}]
            if flag is not True or not g_hit:
                problems.append(f"`{unparse(r)}`: the rebuilt instance is not returned under `if <hit>` with flag True")
            hit_names |= {g.test.id for g in g_hit}
        else:
            problems.append(f"unexpected return `{unparse(r)}`")
    if len(hit_names) != 1:
        problems.append(f"hit flag not identified ({sorted(hit_names)})")
    else:
        hit = next(iter(hit_names))
        hdefs = [d for d in rd.defs if d.name == hit]
        inits = [d for d in hdefs if d.kind == "assign"]
        accs = [d for d in hdefs if d.kind == "aug"]
        if not (len(inits) == 1 and isinstance(inits[0].value, ast.Constant) and inits[0].value.value is False):
            problems.append(f"`{hit}` does not start as False")
        if not accs:
            problems.append(f"`{hit}` never accumulates the per-argument flags")
        for d in accs:
            node = d.node
            if not (isinstance(node, ast.AugAssign) and isinstance(node.op, ast.BitOr) and isinstance(node.value, ast.Name)):
                problems.append(f"`{unparse(node)}` is not `{hit} |= <flag of this argument>`")
                continue
            if any(isinstance(a, ast.If) for a in _ancestors(node) if a is not fn.node and not isinstance(a, (ast.For, ast.FunctionDef)) and unparse(getattr(a, "test", ast.Constant(1))) != rule):
                problems.append(f"`{unparse(node)}` is conditional")
            for fd in rd.reaching(node.value):
                ok_flag = (
                    (fd.index == 1 and isinstance(fd.value, ast.Call) and unparse(fd.value.func).endswith("._xreplace") and [unparse(a) for a in fd.value.args] == [rule])
                    or (isinstance(fd.value, ast.Constant) and fd.value.value is False)
                    or unparse(fd.value).replace(" ", "") in {f"bool(arginrule)".replace("arg", unparse(fd.value.args[0].left) if isinstance(fd.value, ast.Call) and fd.value.args and isinstance(fd.value.args[0], ast.Compare) else "arg").replace("rule", rule)}
                    or (isinstance(fd.value, ast.Compare) and len(fd.value.ops) == 1 and isinstance(fd.value.ops[0], ast.In) and unparse(fd.value.comparators[0]) == rule)
                )
                if isinstance(fd.value, ast.Call) and unparse(fd.value.func) == "bool" and fd.value.args and isinstance(fd.value.args[0], ast.Compare):
                    c = fd.value.args[0]
                    ok_flag = len(c.ops) == 1 and isinstance(c.ops[0], ast.In) and unparse(c.comparators[0]) == rule
                if not ok_flag:
                    problems.append(f"flag `{unparse(fd.node)[:60]}` is not (second component of arg._xreplace({rule}) | arg in {rule} | False)")
        # results appended once per argument
        appends = [n for n in walk_function(fn.node) if isinstance(n, ast.Call) and isinstance(n.func, ast.Attribute) and n.func.attr == "append"]
        ok_app = False
        for a in appends:
            par_loops = [x for x in _ancestors(a) if isinstance(x, ast.For)]
            in_if = [x for x in _ancestors(a) if isinstance(x, ast.If) and par_loops and any(x is y for y in ast.walk(par_loops[0]))]
            if par_loops and not in_if and len(a.args) == 1 and isinstance(a.args[0], ast.Name):
                srcs = []
                for d in rd.reaching(a.args[0]):
                    srcs.append(unparse(d.value) if d.value is not None else d.kind)
                    if not ((d.index == 0 and isinstance(d.value, ast.Call) and unparse(d.value.func).endswith("._xreplace"))
                            or (isinstance(d.value, ast.Call) and unparse(d.value.func) == f"{rule}.get" and len(d.value.args) == 2 and unparse(d.value.args[0]) == unparse(d.value.args[1]))
                            or (isinstance(d.value, ast.Name) and d.value.id == unparse(par_loops[0].target))):
                        problems.append(f"result `{unparse(d.node)[:60]}` is not (first component of arg._xreplace | {rule}.get(arg, arg) | arg)")
                ok_app = True
        if not ok_app:
            problems.append("the per-argument result is not appended unconditionally for every argument")
    # which arguments are descended into: exactly those that have the method and are not classes
    for c in [c for c in walk_function(fn.node) if isinstance(c, ast.Call) and isinstance(c.func, ast.Attribute) and c.func.attr == "_xreplace"]:
        conds = [a for a in _ancestors(c) if isinstance(a, ast.If)]
        subject = unparse(c.func.value)
        def selects(test: ast.AST) -> bool:
            ops = test.values if isinstance(test, ast.BoolOp) and isinstance(test.op, ast.And) else [test]
            has = any(isinstance(o, ast.Call) and unparse(o.func) == "hasattr" and len(o.args) == 2 and unparse(o.args[0]) == subject
                      and isinstance(o.args[1], ast.Constant) and o.args[1].value == "_xreplace" for o in ops)
            rest = [o for o in ops if not (isinstance(o, ast.Call) and unparse(o.func) == "hasattr")]
            rest_ok = all(isinstance(o, ast.UnaryOp) and isinstance(o.op, ast.Not) and isinstance(o.operand, ast.Call) and unparse(o.operand.func) == "isclass"
                          and [unparse(a) for a in o.operand.args] == [subject] for o in rest)
            return has and rest_ok

        if not any(selects(g.test) and any(c is n for b in g.body for n in ast.walk(b)) for g in conds):
            problems.append(f"`{unparse(c)}` is not selected by `hasattr({subject}, '_xreplace') and not isclass({subject})`")
    ctx.verdict(not problems, "R-PROPAGATE", f"{fn.qual}::change-propagation", tree.loc(fn.node),
                "_xreplace hook: (rule[self], True) iff self in rule; every argument's result collected; rebuilt instance iff some argument reported a replacement", problems or None)

    # ------------------------------------------------------------------ _eval_subs
    fn = tree.funcs.get(f"{mod}::_eval_subs_method")
    if fn is None:
        raise AnalysisError("vanished anchor: _eval_subs_method")
    rd = RD(fn.node)
    self_, old, new = fn.params[0], fn.params[1], fn.params[2]
    problems = []
    subs_calls = [c for c in walk_function(fn.node) if isinstance(c, ast.Call) and isinstance(c.func, ast.Attribute) and c.func.attr == "_subs"]
    if len(subs_calls) != 1:
        raise AnalysisError(f"{fn.qual}: expected one recursive `_subs` call")
    sc = subs_calls[0]
    if [unparse(a) for a in sc.args[:2]] != [old, new]:
        problems.append(f"recursive call `{unparse(sc)}` does not pass ({old}, {new}) in this order")
    res_def = next((d for d in rd.defs if d.value is sc), None)
    changed_ifs = []
    for node in walk_function(fn.node):
        if isinstance(node, ast.If) and res_def is not None and any(isinstance(n, ast.Name) and res_def in rd.reaching(n) for n in ast.walk(node.test)):
            changed_ifs.append(node)
    if len(changed_ifs) != 1:
        problems.append("no single `if <result differs from the argument>` block")
    else:
        g = changed_ifs[0]
        t = g.test
        negated_same = isinstance(t, ast.UnaryOp) and isinstance(t.op, ast.Not) and isinstance(t.operand, ast.Call) and unparse(t.operand.func).endswith("_aresame")
        differs = isinstance(t, ast.Compare) and len(t.ops) == 1 and isinstance(t.ops[0], ast.NotEq)
        if not (negated_same or differs):
            problems.append(f"`if {unparse(t)}` does not test that the result differs from the argument")
        sets_hit = [s_ for s_ in g.body if isinstance(s_, ast.Assign) and isinstance(s_.value, ast.Constant) and s_.value.value is True]
        stores = [s_ for s_ in g.body if isinstance(s_, ast.Assign) and isinstance(s_.targets[0], ast.Subscript) and isinstance(s_.value, ast.Name) and res_def in rd.reaching(s_.value)]
        if not sets_hit:
            problems.append("the change block does not set the hit flag")
        if not stores:
            problems.append("the change block does not store the new value in the slot of that argument")
        else:
            slot = stores[0].targets[0]
            loops = [a for a in _ancestors(g) if isinstance(a, ast.For)]
            idx_ok = loops and isinstance(loops[0].iter, ast.Call) and unparse(loops[0].iter.func) == "enumerate" and isinstance(loops[0].target, ast.Tuple) and unparse(slot.slice) == unparse(loops[0].target.elts[0])
            if not idx_ok:
                problems.append(f"`{unparse(stores[0])}` does not address the slot of the argument that is being visited")
        if sets_hit:
            hit = unparse(sets_hit[0].targets[0])
            inits = [d for d in rd.defs if d.name == hit and isinstance(d.value, ast.Constant) and d.value.value is False]
            if not inits:
                problems.append(f"`{hit}` does not start as False")
            rebuilt = [c for c in walk_function(fn.node) if isinstance(c, ast.Call) and unparse(c.func) == f"{self_}.func" and any(isinstance(a, ast.Starred) for a in c.args)]
            under_hit = [c for c in rebuilt if any(isinstance(a, ast.If) and unparse(a.test) == hit for a in _ancestors(c))]
            if not under_hit:
                problems.append(f"the instance is not rebuilt under `if {hit}`")
            finals = [r for r in walk_function(fn.node, nested=False) if isinstance(r, ast.Return) and isinstance(r.value, ast.Name) and r.value.id == self_]
            if not finals or any(isinstance(a, ast.If) and unparse(a.test) == hit for r in finals for a in _ancestors(r)):
                problems.append("`return self` is not the result when nothing changed")
    # arguments may only be skipped when they cannot be substituted into: no _eval_subs / a class
    subject = unparse(sc.func.value)
    for node in walk_function(fn.node):
        if isinstance(node, ast.If) and any(isinstance(b, ast.Continue) for b in node.body):
            t = unparse(node.test).replace(" ", "").replace('"', "'")
            if t not in {f"nothasattr({subject},'_eval_subs')", f"nothasattr({subject},'_subs')", f"isclass({subject})"}:
                problems.append(f"`if {unparse(node.test)}: continue` skips arguments that can be substituted into")
    ctx.verdict(not problems, "R-PROPAGATE", f"{fn.qual}::change-propagation", tree.loc(fn.node),
                "_eval_subs hook: arg._subs(old, new) per argument; a differing result sets the hit flag and replaces that argument's slot; rebuilt instance iff hit, else self", problems or None)


def count_nested_constructions(tree: Tree) -> list[str]:
    classes = set(expression_classes(tree)) | set(handwritten_expr_classes(tree))
    out = []
    for q, fn in tree.funcs.items():
        if not q.startswith("ampform"):
            continue
        for call, callee in tree.calls_in(fn, nested=False):
            if callee in classes:
                for a in [*call.args, *[k.value for k in call.keywords]]:
                    if isinstance(a, ast.Call) and tree.callee(a, fn) in classes:
                        out.append(f"{tree.loc(call)} {unparse(call)[:70]}")
                        break
    return out


def run(ctx: Check, tree: Tree) -> None:
    ctx.decided += [
        'R-SHALLOW (arity): the field getter of the hooks yields a tuple for classes of every arity (operator.attrgetter(*names) does not for one field)',
        "reconstruction hooks (_eval_subs, _xreplace) installed by @unevaluated read arguments shallowly and completely (R-SHALLOW/R-COMPLETE)",
        "the substitution hooks visit every argument whenever the rule is non-empty; no pre-filter by free symbols (R-DESCEND)",
        "generated-code templates never put an unparenthesised printed sub-expression next to a tighter-binding operator (R-PREC)",
        "every `... = self.args` unpacking matches the class's SymPy field list in count and position (R-ARITY)",
        "_hashable_content hook is installed unconditionally and covers the non-SymPy fields (R-HASH)",
        "_eval_subs/_xreplace hooks are installed whenever a class has non-SymPy fields (R-HOOKS)",
        "classes that both unfold and print themselves print through their unfolding (R-ONEDEF)",
    ]
    ctx.not_decided += [
        "the commutation laws for arbitrary substitution maps and argument shapes (runtime values)",
        "LaTeX printing",
        "numerical equality of generated code",
    ]
    ctx.assumptions += [
        "dataclasses.astuple/asdict recurse into nested dataclass instances; copy.deepcopy copies (CPython documentation)",
        "sympy Basic.subs/xreplace call _eval_subs/_xreplace and rebuild with self.func(*args)",
    ]
    classes = expression_classes(tree)
    if len(classes) < MIN_CLASSES:
        raise AnalysisError(f"only {len(classes)} @unevaluated classes found (confirmed {MIN_CLASSES}+ by hand)")
    ctx.stats["decorated_classes"] = len(classes)
    ctx.stats["handwritten_expr_classes"] = len(handwritten_expr_classes(tree))

    # non-vacuity of R-SHALLOW: nested unevaluated arguments do occur in the package
    nested = count_nested_constructions(tree)
    ctx.stats["nested_construction_sites"] = len(nested)
    if len(nested) < MIN_NESTED:
        raise AnalysisError(f"only {len(nested)} nested expression constructions found (confirmed {MIN_NESTED}+)")
    ctx.info("R-SHALLOW", nested[0].split()[0], f"{len(nested)} nested expression-class constructions, e.g. {nested[0]}")

    # ---- R-SHALLOW on the substitution hooks
    ctx.section(check_shallow_hooks, ctx, tree, ["_eval_subs", "_xreplace"], need_complete=True)

    # ---- hooks installed under the right condition
    hooks = installed_hooks(tree)
    impl = tree.func(IMPLEMENT_NEW)
    if "_hashable_content" not in hooks:
        ctx.violation(
            "R-HASH",
            f"{IMPLEMENT_NEW}::missing _hashable_content",
            tree.loc(impl.node),
            "no _hashable_content hook: equality and hash ignore the non-SymPy attributes",
        )
    else:
        value, cond, resolved = hooks["_hashable_content"]
        key = f"{IMPLEMENT_NEW}::cls._hashable_content"
        if resolved not in tree.funcs:
            raise AnalysisError(f"_hashable_content hook {unparse(value)} unresolved")
        fn = tree.funcs[resolved]
        srcs = [s for f, _ in reach_functions(tree, fn, 2) for s in argument_sources(tree, f)]
        field_srcs = [s for s in srcs if s["kind"] == "fields"]
        returns_fields = False
        from ..dataflow import RD

        rd = RD(fn.node)
        for ret, _uses in rd.returns:
            if ret.value is None:
                continue
            names = {d.name for d in rd.closure(rd.uses(ret.value))}
            for s in field_srcs:
                # the comprehension is either inline in the return or bound to a local that reaches it
                if any(s["node"] is n for n in ast.walk(ret.value)):
                    returns_fields = True
                for d in rd.defs:
                    if d.value is not None and any(s["node"] is n for n in ast.walk(d.value)) and d.name in names:
                        returns_fields = True
        bad_filter = [
            s for s in field_srcs if s["filter"] and not all("not" in f or "is False" in f or "== False" in f for f in s["filter"])
        ]
        has_super = any(
            isinstance(n, ast.Call) and isinstance(n.func, ast.Attribute) and n.func.attr == "_hashable_content"
            for n in walk_function(fn.node)
        )
        if cond:
            ctx.violation("R-HASH", key + "::conditional", tree.loc(value), "the _hashable_content hook is only installed under a condition")
        elif not field_srcs or not returns_fields:
            ctx.violation(
                "R-HASH",
                key + "::no-fields",
                tree.loc(fn.node),
                f"{fn.qual} does not return the values of the non-SymPy fields: instances that differ only in a non-SymPy attribute compare equal",
            )
        elif bad_filter:
            ctx.violation(
                "R-HASH",
                key + "::filter",
                tree.loc(bad_filter[0]["node"]),
                f"{fn.qual} filters the fields with {bad_filter[0]['filter']}: non-SymPy fields are not the ones kept",
            )
        elif not has_super:
            ctx.violation("R-HASH", key + "::no-super", tree.loc(fn.node), f"{fn.qual} drops the class/args part of the hashable content")
        else:
            ctx.ok("R-HASH", tree.loc(value), f"cls._hashable_content = {unparse(value)}: unconditional, returns super content + getattr over non-SymPy fields")
        ctx.section(check_content_injective, ctx, tree, fn)
    n_nonsympy = sum(1 for c in classes.values() if c.non_sympy_fields)
    ctx.stats["classes_with_non_sympy_fields"] = n_nonsympy
    for attr in ("_eval_subs", "_xreplace"):
        if attr in hooks:
            value, cond, _ = hooks[attr]
            if cond:
                # the guarding condition must be (derived from) "has non-sympy fields"
                guard = next(a for a in _ancestors(value) if isinstance(a, ast.If))
                gtxt = unparse(guard.test)
                rd_ok = "non_sympy" in gtxt or "sympify" in gtxt
                negated = isinstance(guard.test, ast.UnaryOp) and isinstance(guard.test.op, ast.Not)
                in_else = not any(value is n for st in guard.body for n in ast.walk(st))
                if negated != in_else:
                    rd_ok = False
                elif not rd_ok:
                    # look at the definition of the tested name
                    rd_ok = _guard_is_nonsympy(tree, impl, guard.test)
                ctx.verdict(
                    rd_ok,
                    "R-HOOKS",
                    f"{IMPLEMENT_NEW}::cls.{attr}::guard",
                    tree.loc(guard),
                    f"cls.{attr} installed under `if {gtxt}` ({n_nonsympy} classes have non-SymPy fields)",
                )
            else:
                ctx.ok("R-HOOKS", tree.loc(value), f"cls.{attr} installed unconditionally")

    ctx.section(check_descent, ctx, tree)
    ctx.section(check_arg_order, ctx, tree)
    ctx.section(check_internal_rebuild, ctx, tree)
    ctx.section(check_change_propagation, ctx, tree)
    from .c18 import check_subs_returns

    ctx.section(check_subs_returns, ctx, tree)  # the sum helper class: subs-then-unfold == unfold-then-subs needs the pools substituted, too
    from .c15 import check_reentrant_new

    ctx.section(check_reentrant_new, ctx, tree)  # "reproduced by rebuilding it from its own arguments" for the array helper classes
    ctx.section(check_precedence, ctx, tree, prefixes=("ampform",))

    # ---- R-ARITY
    n_unpack = 0
    for q, cls in classes.items():
        for mname, m in cls.info.methods.items():
            for st, elts, _through_map in self_args_unpackings(m):
                n_unpack += 1
                problem = check_arity(cls, elts)
                ctx.verdict(
                    problem is None,
                    "R-ARITY",
                    f"{m.qual}::{unparse(st.targets[0])} = self.args",
                    tree.loc(st),
                    f"{cls.name}.{mname}: {unparse(st)[:90]}",
                    problem,
                )
    ctx.stats["self_args_unpack_sites"] = n_unpack
    if n_unpack < MIN_UNPACK:
        raise AnalysisError(f"only {n_unpack} `= self.args` unpack sites found (confirmed {MIN_UNPACK}+)")

    # ---- self.<attr> inside methods of decorated classes must exist (field, method, class attr)
    ctx.section(check_field_access, ctx, tree, classes)

    # ---- R-ONEDEF
    n_onedef = 0
    for q, cls in classes.items():
        ev, npc = cls.method("evaluate"), cls.method("_numpycode")
        if ev is None or npc is None:
            continue
        n_onedef += 1
        ok = False
        for node in walk_function(npc.node):
            if isinstance(node, ast.Return) and node.value is not None:
                v = node.value
                ok = (
                    isinstance(v, ast.Call)
                    and isinstance(v.func, ast.Attribute)
                    and v.func.attr in {"_print", "doprint"}
                    and v.args
                    and _derives_from_evaluate(npc, v.args[0])
                )
        ctx.verdict(
            ok,
            "R-ONEDEF",
            f"{npc.qual}::prints-evaluate",
            tree.loc(npc.node),
            f"{cls.name} defines evaluate() and _numpycode(): _numpycode must print self.evaluate()",
            None if ok else "two independent definitions of one quantity (folded code may differ from unfolded code)",
        )
    ctx.stats["onedef_instances"] = n_onedef
    if n_onedef < 3:
        raise AnalysisError(f"only {n_onedef} classes with both evaluate and _numpycode (confirmed 3)")

    # ---- advisory: commutative=False has no effect
    dec = tree.func("ampform.sympy._decorator::unevaluated")
    for node in walk_function(dec.node, nested=False):
        if isinstance(node, ast.If) and "assumptions.get('commutative')" in unparse(node.test) and isinstance(node.test, ast.UnaryOp):
            n = sum(1 for c in classes.values() if "commutative" in c.assumptions)
            ctx.advisory(
                "A-COMMUTATIVE",
                tree.loc(node),
                f"`if not assumptions.get('commutative')` overwrites an explicit commutative=False ({n} classes pass it); not a clause of C14",
            )


def _ancestors(node):
    from ..loader import ancestors

    return ancestors(node)


def _guard_is_nonsympy(tree: Tree, impl, test: ast.AST) -> bool:
    from ..dataflow import RD

    rd = RD(impl.node)
    for d in rd.closure(rd.uses(test)):
        if d.value is not None:
            txt = unparse(d.value)
            if "not _is_sympify" in txt or "not f.metadata" in txt or "sympify" in txt and "not" in txt:
                return True
    return False


def _derives_from_evaluate(fn, expr: ast.AST) -> bool:
    from ..dataflow import RD

    def is_eval_call(n):
        return (
            isinstance(n, ast.Call)
            and isinstance(n.func, ast.Attribute)
            and n.func.attr in {"evaluate", "doit"}
            and isinstance(n.func.value, ast.Name)
            and n.func.value.id == "self"
        )

    if any(is_eval_call(n) for n in ast.walk(expr)):
        return True
    rd = RD(fn.node)
    for d in rd.closure(rd.uses(expr)):
        if d.value is not None and any(is_eval_call(n) for n in ast.walk(d.value)):
            return True
    return False


def check_field_access(ctx: Check, tree: Tree, classes) -> None:
    """``self.x`` in evaluate/_numpycode/as_explicit of a decorated class: ``x`` must be a
    field, a method/property/class attribute of the class (repo MRO) - or the base is
    external, in which case only near-misses of field names are reported."""
    sympy_attrs = {"args", "func", "doit", "evaluate", "free_symbols", "xreplace", "subs", "is_commutative", "shape", "name"}
    n = 0
    for q, cls in classes.items():
        known = {f.name for f in cls.fields}
        for c in tree.mro(cls.info):
            known |= set(c.methods)
            for st in c.node.body:
                for t in getattr(st, "targets", []) or ([st.target] if isinstance(st, ast.AnnAssign) else []):
                    if isinstance(t, ast.Name):
                        known.add(t.id)
        for mname in ("evaluate", "as_explicit", "_numpycode", "_latex_repr_"):
            m = cls.method(mname)
            if m is None:
                continue
            for node in walk_function(m.node):
                if isinstance(node, ast.Attribute) and isinstance(node.value, ast.Name) and node.value.id == "self" and isinstance(node.ctx, ast.Load):
                    n += 1
                    if node.attr in known or node.attr in sympy_attrs or node.attr.startswith("_"):
                        continue
                    ctx.violation(
                        "R-FIELD",
                        f"{m.qual}::self.{node.attr}",
                        tree.loc(node),
                        f"{cls.name}.{mname} reads self.{node.attr}, which is neither a field {sorted(f.name for f in cls.fields)} nor a class attribute",
                    )
    ctx.stats["self_attr_reads_checked"] = n
    ctx.ok("R-FIELD", "src/ampform", f"{n} `self.<attr>` reads in evaluate/as_explicit/printers name an existing field or attribute") if n else None
