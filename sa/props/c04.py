"""C04 - unpolarised intensity is invariant under a global rotation of the event.

Decided structurally:
R-PROV        the state that names an angle pair is the state whose momentum fills it.
R-FRAME       helicity frames are B_z(|p|/E) R_y(-theta) R_z(-phi) of one summed momentum.
R-NORMALISED  every consumer of the angle names resolves "opposite helicity state" the same way.
R-CONVENTION  the Wigner-D takes (-phi, theta, 0) and lambda_1 - lambda_2 of the normalised pair.
"""

from __future__ import annotations

import ast

from ..dataflow import RD
from ..inline import Inliner
from ..loader import AnalysisError, FuncInfo, Tree, ancestors, unparse, walk_function
from ..prov import describe, named_stores
from ..report import Check

PID = "C04"
ANGLES = "ampform.kinematics.angles::compute_helicity_angles"
NAMING = "ampform.helicity.naming::get_helicity_angle_symbols"
OPPOSITE = "ampform.helicity.decay::is_opposite_helicity_state"


def prov_key(store) -> str:
    """Key of an R-PROV violation: function + store statement + missing definitions, with
    the names of local variables canonicalised (alpha-renaming does not change the key)."""
    from ..canon import canon

    missing = sorted(describe(d, canonical=True) for d in store.missing)
    return f"{store.fn.qual}::{canon(store.stmt)}::missing[{'; '.join(missing)}]"


def check_prov(ctx: Check, tree: Tree, producers: list[str], min_stores: int) -> int:
    n = 0
    cache: dict = {}
    for q in producers:
        fn = tree.func(q)
        fns = [fn] + [f for f in tree.funcs.values() if f.outer is fn]
        for f in fns:
            for store in named_stores(tree, f, cache):
                n += 1
                key_defs = sorted(describe(d) for d in store.identity_defs)
                val_defs = sorted(describe(d) for d in store.value_closure if d.name in {x.name for x in store.identity_defs})
                where = tree.loc(store.stmt)
                what = f"{f.qual}: `{unparse(store.stmt)}` - key named by {unparse(store.naming_call)[:60]}"
                if store.missing:
                    ctx.violation(
                        "R-PROV",
                        prov_key(store),
                        where,
                        what + ": the variable is named after one state but filled with the momentum of another",
                        {
                            "identity_defs_at_key": key_defs,
                            "identity_defs_reaching_value": val_defs,
                            "not_reaching_value": sorted(describe(d) for d in store.missing),
                            "consequence": "for a decaying child that is the opposite-helicity state the angle symbol of the sibling is filled with the child's own momentum: "
                            "multi-topology intensities are not rotation invariant and one name denotes different quantities in isomorphic topologies",
                        },
                    )
                else:
                    ctx.ok("R-PROV", where, what, {"identity_defs": key_defs})
    if n < min_stores:
        raise AnalysisError(f"only {n} named kinematic-variable stores found (confirmed {min_stores})")
    return n


def _call_named(node: ast.AST, name: str) -> bool:
    return isinstance(node, ast.Call) and ((isinstance(node.func, ast.Name) and node.func.id == name) or (isinstance(node.func, ast.Attribute) and node.func.attr == name))


def check_frame(ctx: Check, tree: Tree) -> None:
    fn = tree.func(ANGLES + ".__recursive_helicity_angles")
    from ..prov import CallInliner, _rd_for

    rd = _rd_for(fn, {})
    cinl = CallInliner(tree, fn, rd)  # a helper that the boost block was extracted into reads like the block itself

    def boosted(n: ast.AST) -> ast.DictComp | None:
        """The dict comprehension (all locals and straight-line helpers substituted) that ``n`` evaluates to, if
        its values are ArrayMultiplication(...) products."""
        if not (isinstance(n, ast.DictComp) or (isinstance(n, ast.Call) and tree.callee(n, fn) in tree.funcs and tree.callee(n, fn) != fn.qual)):
            return None
        e = cinl.expr(n)
        if isinstance(e, ast.DictComp) and any(_call_named(c, "ArrayMultiplication") for c in ast.walk(e.value)):
            return e
        return None

    found = [(n, e) for n in walk_function(fn.node) for e in [boosted(n)] if e is not None]
    found = [(n, e) for n, e in found if not any(m is not n and any(x is n for x in ast.walk(m)) for m, _ in found)]  # outermost only
    if len(found) != 1:
        raise AnalysisError(f"{fn.qual}: expected one boosted momentum pool (dict comprehension with ArrayMultiplication), found {len(found)}")
    comp_node, comp = found[0]  # the expression in the function / the comprehension it denotes
    key = f"{fn.qual}::frame-chain"
    problems = []
    am = next(c for c in ast.walk(comp.value) if _call_named(c, "ArrayMultiplication"))
    args = []
    for a in am.args:  # ArrayMultiplication(*frame, p) with frame a tuple of matrices
        if isinstance(a, ast.Starred) and isinstance(a.value, (ast.Tuple, ast.List)):
            args.extend(a.value.elts)
        else:
            args.append(a)
    # the pooled momenta may be filtered before they are mapped: `{k: f(p) for k, p in {k: p for k, p in pool.items() if c}.items()}`
    filters = list(comp.generators[0].ifs)
    source = comp.generators[0].iter
    while True:
        inner = source.func.value if isinstance(source, ast.Call) and isinstance(source.func, ast.Attribute) and source.func.attr == "items" and not source.args else source
        if (isinstance(inner, ast.DictComp) and len(inner.generators) == 1 and isinstance(inner.generators[0].target, ast.Tuple)
                and [unparse(x) for x in inner.generators[0].target.elts] == [unparse(inner.key), unparse(inner.value)]):
            filters += inner.generators[0].ifs
            source = inner.generators[0].iter
            continue
        break
    names = [a.func.id if isinstance(a, ast.Call) and isinstance(a.func, ast.Name) else None for a in args]
    if names[:3] != ["BoostZMatrix", "RotationYMatrix", "RotationZMatrix"] or len(args) != 4:
        problems.append(f"chain is {names}, not [BoostZMatrix, RotationYMatrix, RotationZMatrix, p]")
    else:
        bz, ry, rz, p = args
        loop_val = comp.generators[0].target
        val_name = loop_val.elts[1].id if isinstance(loop_val, ast.Tuple) and len(loop_val.elts) == 2 else None
        if not (isinstance(p, ast.Name) and p.id == val_name):
            problems.append(f"the transformed object `{unparse(p)}` is not the pooled momentum `{val_name}`")
        P = None
        # rotations: -Theta(P), -Phi(P)
        for mat, cls_name, label in ((ry, "Theta", "theta"), (rz, "Phi", "phi")):
            a = mat.args[0] if mat.args else None
            if not (isinstance(a, ast.UnaryOp) and isinstance(a.op, ast.USub) and _call_named(a.operand, cls_name)):
                problems.append(f"{unparse(mat.func)} takes `{unparse(a)[:50] if a is not None else None}`, not -{cls_name}(P)")
            else:
                this = unparse(a.operand.args[0])
                P = P or this
                if this != P:
                    problems.append(f"{label} is computed from a different momentum than the other angle")
        b = bz.args[0] if bz.args else None
        if not (isinstance(b, ast.BinOp) and isinstance(b.op, ast.Div) and _call_named(b.left, "three_momentum_norm") and _call_named(b.right, "Energy")):
            if not (isinstance(b, ast.BinOp) and isinstance(b.op, ast.Div) and _call_named(b.left, "EuclideanNorm") and _call_named(b.right, "Energy")):
                problems.append(f"beta = `{unparse(b)[:60] if b is not None else None}` is not |p|/E")
        if isinstance(b, ast.BinOp) and P is not None:
            bl = unparse(b.left.args[0]) if isinstance(b.left, ast.Call) and b.left.args else None
            if bl is not None and "ThreeMomentum" in bl:
                bl = bl[len("ThreeMomentum("):-1]
            br = unparse(b.right.args[0]) if isinstance(b.right, ast.Call) and b.right.args else None
            if bl != P or br != P:
                problems.append("beta is not computed from the same summed momentum as the angles")
        if P is not None:
            import re as _re

            loop_vars = {unparse(a.target) for a in ancestors(comp_node) if isinstance(a, ast.For)}
            mm = _re.search(r"determine_attached_final_state\(topology, (\w+)\)", P)
            if not (P.startswith("ArraySum(") and mm and mm.group(1) in loop_vars):
                problems.append(f"the frame momentum `{P[:60]}` is not the sum over the final states attached to the decaying child")
        # (a filter `if k in sub_momenta_ids` only drops entries the recursion never reads:
        #  not a necessary condition, not checked.)  A filter must never drop own members:
        for cond in filters:
            if not (isinstance(cond, ast.Compare) and len(cond.ops) == 1 and isinstance(cond.ops[0], ast.In)
                    and "determine_attached_final_state" in unparse(cond.comparators[0])):
                problems.append(f"the boosted pool is filtered by `{unparse(cond)[:60]}`, which is not membership in the sub-system's final states")
    ctx.verdict(not problems, "R-FRAME", key, tree.loc(comp_node),
                "helicity frame = BoostZ(|P|/E) · RotationY(-Theta(P)) · RotationZ(-Phi(P)) applied to the sub-system's momenta, P = summed momentum of the decaying child",
                problems or None)
    # recursion continues with the boosted pool into the child's decay node
    rec = [c for c in walk_function(fn.node) if isinstance(c, ast.Call) and isinstance(c.func, ast.Name) and c.func.id == fn.name]
    ok = False
    foreign = None
    for c in rec:
        if len(c.args) == 2:
            pool_defs = rd.closure(rd.uses(c.args[0]))
            ok = any(d.value is comp_node for d in pool_defs) and "ending_node_id" in unparse(cinl.expr(c.args[1]))
            # ... and with nothing but that pool: every definition that reaches the argument
            # (through plain name copies) is the comprehension of THIS activation.  A pool read
            # back from a container that outlives the activation (a memo keyed by the
            # sub-system's ids) is the frame of whichever chain of parents filled it first.
            work, seen = [c.args[0]], set()
            while work:
                e = work.pop()
                if e is comp_node:
                    continue
                if isinstance(e, ast.Name):
                    for d in rd.uses(e):
                        if id(d) in seen:
                            continue
                        seen.add(id(d))
                        if d.value is None:
                            foreign = foreign or f"`{e.id}` ({d.kind})"
                        else:
                            work.append(d.value)
                else:
                    foreign = foreign or f"`{unparse(e)[:60]}`"
    ctx.verdict(ok, "R-FRAME", f"{fn.qual}::recursion", tree.loc(rec[0]) if rec else tree.loc(fn.node),
                "the recursion descends into the child's decay node with the boosted momentum pool")
    ctx.verdict(foreign is None, "R-FRAME", f"{fn.qual}::recursion-own-pool", tree.loc(rec[0]) if rec else tree.loc(fn.node),
                "the pool handed to the recursion is the one boosted in this activation (from this activation's pool), on every path",
                None if foreign is None else f"the pool may also be {foreign}: a frame reached through a different chain of parent frames differs by a Wigner rotation")


def _state_arg(call: ast.Call) -> str | None:
    """Source of the state id handed to a (topology, state_id) helper - positional or by keyword."""
    a = call.args[1] if len(call.args) >= 2 else next((k.value for k in call.keywords if k.arg == "state_id"), None)
    return unparse(a) if a is not None else None


def normalised_id(tree: Tree, fn: FuncInfo, rd: RD, arg: ast.AST, call: ast.Call) -> str | None:
    """How is the state id handed to the naming function normalised to the helicity state?"""
    txt = unparse(Inliner(fn.node, rd).expr(arg))  # `first, _ = decay.children; first.id` is `decay.children[0].id`
    if ".children[0]" in txt:
        return "TwoBodyDecay.children[0] (normalised by from_transition)"
    if isinstance(arg, ast.Name):
        defs = list(rd.reaching(arg))
        guarded, plain = [], []
        for d in defs:
            hit = None
            for anc in ancestors(d.node):
                if isinstance(anc, ast.If):
                    for c in ast.walk(anc.test):
                        if isinstance(c, ast.Call) and tree.callee(c, fn) == OPPOSITE and _state_arg(c) == arg.id:
                            if not (isinstance(anc.test, ast.UnaryOp) and isinstance(anc.test.op, ast.Not)):
                                hit = anc
            (guarded if hit is not None else plain).append((d, hit))
        if guarded and plain:
            # the replacement must be the SIBLING of the first pick
            for d, anc in guarded:
                v = d.value
                if isinstance(v, ast.Call) and tree.callee(v, fn) == "ampform.helicity.decay::get_sibling_state_id" and _state_arg(v) == arg.id:
                    continue
                if isinstance(v, ast.Subscript) and isinstance(v.slice, ast.Constant):
                    firsts = [p.value for p, _ in plain if isinstance(p.value, ast.Subscript) and isinstance(p.value.slice, ast.Constant) and unparse(p.value.value) == unparse(v.value)]
                    if firsts and all({f.slice.value, v.slice.value} == {0, 1} for f in firsts) and len(firsts) == len(plain):
                        continue
                return None
            d, anc = guarded[0]
            return f"`if {unparse(anc.test)}: {unparse(d.node)[:50]}` (replaced by its sibling)"
    return None


def _decided_tests(test: ast.AST, outcome: bool):
    """(atomic test, outcome) pairs that are known once ``test`` evaluated to ``outcome``."""
    from ..canon import normal_test

    test, outcome = normal_test(test, outcome)
    if isinstance(test, ast.BoolOp) and ((isinstance(test.op, ast.And) and outcome) or (isinstance(test.op, ast.Or) and not outcome)):
        for v in test.values:
            yield from _decided_tests(v, outcome)
    else:
        yield test, outcome


def children_order(tree: Tree, ft: FuncInfo) -> tuple[list[str], list[str]]:
    """On every returning path of ``TwoBodyDecay.from_transition``: the state handed to the constructor as
    children[0] is one for which `is_opposite_helicity_state` was decided False on that path, or children[1]
    is one for which it was decided True (exactly one of two siblings is the opposite-helicity state).  The
    values are followed path by path (swap statement, conditional expression, helper, generator over the
    ordered ids - all the same)."""
    from ..paths import PathWalker
    from ..prov import PathValues, as_display, ifexp_alternatives

    state_ctor = "ampform.helicity.decay::StateWithID.from_transition"
    keep = {OPPOSITE, state_ctor, ft.qual, "ampform.helicity.decay::get_sibling_state_id", "ampform.helicity.decay::determine_attached_final_state"}
    walker = PathWalker(tree, expand=lambda q: q.startswith("ampform.") and q not in keep, max_depth=2)
    problems: list[str] = []
    shown: list[str] = []
    n_ret = 0
    for path in walker.paths(ft):
        if path.exit != "return":
            continue
        n_ret += 1
        pv = PathValues()
        for ev in path.events:
            pv.feed(ev)
        ret = path.exit_node
        whole = pv.value(ret.value) if ret is not None and ret.value is not None else None
        if whole is None:
            raise AnalysisError(f"{ft.qual}: bare return")
        # a conditional expression inside the value is one more fork of the path
        for val, extra in ifexp_alternatives(whole):
            children = None
            if isinstance(val, ast.Call):
                children = next((k.value for k in val.keywords if k.arg == "children"), val.args[1] if len(val.args) > 1 else None)
            elts = as_display(children) if children is not None else None
            if elts is None or len(elts) != 2:
                raise AnalysisError(f"{ft.qual}: cannot read the two children handed to the constructor from `{unparse(val)[:80]}`")
            ids = []
            for e in elts:
                sid = None
                if isinstance(e, ast.Call) and tree.resolve(ft.module, e.func, ft) == state_ctor:
                    sid = next((k.value for k in e.keywords if k.arg == "state_id"), e.args[1] if len(e.args) > 1 else None)
                if sid is None:
                    raise AnalysisError(f"{ft.qual}: child `{unparse(e)[:60]}` is not StateWithID.from_transition(transition, <id>)")
                ids.append(unparse(sid))
            facts: dict[str, bool] = {}
            for test, outcome in [*pv.tests, *extra]:
                for t, o in _decided_tests(test, outcome):
                    if isinstance(t, ast.Call) and (tree.resolve(ft.module, t.func, ft) == OPPOSITE or unparse(t.func).split(".")[-1] == OPPOSITE.split("::")[-1]):
                        a = next((k.value for k in t.keywords if k.arg == "state_id"), t.args[1] if len(t.args) > 1 else None)
                        if a is not None:
                            facts[unparse(a)] = o
            first, second = ids
            shown.append("; ".join(f"opposite({a}) is {o}" for a, o in facts.items()) + f" -> children = ({first}, {second})")
            if first == second:
                problems.append(f"both children are `{first}`")
            elif facts.get(first) is True:
                problems.append(f"children[0] = `{first}` although it is the opposite-helicity state on this path")
            elif facts.get(second) is False:
                problems.append(f"children[1] = `{second}` although it is the helicity state on this path")
            elif not (facts.get(first) is False or facts.get(second) is True):
                problems.append(f"children = (`{first}`, `{second}`): not ordered by is_opposite_helicity_state on this path")
    if n_ret < 1:
        raise AnalysisError(f"{ft.qual}: no returning path")
    return problems, shown


def check_normalised(ctx: Check, tree: Tree) -> None:
    n = 0
    cache: dict = {}
    from ..prov import _rd_for

    for q, fn in sorted(tree.funcs.items()):
        if not q.startswith("ampform"):
            continue
        for call, callee in tree.calls_in(fn, nested=False):
            if callee != NAMING:
                continue
            n += 1
            arg = call.args[1] if len(call.args) > 1 else next((k.value for k in call.keywords if k.arg == "state_id"), None)
            rd = _rd_for(fn, cache)
            how = normalised_id(tree, fn, rd, arg, call) if arg is not None else None
            ctx.verdict(how is not None, "R-NORMALISED", f"{q}::get_helicity_angle_symbols({unparse(arg) if arg is not None else ''})", tree.loc(call),
                        f"{q}: angle symbols are requested for the helicity state: {how or unparse(arg)}",
                        None if how else "the id is not normalised with is_opposite_helicity_state: producer and consumer may name the same angle after different children")
    if n < 4:
        raise AnalysisError(f"only {n} call sites of get_helicity_angle_symbols (4 confirmed)")
    # TwoBodyDecay.from_transition orders the children so that children[0] is the helicity state
    ft = tree.func("ampform.helicity.decay::TwoBodyDecay.from_transition")
    problems, detail = children_order(tree, ft)
    ctx.verdict(not problems, "R-NORMALISED", f"{ft.qual}::swap", tree.loc(ft.node),
                "TwoBodyDecay.from_transition: if the first outgoing state is the opposite-helicity state the two are swapped, so children[0] is the helicity state",
                detail if not problems else {"problems": problems, "paths": detail})
    # sign of the helicity index in the aligned amplitude symbol
    gs = tree.func("ampform.helicity.align.axisangle::get_opposite_helicity_sign")
    rets = {unparse(r.value) for r in walk_function(gs.node) if isinstance(r, ast.Return)}
    cond = [n for n in walk_function(gs.node) if isinstance(n, ast.If)]
    ok = rets == {"-1", "1"} and len(cond) == 1 and any(tree.callee(c, gs) == OPPOSITE for c in ast.walk(cond[0].test) if isinstance(c, ast.Call)) and unparse(cond[0].body[0].value) == "-1"
    ctx.verdict(ok, "R-NORMALISED", f"{gs.qual}::sign", tree.loc(gs.node), "get_opposite_helicity_sign: -1 exactly for the opposite-helicity state, +1 otherwise")


def convention_evaluator(tree: Tree):
    """TermEval in which the decay of (transition, node_id) is the opaque object `decay`, and the naming
    functions return opaque applications of the (topology, state id) they are asked for - so that WHICH state
    a symbol is requested for can be read off the value, through any helper the request is routed through."""
    from ..poly import sym
    from ..terms import Opaque, TermEval, Tup, vkey
    from .c02 import FROM_TRANSITION

    te = TermEval(tree)
    transition, node_id = Opaque(("transition",)), sym("node_id")

    def decay(_te, args, kwargs):
        given = [*args, *[kwargs[k] for k in ("transition", "node_id") if k in kwargs]]
        if [vkey(a) for a in given] == [vkey(transition), vkey(node_id)]:
            return Opaque(("decay",))
        return Opaque(("decay-of", tuple(vkey(a) for a in given)))

    def named(kind_names):
        def f(_te, args, kwargs):
            topology = kwargs.get("topology", args[0] if args else None)
            state = kwargs.get("state_id", args[1] if len(args) > 1 else None)
            if topology is None or state is None:
                raise AnalysisError("naming function called without (topology, state_id)")
            vals = [_te.app(k, [topology, state]) for k in kind_names]
            return vals[0] if len(vals) == 1 else Tup(vals)
        return f

    te.fork = True  # every path is judged separately
    te.overrides[FROM_TRANSITION] = decay
    te.overrides[OPPOSITE] = named(["is-opposite"])
    te.overrides[NAMING] = named(["phi-of", "theta-of"])
    te.overrides["ampform.kinematics.lorentz::get_invariant_mass_symbol"] = named(["mass-of"])
    return te, transition, node_id


def check_convention(ctx: Check, tree: Tree) -> None:
    from ..poly import RF, D
    from ..terms import PW, Opaque, Tup
    from .c02 import _same, extract_apps

    D.reset()
    te, transition, node_id = convention_evaluator(tree)
    env = {"decay": Opaque(("decay",)), "transition": transition}
    helicity_state = te.ev(ast.parse("decay.children[0].id", mode="eval").body, env)
    topology = te.ev(ast.parse("transition.topology", mode="eval").body, env)
    phi, theta = te.app("phi-of", [topology, helicity_state]), te.app("theta-of", [topology, helicity_state])
    gk = tree.func("ampform.helicity::_generate_kinematic_variables")
    res = te.eval_function(gk, [transition, node_id])
    ok = all(isinstance(r, Tup) and len(r.items) == 3 and _same(te, r.items[1], phi) and _same(te, r.items[2], theta)
             for r, _ in (res.branches if isinstance(res, PW) else [(res, None)]))
    ctx.verdict(ok, "R-CONVENTION", f"{gk.qual}::angles-of-children0", tree.loc(gk.node),
                "_generate_kinematic_variables: (phi, theta) are the angle symbols of decay.children[0] (the helicity state)", None if ok else repr(res)[:200])
    fn = tree.func("ampform.helicity::formulate_isobar_wigner_d")
    val = te.eval_function(fn, [transition, node_id])
    want = {"alpha": -phi, "beta": theta, "gamma": RF.const(0)}
    problems = []
    for branch in (val.branches if isinstance(val, PW) else [(val, None)]):
        apps = extract_apps(te, branch[0], "D")
        if len(apps) != 1:
            raise AnalysisError("formulate_isobar_wigner_d: expected one Wigner.D call")
        got = apps[0]
        problems += [f"{k} = {got.get(k)!r} is not {'-phi' if k == 'alpha' else 'theta' if k == 'beta' else '0'}" + (" of decay.children[0]" if k != "gamma" else "")
                     for k, w in want.items() if not _same(te, got.get(k), w)]
    ctx.verdict(not problems, "R-CONVENTION", f"{fn.qual}::euler-angles", tree.loc(fn.node),
                "Wigner-D of a decay node takes (alpha, beta, gamma) = (-phi, theta, 0): the conjugate of the frame rotation R_y(-theta) R_z(-phi)", problems or None)


def _unwrap_collection(e: ast.AST) -> ast.AST:
    """Look through conversions that keep the elements: list(x), set(x), tuple(x), sorted(x), frozenset(x)."""
    while isinstance(e, ast.Call) and isinstance(e.func, ast.Name) and e.func.id in {"list", "set", "tuple", "sorted", "frozenset"} and len(e.args) == 1 and not e.keywords:
        e = e.args[0]
    return e


def sibling_definition(fn: FuncInfo) -> tuple[bool, str | None]:
    """Is the (single) value returned by ``fn(topology, state)`` the one element of
    ``topology.get_edge_ids_outgoing_from_node(topology.edges[state].originating_node_id)`` minus ``state``?
    Accepted constructions of "minus": `.remove(state)` / `.discard(state)` on the collection, a comprehension over
    it filtered by `x != state`, `- {state}` / `.difference({state})`; of "the one element": `next(iter(C))`,
    `C[0]`, `C.pop()`, `(x,) = C`."""
    if len(fn.params) < 2:
        return False, "no (topology, state) parameters"
    topo, state = fn.params[:2]
    rd = RD(fn.node)
    inl = Inliner(fn.node, rd)
    rets = [r for r in walk_function(fn.node) if isinstance(r, ast.Return) and r.value is not None]
    if len(rets) != 1:
        return False, f"{len(rets)} return statements"
    origin = f"{topo}.edges[{state}].originating_node_id"

    def is_state(e: ast.AST) -> bool:
        return isinstance(e, ast.Name) and e.id == state and all(d.kind == "param" for d in rd.reaching(e))

    def is_raw(e: ast.AST) -> bool:
        e = _unwrap_collection(inl.expr(e))
        return (isinstance(e, ast.Call) and isinstance(e.func, ast.Attribute) and e.func.attr == "get_edge_ids_outgoing_from_node"
                and unparse(e.func.value) == topo and len(e.args) == 1 and unparse(e.args[0]).replace(" ", "") == origin)

    def is_minus(e: ast.AST, depth: int = 0) -> bool:
        """``e`` evaluates to the outgoing edges of the originating node without ``state``."""
        e = _unwrap_collection(e)
        if isinstance(e, (ast.ListComp, ast.SetComp, ast.GeneratorExp)):
            if len(e.generators) != 1:
                return False
            g = e.generators[0]
            if not (isinstance(g.target, ast.Name) and isinstance(e.elt, ast.Name) and e.elt.id == g.target.id and len(g.ifs) == 1 and is_raw(g.iter)):
                return False
            c = g.ifs[0]
            if not (isinstance(c, ast.Compare) and len(c.ops) == 1 and isinstance(c.ops[0], ast.NotEq)):
                return False
            a, b = c.left, c.comparators[0]
            return any(isinstance(x, ast.Name) and x.id == g.target.id and is_state(y) for x, y in ((a, b), (b, a)))
        if isinstance(e, ast.BinOp) and isinstance(e.op, ast.Sub):
            return is_raw(e.left) and isinstance(e.right, ast.Set) and len(e.right.elts) == 1 and is_state(e.right.elts[0])
        if isinstance(e, ast.Call) and isinstance(e.func, ast.Attribute) and e.func.attr == "difference" and len(e.args) == 1:
            a = e.args[0]
            return is_raw(e.func.value) and isinstance(a, (ast.Set, ast.List, ast.Tuple)) and len(a.elts) == 1 and is_state(a.elts[0])
        if isinstance(e, ast.Name) and depth < 6:
            defs = rd.reaching(e)
            if not defs:
                return False
            for d in defs:
                if d.kind == "assign" and d.index is None and isinstance(d.value, ast.AST):
                    if not is_minus(d.value, depth + 1):
                        return False
                elif d.kind == "store" and isinstance(d.value, ast.Call) and isinstance(d.value.func, ast.Attribute) \
                        and d.value.func.attr in {"remove", "discard"} and len(d.value.args) == 1 and is_state(d.value.args[0]):
                    # x.remove(state): x was the complete collection before
                    older = [o for o in d.deps if o.name == d.name]
                    if not older or not all(o.kind == "assign" and o.index is None and isinstance(o.value, ast.AST) and is_raw(o.value) for o in older):
                        return False
                else:
                    return False
            return True
        return False

    v = rets[0].value
    coll = None
    if isinstance(v, ast.Call) and isinstance(v.func, ast.Name) and v.func.id == "next" and len(v.args) == 1 \
            and isinstance(v.args[0], ast.Call) and isinstance(v.args[0].func, ast.Name) and v.args[0].func.id == "iter" and len(v.args[0].args) == 1:
        coll = v.args[0].args[0]
    elif isinstance(v, ast.Subscript) and isinstance(v.slice, ast.Constant) and v.slice.value == 0:
        coll = v.value
    elif isinstance(v, ast.Call) and isinstance(v.func, ast.Attribute) and v.func.attr == "pop" and not v.args:
        coll = v.func.value
    elif isinstance(v, ast.Name):
        defs = rd.reaching(v)
        if len(defs) == 1:
            d = next(iter(defs))
            tgt = d.node.targets[0] if isinstance(d.node, ast.Assign) and len(d.node.targets) == 1 else None
            if d.kind == "assign" and d.index == 0 and isinstance(tgt, (ast.Tuple, ast.List)) and len(tgt.elts) == 1 and not isinstance(tgt.elts[0], ast.Starred):
                coll = d.value
    if coll is None:
        return False, f"`{unparse(v)[:60]}` is not the single element of a collection"
    if not is_minus(coll):
        return False, f"`{unparse(inl.expr(coll))[:80]}` is not the outgoing edges of `{origin}` minus `{state}`"
    return True, None


def check_topology_helpers(ctx: Check, tree: Tree) -> None:
    """R-HELPERS: the topology helpers on which the other rules rely (they are treated as the
    definition of "helicity state", "sibling", "parent" and "attached final states"):
      is_opposite_helicity_state(t, s)  =  tuple(attached(t, s)) > tuple(attached(t, sibling(t, s)))
                                           (a strict order: exactly one of two siblings is opposite, state 0 never)
      determine_attached_final_state    =  [s] iff the edge ends nowhere, else the sorted final states below it
      get_sibling_state_id              =  the one other edge leaving the originating node
      get_parent_id                     =  None iff the edge originates nowhere, else the one edge entering its originating node"""
    mod = "ampform.helicity.decay"
    # 1
    fn = tree.func(f"{mod}::is_opposite_helicity_state")
    rd = RD(fn.node)
    rets = [r for r in walk_function(fn.node) if isinstance(r, ast.Return) and r.value is not None]
    ok = False
    detail = None
    if len(rets) == 1 and isinstance(rets[0].value, ast.Compare) and len(rets[0].value.ops) == 1 and isinstance(rets[0].value.ops[0], (ast.Gt, ast.Lt)):
        # `a > b` and `b < a` are the same strict order; sorted lists of ints compare like the tuples made of them
        greater, smaller = rets[0].value.left, rets[0].value.comparators[0]
        if isinstance(rets[0].value.ops[0], ast.Lt):
            greater, smaller = smaller, greater

        def side(n):
            inner = n.args[0] if isinstance(n, ast.Call) and unparse(n.func) in {"tuple", "list"} and n.args else n
            txt = " ".join([unparse(inner)] + [unparse(d.value) for d in rd.closure(rd.uses(inner)) if isinstance(d.value, ast.AST)])
            if "determine_attached_final_state(" not in txt:
                return None
            return "sibling" if "get_sibling_state_id(" in txt else "state"
        l_, r_ = side(greater), side(smaller)
        ok = (l_, r_) == ("state", "sibling")
        detail = (l_, r_)
    ctx.verdict(ok, "R-HELPERS", f"{fn.qual}::strict-order", tree.loc(fn.node),
                "is_opposite_helicity_state == attached final states of the state > those of its sibling (strict tuple order)", None if ok else detail)
    # 2
    fn = tree.func(f"{mod}::determine_attached_final_state")
    rets = [r for r in walk_function(fn.node) if isinstance(r, ast.Return) and r.value is not None]
    ok = False
    if len(rets) == 2:
        leaf = [r for r in rets if unparse(r.value).replace(" ", "") == f"[{fn.params[1]}]"]
        if len(leaf) == 1:
            g = [a for a in ancestors(leaf[0]) if isinstance(a, ast.If)]
            ok = len(g) == 1 and unparse(g[0].test).replace(" ", "").endswith(".ending_node_idisNone") and any(leaf[0] is n for b in g[0].body for n in ast.walk(b))
            other = [r for r in rets if r is not leaf[0]][0]
            ok = ok and unparse(other.value).replace(" ", "").startswith("sorted(topology.get_originating_final_state_edge_ids(") and not [a for a in ancestors(other) if isinstance(a, ast.If)]
    ctx.verdict(ok, "R-HELPERS", f"{fn.qual}::definition", tree.loc(fn.node), "determine_attached_final_state: [state] iff the edge has no ending node, else the sorted final-state ids below its ending node")
    # 3
    fn = tree.func(f"{mod}::get_sibling_state_id")
    ok, detail = sibling_definition(fn)
    ctx.verdict(ok, "R-HELPERS", f"{fn.qual}::definition", tree.loc(fn.node), "get_sibling_state_id: the outgoing edges of the originating node minus the state itself", detail)
    # 4
    fn = tree.func(f"{mod}::get_parent_id")
    rets = [r for r in walk_function(fn.node) if isinstance(r, ast.Return)]
    none_r = [r for r in rets if r.value is None or (isinstance(r.value, ast.Constant) and r.value.value is None)]
    ok = False
    if len(none_r) == 1:
        g = [a for a in ancestors(none_r[0]) if isinstance(a, ast.If)]
        ok = len(g) == 1 and unparse(g[0].test).replace(" ", "").endswith(".originating_node_idisNone")
        val = [r for r in rets if r not in none_r]
        rd = RD(fn.node)
        ok = ok and len(val) == 1 and "get_edge_ids_ingoing_to_node(" in " ".join(unparse(d.value) for d in rd.closure(rd.uses(val[0].value)) if isinstance(d.value, ast.AST))
        ok = ok and isinstance(val[0].value, ast.Subscript) and unparse(val[0].value.slice) == "0"
        cnt = [n for n in walk_function(fn.node) if isinstance(n, ast.If) and any(isinstance(b, ast.Raise) for b in n.body)]
        ok = ok and len(cnt) == 1 and unparse(cnt[0].test).replace(" ", "").startswith("len(") and unparse(cnt[0].test).replace(" ", "").endswith("!=1")
    ctx.verdict(ok, "R-HELPERS", f"{fn.qual}::definition", tree.loc(fn.node), "get_parent_id: None iff the edge originates nowhere, else the single edge entering its originating node")


def run(ctx: Check, tree: Tree) -> None:
    ctx.decided += [
        "R-PROV: in compute_helicity_angles the state id that names an angle pair reaches the momentum that fills it (all reaching definitions)",
        "R-FRAME: helicity frames are BoostZ(|P|/E)·RotationY(-Theta(P))·RotationZ(-Phi(P)) of the child's summed momentum; recursion uses the boosted pool",
        "R-POOL: the momenta of each node are read in that node's own frame (the handed-in pool is never rebound or written): inner angles depend only on the chain of parent frames, which is what makes them rotation invariant",
        "R-HELPERS: is_opposite_helicity_state is the strict order on attached final states between a state and its sibling; determine_attached_final_state / get_sibling_state_id / get_parent_id have their documented definitions",
        "R-NORMALISED: every request for angle symbols is for the helicity state (children[0] or an id normalised with is_opposite_helicity_state); from_transition swap; alignment sign",
        "R-CONVENTION: Wigner-D takes (-phi, theta, 0) of the symbols of children[0]",
        "R-WIRING (shared with C05): the axis-angle rotation chain binds every Wigner D to the outer helicity symbol and the next free summation index",
        "R-GROUPKEY: the incoherent sum over outer spin projections is complete: the grouping key separates every (particle, projection) of the outer states",
    ]
    ctx.not_decided += [
        "numerical invariance of the intensity under rotations",
        "Wigner rotations of the axis-angle alignment (matrix products of boosts)",
        "reproduced on the unchanged tree and outside every structural clause decided here (DESIGN.md 9.4): (a) half-integer spins with two interfering topologies and axis-angle alignment - "
        "the Euler angles are read off an SO(3) matrix with atan2/acos, D^(1/2) needs them modulo 4 pi: Lambda_c+ -> p K- pi+ via Lambda(1520) and Delta(1232)++ changes by ~35% for 10-14 of 200 events under a rotation; "
        "(b) Dalitz-plot decomposition with two topologies: the combined amplitudes keep their lab-frame production angles, J/psi -> K0 Sigma+ p~ via Sigma(1660)~- and N(1650)+ changes by 4-7% (median) for every event",
    ]
    ctx.assumptions += ["qrules Topology API (get_edge_ids_*, edges) behaves as documented", "is_opposite_helicity_state is a total order on siblings (tuple comparison of attached final states)"]
    ctx.section(check_prov, ctx, tree, [ANGLES], min_stores=4)
    ctx.section(check_frame, ctx, tree)
    from .c07 import check_pool, check_recursion_shape

    ctx.section(check_pool, ctx, tree)
    ctx.section(check_recursion_shape, ctx, tree)
    ctx.section(check_normalised, ctx, tree)
    ctx.section(check_convention, ctx, tree)
    ctx.section(check_topology_helpers, ctx, tree)
    from .c05 import check_rotation_chain_order, check_wigner_angle_table

    ctx.section(check_wigner_angle_table, ctx, tree)

    ctx.section(check_rotation_chain_order, ctx, tree)  # interfering topologies with axis-angle alignment
    from .c05 import check_axisangle_structure

    ctx.section(check_axisangle_structure, ctx, tree)  # the alignment rotation is a unitary change of basis only if every D is bound to its summation symbols
    from .c02 import check_group_key

    # (which of two identical particles carries which helicity does not matter for rotation invariance:
    #  final-state helicities are rotation-invariant labels - that clause belongs to C02 only)
    ctx.section(check_group_key, ctx, tree, state_identity=False)
