"""C04 - unpolarised intensity is invariant under a global rotation of the event.

Decided structurally:
R-PROV        the state that names an angle pair is the state whose momentum fills it.
R-FRAME       helicity frames are B_z(|p|/E) R_y(-theta) R_z(-phi) of one summed momentum.
R-NORMALISED  every consumer of the angle names resolves "opposite helicity state" the same way.
R-CONVENTION  the Wigner-D takes (-phi, theta, 0) and lambda_1 - lambda_2 of the normalised pair.
"""

from __future__ import annotations

import ast

from ..loader import AnalysisError, FuncInfo, Tree, unparse, walk_function
from ..prov import describe
from ..report import Check

PID = "C04"
ANGLES = "ampform.kinematics.angles::compute_helicity_angles"
NAMING = "ampform.helicity.naming::get_helicity_angle_symbols"
OPPOSITE = "ampform.helicity.decay::is_opposite_helicity_state"


WORKER_ROLE = ANGLES + ".__recursive_helicity_angles"  # historical name of the recursion of compute_helicity_angles: part of recorded keys


def recursion_worker(tree: Tree) -> FuncInfo:
    """The function in which compute_helicity_angles descends the decay tree - found by what it DOES, not by its
    name: the one function nested in compute_helicity_angles, or package function reachable from it, that calls
    itself.  (Nested closure, module-level helper that takes the topology as a parameter, any name: the same role.)"""
    cached = tree.__dict__.get("_c04_worker")
    if cached is not None:
        return cached
    top = tree.func(ANGLES)
    graph = tree.call_graph()
    cands: list[FuncInfo] = []
    for q in sorted(tree.reachable(top.qual, graph) | {f.qual for f in tree.funcs.values() if _nested_in(f, top)}):
        f = tree.funcs.get(q)
        if f is None or not q.startswith("ampform.kinematics"):
            continue
        if q in graph.get(q, set()) or any(c == q for _, c in tree.calls_in(f, nested=False)):
            cands.append(f)
    if len(cands) != 1:
        raise AnalysisError(f"{ANGLES}: expected one self-recursive function that descends the decay tree, found {[c.qual for c in cands]} "
                            "(a recursion rewritten as a loop over an explicit stack cannot be decided by these rules)")
    tree.__dict__["_c04_worker"] = cands[0]
    return cands[0]


def _nested_in(f: FuncInfo, top: FuncInfo) -> bool:
    o = f.outer
    while o is not None:
        if o is top:
            return True
        o = o.outer
    return False


def stable_qual(tree: Tree, fn: FuncInfo) -> str:
    """Qualified name for violation keys: the recursion of compute_helicity_angles keeps its historical name whatever
    the nested function is called today (its name is a local name of compute_helicity_angles)."""
    if fn.qual.startswith("ampform.kinematics.angles::"):
        try:
            if recursion_worker(tree) is fn:
                return WORKER_ROLE
        except AnalysisError:
            pass
    return fn.qual


def _key_statement(store) -> str:
    """The store as ``_0[_1] = F(_2, ...)`` - independent of how the entry is written (subscript assignment, dict
    display, update, setdefault), of the names of locals and of how much of the value is spelled inline."""
    from ..canon import canon
    from ..prov import canon_scope

    names = canon_scope(store.stmt) | {"__acc__", "__key__"}
    mapping: dict[str, str] = {}
    acc = store.target if isinstance(store.target, ast.Name) else ast.Name(id="__acc__", ctx=ast.Load())
    key = store.key_expr if isinstance(store.key_expr, ast.Name) else ast.Name(id="__key__", ctx=ast.Load())
    names |= {acc.id, key.id}  # (a parameter of a helper / an accumulator parameter is a local name like any other)
    value = store.value_expr
    if isinstance(value, ast.Name):
        names.add(value.id)
    if isinstance(value, ast.Call) and not any(isinstance(a, ast.Starred) for a in value.args):
        fresh = iter(f"__v{i}__" for i in range(100))
        def simple(a):
            if isinstance(a, ast.Name):
                names.add(a.id)
                return a
            n = next(fresh)
            names.add(n)
            return ast.Name(id=n, ctx=ast.Load())
        value = ast.Call(func=value.func, args=[simple(a) for a in value.args], keywords=[ast.keyword(arg=k.arg, value=simple(k.value)) for k in value.keywords])
    stmt = ast.Assign(targets=[ast.Subscript(value=acc, slice=key, ctx=ast.Store())], value=value, lineno=0)
    if isinstance(store.stmt, ast.DictComp):
        return canon(store.stmt)
    return canon(stmt, names, mapping)


def prov_key(store, tree: Tree | None = None) -> str:
    """Key of an R-PROV violation: function + store statement + missing definitions, with
    the names of local variables canonicalised (alpha-renaming does not change the key)."""
    missing = sorted(describe(d, canonical=True, tree=tree, fn=store.origin or store.fn) for d in store.missing)
    qual = store.fn.qual
    if tree is not None:
        qual = stable_qual(tree, store.fn)
        if store.origin is not None and stable_qual(tree, store.origin) == WORKER_ROLE:
            qual = WORKER_ROLE  # a store of the recursion, wherever the recursion lives and whoever calls it
    return f"{qual}::{_key_statement(store)}::missing[{'; '.join(missing)}]"


def check_prov(ctx: Check, tree: Tree, producers: list[str], min_stores: int) -> int:
    from ..prov import stores_through_helpers

    n = 0
    cache: dict = {}
    skip = frozenset(producers)
    for q in producers:
        fn = tree.func(q)
        fns = [fn] + [f for f in tree.funcs.values() if _nested_in(f, fn)]
        for f in fns:
            for store in stores_through_helpers(tree, f, cache, skip=skip):
                n += 1
                key_defs = sorted(describe(d) for d in store.identity_defs)
                val_defs = sorted(describe(d) for d in store.value_closure if d.name in {x.name for x in store.identity_defs})
                where = tree.loc(store.stmt)
                origin = store.origin or f
                what = f"{stable_qual(tree, origin)}: `{unparse(store.stmt)[:120]}` - key named by {unparse(store.naming_call)[:60]}"
                if store.missing:
                    ctx.violation(
                        "R-PROV",
                        prov_key(store, tree),
                        where,
                        what + ": the variable is named after one state but filled with the momentum of another",
                        {
                            "identity_defs_at_key": key_defs,
                            "identity_defs_reaching_value": val_defs,
                            "not_reaching_value": sorted(describe(d) for d in store.missing),
                            "consequence": "for a decaying child that is the opposite-helicity state the angle symbol of the sibling is filled with the child's own momentum: "
                            "multi-topology intensities are not rotation invariant and one name denotes different quantities in isomorphic topologies",
                        },
                    )
                else:
                    ctx.ok("R-PROV", where, what, {"identity_defs": key_defs})
    if n < min_stores:
        raise AnalysisError(f"only {n} named kinematic-variable stores found (confirmed {min_stores})")
    return n



# ---------------------------------------------------------------------------------------------
# the recursion of compute_helicity_angles as VALUES (sa/symex.py)

WORKER_ATOMS = frozenset({"determine_attached_final_state", "get_sibling_state_id", "is_opposite_helicity_state", "get_helicity_angle_symbols",
                          "get_boost_chain_suffix", "three_momentum_norm", "_get_number_of_events"})


def closure_symbols(tree: Tree, fn: FuncInfo) -> dict | None:
    """For the symbolic execution of a nested function on its own: every variable of the enclosing functions is the
    opaque value ("sym", name), functions nested in them are themselves."""
    if fn.outer is None:
        return None
    closure: dict = {}
    o = fn.outer
    while o is not None:
        for n in walk_function(o.node, nested=False):
            if isinstance(n, ast.Name) and isinstance(n.ctx, ast.Store):
                closure.setdefault(n.id, ("sym", n.id))
        for p_ in o.params:
            closure.setdefault(p_, ("sym", p_))
        for f in tree.funcs.values():
            if f.outer is o:
                closure[f.name] = ("localfunc", f.qual)
        o = o.outer
    return closure


def run_recording(tree: Tree, fn: FuncInfo, atoms=frozenset()):
    """(executor, value, final state) of ``fn`` run by a SymEx that additionally RECORDS
    ``recorded`` - every entry written into a mapping with the complete path condition at that point, however the
                   executor models the mapping itself: (pc, mapping value | None, key, value, ast node) for subscript
                   stores, ``setdefault`` / ``__setitem__``, the ``k: v`` pairs of dict displays and the entries of dict
                   comprehensions (their ``foreach`` / ``when`` wrappers are kept on the key/value pair),
    ``exits``    - (continue | break | return, pc, node): where an iteration / the activation ends early,
    and that treats private module-level helpers of the kinematics package as part of the function (they are inlined
    wherever they live).  A nested function is run with the variables of its definers as opaque ("sym", name)."""
    from ..symex import SymEx

    class _SX(SymEx):
        recorded: list = []
        exits: list = []

        def _may_inline(self, callee, caller, *a, **k):
            if (callee.name.startswith("_") and not callee.name.endswith("__") and callee.qual.startswith("ampform.kinematics") and callee.cls is None
                    and callee.outer is None and callee.name not in self.atoms and callee.qual not in self.atoms and len(self._stack) <= self.inline_depth
                    and not any(fr.fn is callee for fr in self._stack) and callee is not fn):
                return True
            return super()._may_inline(callee, caller, *a, **k)

        def _assign(self, target, v, st):
            if isinstance(target, ast.Subscript):
                self.recorded.append((st.pc, self.ev(target.value, st), self.ev(target.slice, st), v, target))
            return super()._assign(target, v, st)

        def _ev_Dict(self, node, st):
            out = super()._ev_Dict(node, st)
            if out[0] == "dict":
                for k, v in out[1]:
                    if not (isinstance(k, tuple) and k and k[0] == "star"):
                        self.recorded.append((st.pc, None, k, v, node))
            return out

        def _ev_DictComp(self, node, st):
            out = super()._ev_DictComp(node, st)
            if out[0] == "dict":
                for k, v in out[1]:
                    self.recorded.append((st.pc, None, k, v, node))
            elif out[0] == "dictcomp":
                for item in out[1]:
                    self.recorded.append((st.pc, None, ("entry-key", item), ("entry-value", item), node))
            return out

        def _stmt(self, node, st):
            if isinstance(node, (ast.Continue, ast.Break, ast.Return)):
                self.exits.append((type(node).__name__.lower(), st.pc, node))
            return super()._stmt(node, st)

        def _ev_Call(self, node, st):
            f = node.func
            if isinstance(f, ast.Attribute) and f.attr in {"setdefault", "__setitem__"} and len(node.args) == 2 and not node.keywords:
                self.recorded.append((st.pc, self.ev(f.value, st), self.ev(node.args[0], st), self.ev(node.args[1], st), node))
            is_update = isinstance(f, ast.Attribute) and f.attr == "update"
            is_dict = isinstance(f, ast.Name) and f.id in {"dict", "OrderedDict"}
            if (is_update or is_dict) and len(node.args) == 1 and isinstance(node.args[0], ast.Call) and isinstance(node.args[0].func, ast.Name) \
                    and node.args[0].func.id == "zip" and len(node.args[0].args) == 2 and not node.args[0].keywords:
                keys, vals = (self.ev(a, st) for a in node.args[0].args)
                vs = self._plain(vals)
                ks = self._plain(keys)
                if vs is not None:  # zip stops at the shorter one: the values are known one by one
                    base = self.ev(f.value, st) if is_update else None
                    for i, v in enumerate(vs):
                        if ks is None or i < len(ks):
                            self.recorded.append((st.pc, base, ks[i] if ks is not None else self._item(keys, i), v, node))
            if (is_update or is_dict) and len(node.args) == 1 and isinstance(node.args[0], (ast.GeneratorExp, ast.ListComp)) \
                    and isinstance(node.args[0].elt, ast.Tuple) and len(node.args[0].elt.elts) == 2:
                pairs = self.ev(node.args[0], st)  # [(k, v) for ...] handed to dict() / update(): the comprehension form of the stores
                if pairs[0] == "list":
                    for item in pairs[1]:
                        self.recorded.append((st.pc, None, ("entry-key", item), ("entry-value", item), node))
            return super()._ev_Call(node, st)

    sx = _SX(tree, atoms=set(atoms))
    sx.recorded = []
    sx.exits = []
    try:
        value, state = sx.run(fn, closure=closure_symbols(tree, fn))
    except AnalysisError:
        raise
    except Exception as exc:  # noqa: BLE001 - an executor failure is "cannot decide", never a verdict
        raise AnalysisError(f"{fn.qual}: symbolic execution failed ({exc!r})") from exc
    return sx, value, state


def entries_of(sx) -> list[tuple]:
    """The recorded entries with comprehension items opened: (path condition, key, value, generic elements, node).
    The conditions of a comprehension (``if`` clauses) are appended to the path condition; ``generic elements`` are the
    ("each", iterable, n) values the key / value range over."""
    from ..symex import strip_when

    out = []
    for pc, _base, k, v, node in sx.recorded:
        if isinstance(k, tuple) and k and k[0] == "entry-key":
            item, eaches, conds = k[1], [], ()
            while item[0] in {"foreach", "when"}:
                if item[0] == "foreach":
                    eaches.append(item[1])
                    item = item[2]
                else:
                    conds += tuple(item[1])
                    item = item[2]
            if item[0] != "tuple" or len(item[1]) != 2:
                raise AnalysisError(f"entry `{_show(item)}` of a dict comprehension is not a key/value pair")
            out.append((tuple(pc) + conds, item[1][0], item[1][1], eaches, node))
        else:
            conds, plain = strip_when(v)
            out.append((tuple(pc) + tuple(conds), k, plain, [], node))
    return out


def worker_model(tree: Tree) -> dict:
    """One activation of the recursion of compute_helicity_angles, executed symbolically (once per tree):
    ``calls``  - the recursive calls: (path condition, {parameter: argument value}, call value, ast node)
    ``stores`` - the entries written into mappings (``entries_of``): (path condition, key, value, generic elements, node)
    ``pool`` / ``node`` - the parameters that carry the momentum pool and the decay node (found by their use)
    Variables of the enclosing function are the opaque values ("sym", name): whatever is reached through them
    outlives the activation."""
    from ..symex import subterms

    cached = tree.__dict__.get("_c04_worker_model")
    if cached is not None:
        return cached
    fn = recursion_worker(tree)

    sx, value, state = run_recording(tree, fn, WORKER_ATOMS)
    closure = closure_symbols(tree, fn)
    params = list(fn.params)
    calls = []
    for ev in sx.events:
        if ev[0] not in {"localcall", "call"}:
            continue
        for v in subterms(ev[2]):
            if v[0] == "call" and v[1][0] in {"localfunc", "global"} and v[1][1] == fn.qual:
                if v[3] or len(v[2]) != len(params):
                    raise AnalysisError(f"{fn.qual}: the arguments of the recursive call `{_show(v)}` cannot be bound to the parameters")
                if not any(c[2] is v or c[2] == v and c[0] == ev[1] for c in calls):
                    calls.append((ev[1], dict(zip(params, v[2])), v, sx.origin.get(v)))
    model = {"fn": fn, "sx": sx, "value": value, "state": state, "calls": calls, "closure": set(closure or ())}
    model["stores"] = entries_of(sx)  # (path condition, key, value, generic elements, node)
    model["exits"] = list(sx.exits)  # (continue | break | return, path condition, node): where an iteration / the activation ends early
    everything = [value] + [c[2] for c in calls] + [x for st in model["stores"] for x in st[1:3] if isinstance(x, tuple)]
    node = {p_ for p_ in params for v in everything for t in subterms(v)
            if _method_call(t, "get_edge_ids_outgoing_from_node") is not None and _method_call(t, "get_edge_ids_outgoing_from_node")[1] == [("param", p_)]}
    pool = {p_ for p_ in params for v in everything for t in subterms(v)
            if (t[0] == "sub" and t[1] == ("param", p_)) or (_method_call(t, "items") is not None and _method_call(t, "items")[0] == ("param", p_))
            or (t[0] == "attr" and t[1] == ("param", p_) and t[2] == "__getitem__")}
    pool -= node
    if len(node) != 1 or len(pool) != 1:
        raise AnalysisError(f"{fn.qual}: cannot tell which parameters carry the decay node ({sorted(node)}) and the momentum pool ({sorted(pool)})")
    model["node"], model["pool"] = node.pop(), pool.pop()
    tree.__dict__["_c04_worker_model"] = model
    return model


def _matrix_arg(v, index: int, names: tuple[str, ...]):
    if len(v[2]) > index:
        return v[2][index]
    kw = dict(v[3])
    return next((kw[n] for n in names if n in kw), None)


def _negated(v):
    """x if ``v`` is -x (``-x``, ``-1 * x``, ``x * -1``), else None."""
    from ..symex import as_number

    if v[0] == "unop" and v[1] in {"-", "USub"}:
        return v[2]
    if v[0] in {"mul", "binop"}:
        fs = list(v[1]) if v[0] == "mul" else ([v[2], v[3]] if v[1] == "*" else [])
        if len(fs) == 2:
            for a, b in (fs, fs[::-1]):
                if as_number(a) == -1:
                    return b
    return None


def pooled_sum(v, pool):
    """S if ``v`` is ``ArraySum(<pool[i] for every i of S>)`` - comprehension, generator, ``map(pool.__getitem__, S)``,
    in a list / tuple / starred: the summed momentum of the states S.  None if ``v`` is not such a sum."""
    if not _is_call(v, "ArraySum") or v[3]:
        return None
    args = list(v[2])
    items = []
    for a in args:
        if a[0] == "star" and a[1][0] in {"list", "tuple", "set"}:
            items += list(a[1][1])
        elif a[0] == "star" and len(args) == 1 and _method_call(_same_elements(a[1]), "values") is not None and _method_call(_same_elements(a[1]), "values")[0] == pool:
            return ("call", ("attr", pool, "keys"), (), ())  # every momentum of the pool
        elif a[0] == "star":
            return None
        else:
            items.append(a)
    if len(items) == 1 and items[0][0] == "foreach":
        each, elt = items[0][1], items[0][2]
        if elt == ("sub", pool, each) or (elt[0] == "call" and elt[1] in {("attr", pool, "__getitem__"), ("attr", pool, "get")} and list(elt[2]) == [each] and not elt[3]):
            return each[1]
    return None


def read_frame(tree: Tree, model: dict, call: tuple) -> tuple[list[str], list[str], list[str]]:
    """(problems of the frame chain, problems of the descent, foreign sources of the pool) for one recursive call.
    The pool argument must be, in every alternative, a mapping built in this activation from the handed-in pool:
    key -> ArrayMultiplication(BoostZMatrix(|P|/E(P)), RotationYMatrix(-Theta(P)), RotationZMatrix(-Phi(P)), pool[key])
    with P the summed momentum of the final states attached to the child c whose decay node is the node argument."""
    from ..symex import cases, strip_when, subterms

    fn = model["fn"]
    pool = ("param", model["pool"])
    pc, bound, callv, _node = call
    chain_problems: list[str] = []
    descent: list[str] = []
    foreign: list[str] = []
    node_arg = bound[model["node"]]
    ea = _edge_attr(node_arg)
    if ea is None:
        raise Unreadable(f"{fn.qual}: the recursion continues at `{_show(node_arg)}`, which is not a node of an edge of the topology")
    topo, child, attr = ea
    if attr != "ending_node_id":
        descent.append(f"the recursion continues at the `{attr}` of the child, not at its ending node")
    for alt_pc, arg in cases(bound[model["pool"]]):
        carried = [t for t in subterms(arg) if t[0] in {"carried", "carried-out"}]
        if arg == pool:
            descent.append("the recursion receives the handed-in pool itself, not the momenta boosted into the child's frame")
            continue
        if arg[0] == "sub" or (arg[0] == "call" and arg[1][0] == "attr" and arg[1][2] in {"get", "pop", "setdefault"}):
            base = arg[1] if arg[0] == "sub" else arg[1][1]
            roots = [t for t in subterms(base) if t[0] in {"sym", "global"} or (t[0] == "param" and t != pool)
                     or (t[0] in {"carried", "carried-out"} and (t[1] in model["closure"] or (t[1] in fn.params and t[1] != model["pool"])))]
            if roots and not _is_dict_made_here(base):
                foreign.append(f"`{_show(arg)}` (read back from a container that outlives the activation)")
                continue
            raise Unreadable(f"{fn.qual}: the pool handed to the recursion is `{_show(arg)}`: cannot tell where that container comes from")
        if arg[0] in {"sym", "global"} or (arg[0] == "param" and arg != pool):
            foreign.append(f"`{_show(arg)}` (not built in this activation)")
            continue
        if arg[0] not in {"dictcomp", "dict"}:
            raise Unreadable(f"{fn.qual}: the pool handed to the recursion is `{_show(arg)}`, not a mapping built from the handed-in pool")
        entries = arg[1] if arg[0] == "dictcomp" else ()
        if len(entries) != 1 or entries[0][0] != "foreach":
            raise Unreadable(f"{fn.qual}: the boosted pool `{_show(arg)}` is not one comprehension over the handed-in pool")
        each, item = entries[0][1], entries[0][2]
        filters, kv = strip_when(item)
        if kv[0] != "tuple" or len(kv[1]) != 2:
            raise Unreadable(f"{fn.qual}: entry `{_show(kv)}` of the boosted pool")
        key, val = kv[1]
        src = each[1]
        attached_c = None
        inner_filters = _pool_items(src, pool)
        if inner_filters is not None:
            want_key, momentum = ("item", each, 0), ("item", each, 1)
        elif src == pool or (_method_call(src, "keys") is not None and _method_call(src, "keys")[0] == pool):
            want_key, momentum = each, ("sub", pool, each)
        elif _is_call(_same_elements(src), ATTACHED):
            want_key, momentum = each, ("sub", pool, each)
            attached_c = _same_elements(src)
        elif _pairs_of(src, pool) is not None:  # ((i, pool[i]) for i in S)
            want_key, momentum = ("item", each, 0), ("item", each, 1)
            attached_c = _same_elements(_pairs_of(src, pool))
            if not _is_call(attached_c, ATTACHED):
                raise Unreadable(f"{fn.qual}: the boosted pool is built from the momenta of `{_show(attached_c)}`")
        else:
            if carried or any(t[0] in {"carried", "carried-out"} for t in subterms(src)):
                raise Unreadable(f"{fn.qual}: the boosted pool is built from `{_show(src)}`, a value carried around the loop over the children (see R-POOL)")
            raise Unreadable(f"{fn.qual}: the boosted pool iterates `{_show(src)}`, not the handed-in pool")
        if key != want_key:
            chain_problems.append(f"the boosted momentum is stored under `{_show(key)}`, not under the id of the momentum that was transformed")
        if not _is_call(val, "ArrayMultiplication") or val[3]:
            raise Unreadable(f"{fn.qual}: the boosted momentum is `{_show(val)}`, not an ArrayMultiplication(...)")
        chain = []
        for a in val[2]:
            if a[0] == "star" and a[1][0] in {"tuple", "list"} and not any(x[0] in {"star", "foreach"} for x in a[1][1]):
                chain += list(a[1][1])
            else:
                chain.append(a)
        plain_chain = []
        for c_ in chain:  # a matrix appended to a list under the conditions the recursive call itself stands under
            conds, item = strip_when(c_)
            if any(c not in pc for c in conds):
                raise Unreadable(f"{fn.qual}: the chain element `{_show(item)}` is present only under `{_show(conds[0][0])}`")
            plain_chain.append(item)
        chain = plain_chain
        if any(t[0] in {"carried", "carried-out"} for c_ in chain for t in subterms(c_)):
            chain_problems.append("the frame depends on a value carried over from the iteration for a sibling (the frame of a child is a function of the pool and that child only)")
            continue
        if any(c_[0] == "star" for c_ in chain):
            raise Unreadable(f"{fn.qual}: the chain `{_show(val)}` contains a splatted value of unknown length")
        if not chain or chain[-1] != momentum:
            chain_problems.append(f"the transformed object `{_show(chain[-1]) if chain else None}` is not the pooled momentum `{_show(momentum)}`")
            mats = chain[:-1] if chain else []
        else:
            mats = chain[:-1]
        names = []
        for m in mats:
            if not (m[0] == "call" and m[1][0] == "global" and m[1][1].split("::")[-1].endswith("Matrix")):
                raise Unreadable(f"{fn.qual}: `{_show(m)}` in the chain is not a boost / rotation matrix")
            names.append(m[1][1].split("::")[-1])
        if names != ["BoostZMatrix", "RotationYMatrix", "RotationZMatrix"]:
            chain_problems.append(f"chain is {names}, not [BoostZMatrix, RotationYMatrix, RotationZMatrix] applied to the momentum")
            continue
        bz, ry, rz = mats
        P = None
        for mat, cls_name, label in ((ry, "Theta", "theta"), (rz, "Phi", "phi")):
            a = _matrix_arg(mat, 0, ("angle",))
            if a is None:
                raise Unreadable(f"{fn.qual}: no angle argument in `{_show(mat)}`")
            inner = _negated(a)
            ang = inner if inner is not None else a
            if not (_is_call(ang, cls_name) and len(ang[2]) == 1):
                other = "Phi" if cls_name == "Theta" else "Theta"
                if _is_call(ang, other):
                    chain_problems.append(f"{mat[1][1].split('::')[-1]} takes {other}, not {cls_name}")
                    continue
                raise Unreadable(f"{fn.qual}: the angle `{_show(a)}` of {mat[1][1].split('::')[-1]} is not ±{cls_name}(P)")
            if inner is None:
                chain_problems.append(f"{mat[1][1].split('::')[-1]} takes +{cls_name}(P), not -{cls_name}(P)")
            this = ang[2][0]
            P = P if P is not None else this
            if this != P:
                chain_problems.append(f"{label} is computed from a different momentum than the other angle")
        b = _matrix_arg(bz, 0, ("beta",))
        if b is None:
            raise Unreadable(f"{fn.qual}: no beta argument in `{_show(bz)}`")
        if not (b[0] == "binop" and b[1] == "/"):
            if _negated(b) is not None and _negated(b)[0] == "binop":
                chain_problems.append("beta = -(|p|/E): the boost runs against the frame direction")
                b = _negated(b)
            else:
                raise Unreadable(f"{fn.qual}: beta = `{_show(b)}` is not a quotient")
        num, den = b[2], b[3]

        def norm_of(x):
            if _is_call(x, "three_momentum_norm") and len(x[2]) == 1:
                return x[2][0]
            if _is_call(x, "EuclideanNorm") and len(x[2]) == 1 and _is_call(x[2][0], "ThreeMomentum") and len(x[2][0][2]) == 1:
                return x[2][0][2][0]
            return None

        def energy_of(x):
            return x[2][0] if _is_call(x, "Energy") and len(x[2]) == 1 else None

        if norm_of(num) is not None and energy_of(den) is not None:
            pn, pe = norm_of(num), energy_of(den)
        elif energy_of(num) is not None and norm_of(den) is not None:
            chain_problems.append("beta = E/|p| is not |p|/E")
            pn, pe = norm_of(den), energy_of(num)
        else:
            raise Unreadable(f"{fn.qual}: beta = `{_show(b)}` is not built from three_momentum_norm(P) and Energy(P)")
        if P is not None and (pn != P or pe != P):
            chain_problems.append("beta is not computed from the same summed momentum as the angles")
        if P is not None:
            S = pooled_sum(P, pool)
            if S is None:
                if any(t == ("sub", pool, t[2]) for t in subterms(P) if t[0] == "sub") and not _is_call(P, "ArraySum"):
                    chain_problems.append(f"the frame momentum `{_show(P)}` is not the sum over the final states attached to the decaying child")
                elif _is_call(P, "ArraySum") and all(a_[0] == "sub" and a_[1] == pool for a_ in P[2]) and not P[3]:
                    chain_problems.append(f"the frame momentum `{_show(P)}` sums individually picked momenta, not those of the child's final states")
                else:
                    raise Unreadable(f"{fn.qual}: the frame momentum `{_show(P)}` is not an ArraySum over pooled momenta")
            else:
                S = _same_elements(S)
                if not _is_call(S, ATTACHED):
                    chain_problems.append(f"the frame momentum sums the momenta of `{_show(S)}`, not of the final states attached to the decaying child")
                else:
                    t_, c_ = _pos_args(S, ("topology", "state_id"))[:2]
                    if c_ != child or t_ != topo:
                        chain_problems.append(f"the frame momentum is the sum for `{_show(c_)}`, but the recursion continues at the decay node of `{_show(child)}`")
        # a filter may only restrict the pool to the child's own final states
        for t, outcome, fkey in [(t, o, want_key) for t, o in filters] + list(inner_filters or []):
            if t[0] == "cmp" and t[1] == "in" and t[2] == fkey and outcome and _is_call(_same_elements(t[3]), ATTACHED) \
                    and _pos_args(_same_elements(t[3]), ("topology", "state_id"))[:2] == [topo, child]:
                continue
            if t[0] == "cmp" and t[1] == "in" and t[2] == fkey:
                chain_problems.append(f"the boosted pool is filtered by `{_show(t)}` is {outcome}, which is not membership in the sub-system's final states")
                continue
            raise Unreadable(f"{fn.qual}: the boosted pool is filtered by `{_show(t)}`")
        if attached_c is not None and _pos_args(attached_c, ("topology", "state_id"))[:2] != [topo, child]:
            chain_problems.append(f"the boosted pool holds the momenta of `{_show(attached_c)}`, not of the child's final states")
    return chain_problems, descent, foreign


def _pairs_of(src, pool):
    """S if ``src`` yields the pairs ``(i, pool[i])`` for every i of S (a comprehension / generator / zip-free spelling)."""
    src = _same_elements(src)
    if src[0] in {"list", "tuple", "set"} and len(src[1]) == 1 and src[1][0][0] == "foreach":
        e2, item = src[1][0][1], src[1][0][2]
        if item == ("tuple", (e2, ("sub", pool, e2))):
            return e2[1]
    return None


def _pool_items(src, pool):
    """[] / [(filter test, outcome, key term), ...] if ``src`` is ``<the handed-in pool, possibly copied or filtered by dict
    comprehensions that keep key and value>.items()``; None otherwise."""
    from ..symex import strip_when

    m = _method_call(src, "items")
    if m is None or m[1]:
        return None
    x = m[0]
    while True:
        if x[0] == "call" and x[1] in {("builtin", "dict")} and len(x[2]) == 1 and not x[3]:
            x = x[2][0]
        elif _method_call(x, "copy") is not None and not _method_call(x, "copy")[1]:
            x = _method_call(x, "copy")[0]
        else:
            break
    if x == pool:
        return []
    if x[0] == "dictcomp" and len(x[1]) == 1 and x[1][0][0] == "foreach":
        e2, item = x[1][0][1], x[1][0][2]
        filters, kv = strip_when(item)
        if kv == ("tuple", (("item", e2, 0), ("item", e2, 1))):
            inner = _pool_items(e2[1], pool)
            if inner is not None:
                return inner + [(t, o, ("item", e2, 0)) for t, o in filters]
    return None


def _is_dict_made_here(v) -> bool:
    return isinstance(v, tuple) and v and v[0] in {"dict", "dictcomp"}


def check_frame(ctx: Check, tree: Tree) -> None:
    """R-FRAME on the symbolic model of the recursion: temporaries, extracted helpers, a tuple of matrices that is
    splatted, keyword arguments, a pool that is filtered or not - all give the same value."""
    model = worker_model(tree)
    fn = model["fn"]
    qual = stable_qual(tree, fn)
    if not model["calls"]:
        raise AnalysisError(f"{fn.qual}: no recursive call found by the symbolic execution")
    chain: list[str] = []
    descent: list[str] = []
    foreign: list[str] = []
    try:
        for call in model["calls"]:
            c, d, f = read_frame(tree, model, call)
            chain += c
            descent += d
            foreign += f
    except Unreadable as exc:
        raise AnalysisError(f"R-FRAME cannot decide - {exc}") from exc
    where = tree.loc(model["calls"][0][3]) if model["calls"][0][3] is not None and hasattr(model["calls"][0][3], "lineno") else tree.loc(fn.node)
    ctx.verdict(not chain, "R-FRAME", f"{qual}::frame-chain", where,
                "helicity frame = BoostZ(|P|/E) · RotationY(-Theta(P)) · RotationZ(-Phi(P)) applied to the sub-system's momenta, P = summed momentum of the decaying child",
                sorted(set(chain)) or None)
    ok = not descent and not foreign
    ctx.verdict(not descent, "R-FRAME", f"{qual}::recursion", where,
                "the recursion descends into the child's decay node with the boosted momentum pool", sorted(set(descent)) or None)
    ctx.verdict(not foreign, "R-FRAME", f"{qual}::recursion-own-pool", where,
                "the pool handed to the recursion is the one boosted in this activation (from this activation's pool), on every path",
                None if not foreign else f"the pool may also be {foreign[0]}: a frame reached through a different chain of parent frames differs by a Wigner rotation")



FROM_TRANSITION_Q = "ampform.helicity.decay::TwoBodyDecay.from_transition"


def naming_requests(tree: Tree, fn: FuncInfo) -> dict[int, list]:
    """id(call node) -> [(path condition, value of the state argument)] for every call of get_helicity_angle_symbols that
    the symbolic execution of ``fn`` reaches (through temporaries, unpacking, helpers, keyword or positional)."""
    from ..symex import SymEx

    cache = tree.__dict__.setdefault("_c04_requests", {})
    if fn.qual in cache:
        return cache[fn.qual]
    seen: dict[int, list] = {}

    class _SX(SymEx):
        def _ev_Call(self, node, st):
            v = super()._ev_Call(node, st)
            if isinstance(v, tuple) and _is_call(v, NAMING):
                try:
                    args = _pos_args(v, ("topology", "state_id"))
                except Unreadable:
                    args = []
                seen.setdefault(id(node), []).append((st.pc, args[0] if args else None, args[1] if len(args) > 1 else None))
            return v

    sx = _SX(tree, atoms={NAMING, OPPOSITE, SIBLING, ATTACHED, FROM_TRANSITION_Q, "TwoBodyDecay.from_transition", "get_parent_id", "get_helicity_suffix",
                          "formulate_helicity_rotation", "get_boost_chain_suffix"})
    try:
        sx.run(fn, closure=closure_symbols(tree, fn))
    except AnalysisError:
        raise
    except Exception as exc:  # noqa: BLE001
        raise AnalysisError(f"{fn.qual}: symbolic execution failed ({exc!r})") from exc
    cache[fn.qual] = seen
    return seen


def requests_at(tree: Tree, fn: FuncInfo, call: ast.Call, _depth: int = 0) -> list:
    """The requests recorded for one call site.  If the site lies in a private helper and the requested state is just a
    parameter of that helper, the site is judged where the helper is called (the executor inlines the helper there, so
    the same call node is reached with the caller's values and path conditions)."""
    from ..symex import subterms

    own = naming_requests(tree, fn).get(id(call)) or []
    params = {("param", p_) for p_ in fn.params}
    private = fn.outer is not None or (fn.name.startswith("_") and not (fn.name.startswith("__") and fn.name.endswith("__")))
    if not private and _method_of_private_class(tree, fn):
        # a constructor / method of a module-private class (``_EulerAngles.of_helicity_rotation(topology, state_id)``) is a
        # private helper as well - provided every mention of the method's name in the library is a call that is resolved to it
        private = True
    if not private or _depth >= 2 or not any(st is not None and any(t in params for t in subterms(st)) for _, _, st in own):
        return own
    callers = [g for g in tree.funcs.values() if g is not fn and g.qual.startswith("ampform.") and any(q == fn.qual for _, q in tree.calls_in(g, nested=False))]
    lifted: list = []
    for g in callers:
        got = naming_requests(tree, g).get(id(call))
        if got:
            lifted += got
        else:
            return own  # a caller in which the helper is not followed: judge the helper on its own
    return lifted or own


def _method_of_private_class(tree: Tree, fn: FuncInfo) -> bool:
    """True if ``fn`` is a method of a class with a private name and all uses of the method's name (``<x>.name``) in the
    library are calls resolved to this method; AnalysisError if some use cannot be attributed (it may be a caller these
    rules do not see)."""
    if fn.cls is None or fn.outer is not None or (fn.name.startswith("__") and fn.name.endswith("__")):
        return False
    cls_name = fn.cls.qual.split("::")[-1].split(".")[-1]
    if not cls_name.startswith("_") or (cls_name.startswith("__") and cls_name.endswith("__")):
        return False
    resolved = {id(c.func) for g in tree.funcs.values() if g.qual.startswith("ampform") for c, q in tree.calls_in(g, nested=False) if q == fn.qual}
    for m in tree.modules.values():
        if not m.name.startswith("ampform"):
            continue
        for node in ast.walk(m.tree):
            if isinstance(node, ast.Attribute) and node.attr == fn.name and id(node) not in resolved:
                raise AnalysisError(f"{fn.qual}: `{unparse(node)}` (line {node.lineno} of {m.relpath}) may be a use of this method of a private class "
                                    "that is not resolved: cannot decide for which states it requests the angles")
            if isinstance(node, ast.Constant) and node.value == fn.name:
                raise AnalysisError(f"{fn.qual}: the method's name appears as a string (line {node.lineno} of {m.relpath}): it may be looked up by name")
    return True


def _child_of_decay(x):
    """k if ``x`` is ``<TwoBodyDecay>.children[k].id`` (indexing or unpacking of the children pair)."""
    if x[0] == "attr" and x[2] == "id" and x[1][0] in {"sub", "item"} and x[1][1][0] == "attr" and x[1][1][2] == "children":
        k = x[1][2]
        k = k[1] if isinstance(k, tuple) and k[0] == "const" else k
        if isinstance(k, int) and not isinstance(k, bool):
            return x[1][1][1], k
    return None


def normalised_request(tree: Tree, fn: FuncInfo, requests: list) -> tuple[str | None, list[str]]:
    """(how the requested state is normalised to the helicity state, problems).  In every case the state X that names the
    angles is children[0] of a TwoBodyDecay (normalised by from_transition), or is_opposite_helicity_state(X) was decided
    False on that path, or X is the sibling / the other child of a state Y for which it was decided True."""
    from ..symex import cases, not_followed

    hows: list[str] = []
    problems: list[str] = []
    for pc0, topo, state in requests:
        if state is None:
            raise AnalysisError(f"{fn.qual}: cannot read the state argument of a call of get_helicity_angle_symbols")
        for pc1, x in cases(state):
            x = _reduce_items(x)
            pc = tuple(pc0) + tuple(pc1)
            facts = {}
            for t, o in pc:
                y = _opposite_fact(t)
                if y is not None:
                    facts[_reduce_items(y)] = o
            ch = _child_of_decay(x)
            if ch is not None and not facts:
                if ch[1] in (0, -2):
                    hows.append("TwoBodyDecay.children[0] (normalised by from_transition)")
                else:
                    problems.append(f"the angles are requested for children[{ch[1]}] of the decay, the opposite-helicity state")
                continue
            if facts.get(x) is False:
                hows.append(f"`{_show(x)}` when it is not the opposite-helicity state")
                continue
            if facts.get(x) is True:
                problems.append(f"the angles are requested for `{_show(x)}` although it is the opposite-helicity state on this path")
                continue
            replaced = None
            for y, o in facts.items():
                if not o:
                    continue
                if _is_call(x, SIBLING) and _pos_args(x, ("topology", "state_id"))[1:2] == [y]:
                    replaced = y
                elif x[0] in {"sub", "item"} and y[0] in {"sub", "item"} and x[1] == y[1] and {_index(x), _index(y)} == {0, 1}:
                    replaced = y  # the other one of two children
                elif _child_of_decay(x) is not None and _child_of_decay(y) is not None and _child_of_decay(x)[0] == _child_of_decay(y)[0] \
                        and {_child_of_decay(x)[1], _child_of_decay(y)[1]} == {0, 1}:
                    replaced = y
            if replaced is not None:
                hows.append(f"`{_show(replaced)}` replaced by its sibling when it is the opposite-helicity state")
                continue
            why = not_followed(x, known=("get_sibling_state_id", "is_opposite_helicity_state", "determine_attached_final_state", "TwoBodyDecay.from_transition", "get_parent_id"))
            if why is not None:
                raise AnalysisError(f"{fn.qual}: the state `{_show(x)}` that names the angles depends on {why}")
            if any(o for o in facts.values()):
                problems.append(f"`{_show(x)}` is requested where another state is the opposite-helicity state, but it is not that state's sibling")
            else:
                problems.append(f"`{_show(x)}` is not normalised with is_opposite_helicity_state on this path")
    return (hows[0] if hows else None), problems


def _index(v):
    k = v[2]
    return k[1] if isinstance(k, tuple) and k[0] == "const" else k


def _reduce_items(v):
    """``item((a, b), 0)`` / ``(a, b)[0]`` -> ``a`` (after conditional values were distributed by ``cases``)."""
    if not isinstance(v, tuple) or not v:
        return v
    v = tuple(_reduce_items(x) if isinstance(x, tuple) else x for x in v)
    if isinstance(v[0], str) and v[0] in {"item", "sub"} and len(v) == 3 and isinstance(v[1], tuple) and v[1] and v[1][0] in {"tuple", "list"}:
        k = v[2] if isinstance(v[2], int) else (v[2][1] if isinstance(v[2], tuple) and v[2][0] == "const" and isinstance(v[2][1], int) else None)
        items = v[1][1]
        if k is not None and -len(items) <= k < len(items) and not any(isinstance(x, tuple) and x and x[0] in {"foreach", "star", "when"} for x in items):
            return items[k]
    return v


def _opposite_fact(t, topo=None):
    """X if the atomic test ``t`` is ``is_opposite_helicity_state(topology, X)``."""
    if _is_call(t, OPPOSITE):
        args = _pos_args(t, ("topology", "state_id"))
        if len(args) >= 2 and (topo is None or args[0] == topo):
            return args[1]
    return None


def _sort_key_kind(sx, key) -> str:
    """What ``sorted(.., key=key)`` / ``min`` / ``max`` orders by: "opposite" (False before True: the helicity state first),
    "not-opposite", or "other:<text>" for a key that is followed completely but is a different criterion."""
    from ..symex import State, not_followed, subterms

    x = ("sym", "<element>")
    try:
        r = sx.apply(key, (x,), (), State([{}]))
    except AnalysisError:
        raise
    except Exception as exc:  # noqa: BLE001
        raise Unreadable(f"the sort key `{_show(key)}` cannot be applied symbolically ({exc!r})") from exc
    if r[0] == "tuple" and r[1]:
        r = r[1][0]  # lexicographic: the first component decides between two different states
    neg = False
    while r[0] == "not":
        r, neg = r[1], not neg
    if _opposite_fact(r) == x:
        return "not-opposite" if neg else "opposite"
    why = not_followed(r, known=("is_opposite_helicity_state",))
    if why is not None or any(_is_call(t, OPPOSITE) for t in subterms(r)):
        raise Unreadable(f"the sort key gives `{_show(r)}`: {why or 'a use of is_opposite_helicity_state these rules cannot interpret'}")
    return "other:" + _show(r)


def _ordered_pick(sx, v):
    """(collection, "first" | "second" | "min" | "max", key kind | None) if ``v`` picks an element of a collection by
    position / by an ordering: item(S, k), S[k], min(C, key=K), max(C, key=K) with S possibly sorted(C, key=K, reverse=R)."""
    from ..symex import is_const

    if v[0] in {"item", "sub"} and (v[2] in (0, 1) or (is_const(v[2], int) and v[2][1] in (0, 1, -1, -2))):
        k = v[2] if isinstance(v[2], int) else v[2][1]
        pos = "first" if k in (0, -2) else "second"
        seq = v[1]
        while seq[0] == "call" and seq[1][0] == "builtin" and seq[1][1] in {"list", "tuple", "iter"} and len(seq[2]) == 1 and not seq[3]:
            seq = seq[2][0]
        if seq[0] == "call" and seq[1] == ("builtin", "sorted") and len(seq[2]) == 1:
            kw = dict(seq[3])
            if set(kw) - {"key", "reverse"}:
                raise Unreadable(f"sorted with {sorted(kw)}")
            rev = kw.get("reverse", ("const", False))
            if not is_const(rev, bool):
                raise Unreadable(f"sorted(reverse={_show(rev)})")
            kind = _sort_key_kind(sx, kw["key"]) if "key" in kw and kw["key"] != ("const", None) else "other:the ids themselves"
            if rev[1]:
                pos = "second" if pos == "first" else "first"
            return _same_elements(seq[2][0]), pos, kind
        return _same_elements(seq), pos, None
    if v[0] == "call" and v[1][0] == "builtin" and v[1][1] in {"min", "max"} and len(v[2]) == 1:
        kw = dict(v[3])
        if set(kw) - {"key"}:
            raise Unreadable(f"{v[1][1]} with {sorted(kw)}")
        kind = _sort_key_kind(sx, kw["key"]) if "key" in kw else "other:the ids themselves"
        return _same_elements(v[2][0]), "first" if v[1][1] == "min" else "second", kind
    return None


def children_order(tree: Tree, ft: FuncInfo) -> tuple[list[str], list[str]]:
    """TwoBodyDecay.from_transition, evaluated symbolically: in every case the state handed to the constructor as
    children[0] is one for which `is_opposite_helicity_state` is False, or children[1] is one for which it is True
    (exactly one of two siblings is the opposite-helicity state, R-HELPERS).  The decision may be a swap under the
    test, a conditional expression, a helper, or an ordering of the two ids by the test (``sorted(ids, key=partial(
    is_opposite_helicity_state, topology))``, ``min`` / ``max`` with that key): False sorts before True."""
    from ..symex import cases, show_pc

    state_ctor = "ampform.helicity.decay::StateWithID.from_transition"
    sx, value = helper_value(tree, ft.qual, frozenset({OPPOSITE, state_ctor, "StateWithID.from_transition", SIBLING, ATTACHED}))
    problems: list[str] = []
    shown: list[str] = []
    alts = cases(value)
    if not alts:
        raise AnalysisError(f"{ft.qual}: no returned value")
    for pc, val in alts:
        val = _reduce_items(val)
        if val[0] != "call":
            raise AnalysisError(f"{ft.qual}: returns `{_show(val)}`, not a constructed TwoBodyDecay")
        kw = dict(val[3])
        children = kw.get("children", val[2][1] if len(val[2]) > 1 else None)
        if children is not None:
            inner = children
            while inner[0] == "call" and inner[1][0] == "builtin" and inner[1][1] in {"tuple", "list"} and len(inner[2]) == 1 and not inner[3]:
                inner = inner[2][0]
            if inner[0] in {"tuple", "list"} and len(inner[1]) == 1 and inner[1][0][0] == "foreach" and inner[1][0][2][0] != "when":
                # (f(i) for i in S): the children are the images of the elements of S, in the order of S (two of them)
                each, elt = inner[1][0][1], inner[1][0][2]
                from ..symex import subst

                inner = ("tuple", tuple(subst(elt, {each: ("item", each[1], k)}) for k in (0, 1)))
            children = inner
        if children is None or children[0] not in {"tuple", "list"} or len(children[1]) != 2:
            raise AnalysisError(f"{ft.qual}: cannot read the two children handed to the constructor from `{_show(val)}`")
        ids = []
        for e in children[1]:
            if not _is_call(e, state_ctor):
                raise AnalysisError(f"{ft.qual}: child `{_show(e)}` is not StateWithID.from_transition(transition, <id>)")
            args = _pos_args(e, ("transition", "state_id"))
            if len(args) < 2:
                raise AnalysisError(f"{ft.qual}: child `{_show(e)}` without a state id")
            ids.append(_reduce_items(args[1]))
        first, second = ids
        facts = {}
        for t, o in pc:
            x = _opposite_fact(t)
            if x is not None:
                facts[x] = o
        shown.append((show_pc(pc) if pc else "always") + f" -> children = ({_show(first)}, {_show(second)})")
        if first == second:
            problems.append(f"both children are `{_show(first)}`")
            continue
        if facts.get(first) is True:
            problems.append(f"children[0] = `{_show(first)}` although it is the opposite-helicity state in this case")
            continue
        if facts.get(second) is False:
            problems.append(f"children[1] = `{_show(second)}` although it is the helicity state in this case")
            continue
        if facts.get(first) is False or facts.get(second) is True:
            continue
        # no test on this path: the two ids may be ORDERED by the test
        try:
            p1, p2 = _ordered_pick(sx, first), _ordered_pick(sx, second)
        except Unreadable as exc:
            raise AnalysisError(f"{ft.qual}: cannot decide how the children are ordered - {exc}") from exc
        if p1 is None or p2 is None or p1[0] != p2[0]:
            raise AnalysisError(f"{ft.qual}: children = (`{_show(first)}`, `{_show(second)}`): cannot tell how these two states are chosen")
        kinds = {p1[2], p2[2]}
        if p1[1] == p2[1]:
            problems.append(f"both children are the {p1[1]} element of the same ordering")
        elif kinds == {None}:
            problems.append(f"children = (`{_show(first)}`, `{_show(second)}`): taken in the iteration order of `{_show(p1[0])}`, not ordered by is_opposite_helicity_state")
        elif len(kinds) != 1:
            raise AnalysisError(f"{ft.qual}: the two children are picked with different orderings ({kinds})")
        else:
            kind = kinds.pop()
            first_is_smallest = p1[1] in {"first", "min"}
            if kind.startswith("other:"):
                problems.append(f"the children are ordered by `{kind[6:]}`, not by is_opposite_helicity_state")
            elif (kind == "opposite") != first_is_smallest:
                problems.append("the children are ordered by is_opposite_helicity_state the wrong way round: children[0] is the opposite-helicity state")
    return problems, shown


def check_normalised(ctx: Check, tree: Tree) -> None:
    n = 0
    for q, fn in sorted(tree.funcs.items()):
        if not q.startswith("ampform"):
            continue
        for call, callee in tree.calls_in(fn, nested=False):
            if callee != NAMING:
                continue
            n += 1
            arg = call.args[1] if len(call.args) > 1 and not any(isinstance(a, ast.Starred) for a in call.args[:2]) else next((k.value for k in call.keywords if k.arg == "state_id"), None)
            requests = requests_at(tree, fn, call)
            if not requests:
                raise AnalysisError(f"{q}: the symbolic execution does not reach the call `{unparse(call)[:70]}` (line {call.lineno}): cannot decide for which state the angles are requested")
            how, problems = normalised_request(tree, fn, requests)
            ctx.verdict(not problems, "R-NORMALISED", f"{stable_qual(tree, fn)}::get_helicity_angle_symbols({unparse(arg) if arg is not None else ''})", tree.loc(call),
                        f"{q}: angle symbols are requested for the helicity state: {how or (unparse(arg) if arg is not None else '?')}",
                        None if not problems else {"problems": sorted(set(problems)),
                                                   "consequence": "the id is not normalised with is_opposite_helicity_state: producer and consumer may name the same angle after different children"})
    if n < 4:
        raise AnalysisError(f"only {n} call sites of get_helicity_angle_symbols (4 confirmed)")
    # TwoBodyDecay.from_transition orders the children so that children[0] is the helicity state
    ft = tree.func("ampform.helicity.decay::TwoBodyDecay.from_transition")
    problems, detail = children_order(tree, ft)
    ctx.verdict(not problems, "R-NORMALISED", f"{ft.qual}::swap", tree.loc(ft.node),
                "TwoBodyDecay.from_transition: if the first outgoing state is the opposite-helicity state the two are swapped, so children[0] is the helicity state",
                detail if not problems else {"problems": problems, "paths": detail})
    # sign of the helicity index in the aligned amplitude symbol
    gs = tree.func("ampform.helicity.align.axisangle::get_opposite_helicity_sign")
    problems, rows = read_opposite_sign(tree, gs)
    ctx.verdict(not problems, "R-NORMALISED", f"{gs.qual}::sign", tree.loc(gs.node), "get_opposite_helicity_sign: -1 exactly for the opposite-helicity state, +1 otherwise",
                rows if not problems else {"problems": problems, "table": rows})


def _bool_lookup_as_choice(v):
    """``{True: a, False: b}[test]`` and ``(b, a)[test]`` are conditional values: rewritten to the ("phi", ...) form."""
    from ..symex import normal

    if not isinstance(v, tuple) or not v:
        return v
    v = tuple(_bool_lookup_as_choice(x) if isinstance(x, tuple) else x for x in v)
    if isinstance(v[0], str) and v[0] == "sub" and len(v) == 3 and isinstance(v[1], tuple) and v[1] and isinstance(v[2], tuple) and v[2] and v[2][0] in {"call", "cmp", "not", "and", "or"}:
        table = None
        if v[1][0] == "dict" and {k for k, _ in v[1][1]} == {("const", True), ("const", False)}:
            table = {k[1]: x for k, x in v[1][1]}
        elif v[1][0] in {"tuple", "list"} and len(v[1][1]) == 2 and v[2][0] in {"cmp", "not", "and", "or"}:
            table = {False: v[1][1][0], True: v[1][1][1]}
        if table is not None:
            t, pos = normal(v[2])
            return ("phi", ((((t, pos),), table[True]), (((t, not pos),), table[False])))
    return v


def read_opposite_sign(tree: Tree, gs: FuncInfo) -> tuple[list[str], list[str]]:
    """The sign as a function of its atomic tests (sa/symex.decision_table: guard clauses, De Morgan and swapped
    returns give the same table): -1 only where is_opposite_helicity_state(topology, state) holds, +1 wherever it
    does not, and -1 for at least one case in which it holds."""
    from ..symex import as_number, decision_table

    if len(gs.params) < 2:
        raise AnalysisError(f"{gs.qual}: no (topology, state) parameters")
    topo, state = ("param", gs.params[0]), ("param", gs.params[1])
    _, value = helper_value(tree, gs.qual, frozenset({OPPOSITE}))
    value = _bool_lookup_as_choice(value)
    atoms, table = decision_table(value)
    opp = [i for i, a in enumerate(atoms) if _is_call(a, OPPOSITE)]
    if len(opp) != 1:
        raise AnalysisError(f"{gs.qual}: the sign depends on {len(opp)} calls of is_opposite_helicity_state (conditions: {[_show(a) for a in atoms]}); one expected")
    try:
        asked = _pos_args(atoms[opp[0]], ("topology", "state_id"))[:2]
    except Unreadable as exc:
        raise AnalysisError(f"{gs.qual}: {exc}") from exc
    problems: list[str] = []
    if asked != [topo, state]:
        problems.append(f"asks is_opposite_helicity_state({', '.join(_show(a) for a in asked)}), not of its own (topology, state)")
    rows = []
    minus_for_opposite = False
    for bits, v in sorted(table.items(), reverse=True):
        if v is None:
            continue  # this combination raises / cannot occur
        n = as_number(v) if not (isinstance(v, tuple) and v and v[0] == "ambiguous") else None
        if n not in (1, -1):
            raise AnalysisError(f"{gs.qual}: returns `{_show(v)}`, which is not the literal 1 or -1")
        row = ", ".join(f"{_show(a)}={b}" for a, b in zip(atoms, bits)) + f" -> {n:+d}"
        rows.append(row)
        if bits[opp[0]]:
            minus_for_opposite = minus_for_opposite or n == -1
        elif n != 1:
            problems.append(f"{row}: -1 for a state that is not the opposite-helicity state")
    if not minus_for_opposite:
        problems.append("never -1 for the opposite-helicity state")
    return problems, rows


def convention_evaluator(tree: Tree):
    """TermEval in which the decay of (transition, node_id) is the opaque object `decay`, and the naming
    functions return opaque applications of the (topology, state id) they are asked for - so that WHICH state
    a symbol is requested for can be read off the value, through any helper the request is routed through."""
    from ..poly import sym
    from ..terms import Opaque, TermEval, Tup, vkey
    from .c02 import FROM_TRANSITION

    te = TermEval(tree)
    transition, node_id = Opaque(("transition",)), sym("node_id")

    def decay(_te, args, kwargs):
        given = [*args, *[kwargs[k] for k in ("transition", "node_id") if k in kwargs]]
        if [vkey(a) for a in given] == [vkey(transition), vkey(node_id)]:
            return Opaque(("decay",))
        return Opaque(("decay-of", tuple(vkey(a) for a in given)))

    def named(kind_names):
        def f(_te, args, kwargs):
            topology = kwargs.get("topology", args[0] if args else None)
            state = kwargs.get("state_id", args[1] if len(args) > 1 else None)
            if topology is None or state is None:
                raise AnalysisError("naming function called without (topology, state_id)")
            vals = [_te.app(k, [topology, state]) for k in kind_names]
            return vals[0] if len(vals) == 1 else Tup(vals)
        return f

    te.fork = True  # every path is judged separately
    te.overrides[FROM_TRANSITION] = decay
    te.overrides[OPPOSITE] = named(["is-opposite"])
    te.overrides[NAMING] = named(["phi-of", "theta-of"])
    te.overrides["ampform.kinematics.lorentz::get_invariant_mass_symbol"] = named(["mass-of"])
    return te, transition, node_id


def check_convention(ctx: Check, tree: Tree) -> None:
    from ..poly import RF, D
    from ..terms import PW, Opaque, Tup
    from .c02 import _same, extract_apps

    D.reset()
    te, transition, node_id = convention_evaluator(tree)
    env = {"decay": Opaque(("decay",)), "transition": transition}
    helicity_state = te.ev(ast.parse("decay.children[0].id", mode="eval").body, env)
    topology = te.ev(ast.parse("transition.topology", mode="eval").body, env)
    phi, theta = te.app("phi-of", [topology, helicity_state]), te.app("theta-of", [topology, helicity_state])
    gk = tree.func("ampform.helicity::_generate_kinematic_variables")
    res = te.eval_function(gk, [transition, node_id])
    branches = res.branches if isinstance(res, PW) else [(res, None)]
    def triple(r):
        # read positionally: a tuple, or a NamedTuple record (te._sequence raises AnalysisError on anything else)
        return list(r.items) if isinstance(r, Tup) else te._sequence(r, f"{gk.qual}: returned value")

    triples = [triple(r) for r, _ in branches]
    if not all(len(t) == 3 for t in triples):
        raise AnalysisError(f"{gk.qual}: does not return a triple (mass, phi, theta): {repr(res)[:120]}")
    ok = all(_same(te, t[1], phi) and _same(te, t[2], theta) for t in triples)
    ctx.verdict(ok, "R-CONVENTION", f"{gk.qual}::angles-of-children0", tree.loc(gk.node),
                "_generate_kinematic_variables: (phi, theta) are the angle symbols of decay.children[0] (the helicity state)", None if ok else repr(res)[:200])
    fn = tree.func("ampform.helicity::formulate_isobar_wigner_d")
    # options: further parameters (with defaults) that some caller in the package binds to something else than the default -
    # the property quantifies over every builder configuration, so such a parameter is ANY value and every path is judged
    a = fn.node.args
    names = [x.arg for x in [*a.posonlyargs, *a.args]]
    defaults = dict(zip(reversed(names), reversed(a.defaults)))
    defaults.update({x.arg: d for x, d in zip(a.kwonlyargs, a.kw_defaults) if d is not None})
    open_options: dict = {}
    for mod in tree.modules.values():
        for n in ast.walk(mod.tree):
            if not (isinstance(n, ast.Call) and getattr(n, "_module", None) is not None and tree.callee(n, tree.func_of(n)) == fn.qual):
                continue
            given = {**{names[i]: x for i, x in enumerate(n.args) if i < len(names) and not isinstance(x, ast.Starred)}, **{k.arg: k.value for k in n.keywords if k.arg}}
            if any(isinstance(x, ast.Starred) for x in n.args) or any(k.arg is None for k in n.keywords):
                raise AnalysisError(f"{fn.qual}: a call site passes starred arguments: which options it sets cannot be read")
            for opt, value in given.items():
                if opt in names[:2]:
                    continue
                same_as_default = opt in defaults and isinstance(value, ast.Constant) and isinstance(defaults[opt], ast.Constant) and value.value == defaults[opt].value
                if not same_as_default:
                    open_options[opt] = Opaque(("option", opt))
    te.fork = bool(open_options) or te.fork
    val = te.eval_function(fn, [transition, node_id], dict(open_options))
    want = {"alpha": -phi, "beta": theta, "gamma": RF.const(0)}
    problems = []
    for branch in (val.branches if isinstance(val, PW) else [(val, None)]):
        apps = extract_apps(te, branch[0], "D")
        if len(apps) != 1:
            raise AnalysisError("formulate_isobar_wigner_d: expected one Wigner.D call")
        got = apps[0]
        unread = [k for k in want if got.get(k) is None]
        if unread:
            raise AnalysisError(f"formulate_isobar_wigner_d: cannot read the argument(s) {unread} of the Wigner D (got {sorted(got)})")
        problems += [f"{k} = {got.get(k)!r} is not {'-phi' if k == 'alpha' else 'theta' if k == 'beta' else '0'}" + (" of decay.children[0]" if k != "gamma" else "")
                     + (f" on the path {branch[1]!r:.90} (option {sorted(open_options)} set by a caller)" if open_options and branch[1] is not None else "")
                     for k, w in want.items() if not _same(te, got.get(k), w)]
    ctx.verdict(not problems, "R-CONVENTION", f"{fn.qual}::euler-angles", tree.loc(fn.node),
                "Wigner-D of a decay node takes (alpha, beta, gamma) = (-phi, theta, 0): the conjugate of the frame rotation R_y(-theta) R_z(-phi)", problems or None)


# ---------------------------------------------------------------------------------------------
# R-HELPERS: the topology helpers are read as VALUES (sa/symex.py), not as text: temporaries, early returns, swapped
# branches, De Morgan, unpacking instead of indexing, keyword arguments, extracted helpers all give the same value.
# Every reading is three-valued: the value is understood and right (ok) / understood and wrong (violation) /
# not expressed in the vocabulary the rule knows (AnalysisError).

DECAY = "ampform.helicity.decay"
ATTACHED = f"{DECAY}::determine_attached_final_state"
SIBLING = f"{DECAY}::get_sibling_state_id"
PARENT = f"{DECAY}::get_parent_id"
_KEEPS_ELEMENTS = {"list", "tuple", "sorted", "set", "frozenset", "iter", "reversed"}


class Unreadable(AnalysisError):
    """The value has a shape outside the vocabulary of the rule: cannot decide."""


def helper_value(tree: Tree, qual: str, atoms: frozenset = frozenset()):
    """(SymEx, value) of one helper function, computed once per tree."""
    from ..symex import SymEx

    cache = tree.__dict__.setdefault("_c04_symex", {})
    key = (qual, atoms)
    if key not in cache:
        fn = tree.func(qual)
        sx = SymEx(tree, atoms=set(atoms))
        try:
            value, _ = sx.run(fn)
        except AnalysisError:
            raise
        except Exception as exc:  # noqa: BLE001 - an executor failure is "cannot decide", never a verdict
            raise AnalysisError(f"{qual}: symbolic execution failed ({exc!r})") from exc
        cache[key] = (sx, value)
    return cache[key]


def _is_call(v, name: str) -> bool:
    """``v`` is a call of the package function / class / builtin called ``name`` (qualified name or last component)."""
    from ..symex import func_name

    if not (isinstance(v, tuple) and v and v[0] == "call"):
        return False
    f = func_name(v)
    return f == name or f.split("::")[-1].split(".")[-1] == name.split("::")[-1].split(".")[-1]


def _pos_args(v, params: tuple[str, ...] = ()) -> list:
    """Arguments of a call value in declaration order ``params`` (keywords are moved to their position)."""
    args = list(v[2])
    kw = dict(v[3])
    for p_ in params[len(args):]:
        if p_ in kw:
            args.append(kw.pop(p_))
        else:
            break
    if kw:
        raise Unreadable(f"unexpected keyword arguments {sorted(kw)} in a call of {_show(v[1])}")
    if any(isinstance(a, tuple) and a and a[0] == "star" for a in args):
        raise Unreadable(f"splatted arguments in a call of {_show(v[1])}")
    return args


def _show(v) -> str:
    from ..symex import show

    return show(v)[:90]


def _same_elements(v):
    """Look through conversions that keep the elements (list / tuple / sorted / set / frozenset / iter / reversed)."""
    while isinstance(v, tuple) and v:
        if v[0] == "call" and v[1][0] == "builtin" and v[1][1] in _KEEPS_ELEMENTS and len(v[2]) == 1 and not v[3]:
            v = v[2][0]
        elif v[0] == "seqop" and v[1] in {"sort", "reverse"}:
            v = v[2]
        else:
            break
    return v


def _method_call(v, name: str):
    """(receiver, positional args) if ``v`` is ``receiver.name(...)``, else None."""
    if isinstance(v, tuple) and v and v[0] == "call" and v[1][0] == "attr" and v[1][2] == name and not v[3]:
        return v[1][1], list(v[2])
    return None


def _edge_attr(v, state=None):
    """(topology, state, attribute) if ``v`` is ``topology.edges[state].attribute``."""
    if isinstance(v, tuple) and v and v[0] == "attr" and v[1][0] == "sub" and v[1][1][0] == "attr" and v[1][1][2] == "edges":
        if state is None or v[1][2] == state:
            return v[1][1][1], v[1][2], v[2]
    return None


def _none_test(t):
    """(subject) if the atomic test is ``subject is None`` (SymEx keeps tests in positive normal form)."""
    if isinstance(t, tuple) and t and t[0] == "cmp" and t[1] in {"is", "=="}:
        if t[3] == ("const", None):
            return t[2]
        if t[2] == ("const", None):
            return t[3]
    return None


def single_element(sx, v):
    """C if ``v`` is THE element of the one-element collection C: ``next(iter(C))``, ``C[0]`` / ``tuple(C)[0]``,
    ``(x,) = C``, ``C.pop()``, ``min(C)`` / ``max(C)``, ``[*C][0]``.  None otherwise."""
    if not (isinstance(v, tuple) and v):
        return None
    if v[0] == "call" and v[1] == ("builtin", "next") and len(v[2]) == 1 and not v[3]:
        return _same_elements(v[2][0])
    if v[0] == "call" and v[1][0] == "builtin" and v[1][1] in {"min", "max"} and len(v[2]) == 1 and not v[3]:
        return _same_elements(v[2][0])
    if v[0] == "sub" and v[2] in {("const", 0), ("const", -1)}:
        c = v[1]
        if c[0] in {"list", "tuple"} and len(c[1]) == 1 and c[1][0][0] == "star":
            c = c[1][0][1]
        return _same_elements(c)
    if v[0] == "item" and v[2] == 0 and sx.lengths.get(v[1]) == 1:
        return _same_elements(v[1])
    m = _method_call(v, "pop")
    if m is not None and not m[1]:
        return _same_elements(m[0])
    return None


def _edges_at(v, method: str, topo=None):
    """node term if ``v`` (through element-keeping conversions) is ``topology.<method>(node)``."""
    m = _method_call(_same_elements(v), method)
    if m is not None and len(m[1]) == 1 and (topo is None or m[0] == topo):
        return m[0], m[1][0]
    return None


def read_attached(tree: Tree) -> tuple[list[str], dict]:
    """determine_attached_final_state(topology, state) as a decision table over `topology.edges[state].<node> is None`:
    problems (understood, wrong) and the reading; raises Unreadable for anything else."""
    from ..symex import decision_table, strip_when

    fn = tree.func(ATTACHED)
    if len(fn.params) < 2:
        raise Unreadable(f"{fn.qual}: no (topology, state) parameters")
    topo, state = ("param", fn.params[0]), ("param", fn.params[1])
    sx, value = helper_value(tree, ATTACHED)
    atoms, table = decision_table(value)
    tests = []
    for a in atoms:
        subj = _none_test(a)
        ea = _edge_attr(subj, state) if subj is not None else None
        if ea is None or ea[0] != topo:
            raise Unreadable(f"{fn.qual}: the result depends on `{_show(a)}`, which is not a test `topology.edges[state].<node id> is None`")
        tests.append(ea[2])
    if len(tests) != 1:
        raise Unreadable(f"{fn.qual}: the result depends on {len(tests)} conditions (one expected: has the edge an ending node?)")

    def kind(v):
        if v is None:
            return ("raises",)
        if v[0] in {"list", "tuple"} and len(v[1]) == 1 and strip_when(v[1][0])[1] == state:
            return ("self",)
        inner = v
        is_sorted = False
        if inner[0] == "call" and inner[1] == ("builtin", "sorted") and len(inner[2]) == 1 and not inner[3]:
            is_sorted, inner = True, inner[2][0]
        e = _edges_at(inner, "get_originating_final_state_edge_ids", topo)
        if e is not None:
            ea = _edge_attr(e[1], state)
            if ea is not None and ea[0] == topo:
                return ("below", ea[2], is_sorted)
        raise Unreadable(f"{fn.qual}: returns `{_show(v)}`, which is neither [state] nor the final-state edges below a node of the edge")

    reading = {"test": f"edges[state].{tests[0]} is None", True: kind(table[(True,)]), False: kind(table[(False,)])}
    problems = []
    if tests[0] != "ending_node_id":
        problems.append(f"the leaf case is decided by `{tests[0]}`, not by `ending_node_id`")
    if reading[True] != ("self",):
        problems.append(f"for an edge without {tests[0]} the result is {reading[True]}, not [state]")
    if reading[False] != ("below", "ending_node_id", True):
        problems.append(f"for an edge with {tests[0]} the result is {reading[False]}, not the sorted final-state ids below its ending node")
    return problems, reading


def read_opposite(tree: Tree) -> tuple[list[str], dict]:
    from ..symex import alternatives

    fn = tree.func(OPPOSITE)
    topo, state = ("param", fn.params[0]), ("param", fn.params[1])
    sx, value = helper_value(tree, OPPOSITE, frozenset({ATTACHED, SIBLING}))
    alts = alternatives(value)
    if len(alts) != 1:
        raise Unreadable(f"{fn.qual}: the result depends on conditions (`{_show(value)}`); a single comparison is expected")
    v = alts[0][1]
    negated = False
    while v[0] == "not":
        v, negated = v[1], not negated
    if v[0] != "cmp" or v[1] not in {">", "<", ">=", "<="}:
        raise Unreadable(f"{fn.qual}: returns `{_show(v)}`, not an order comparison")
    op, left, right = v[1], v[2], v[3]
    if negated:  # not (a <= b)  ==  a > b   (a total order on tuples of ints)
        op = {"<=": ">", ">=": "<", "<": ">=", ">": "<="}[op]
    greater, smaller = (left, right) if op in {">", ">="} else (right, left)

    def side(x):
        x = _same_elements(x)
        if not _is_call(x, ATTACHED):
            raise Unreadable(f"{fn.qual}: compares `{_show(x)}`, which is not determine_attached_final_state(...)")
        t, s_ = _pos_args(x, ("topology", "state_id"))[:2]
        if t != topo:
            raise Unreadable(f"{fn.qual}: attached final states of another topology `{_show(t)}`")
        if s_ == state:
            return "state"
        if _is_call(s_, SIBLING) and _pos_args(s_, ("topology", "state_id"))[:2] == [topo, state]:
            return "sibling"
        raise Unreadable(f"{fn.qual}: attached final states of `{_show(s_)}`, which is neither the state nor its sibling")

    reading = {"greater": side(greater), "smaller": side(smaller), "strict": op in {">", "<"}}
    problems = []
    if (reading["greater"], reading["smaller"]) != ("state", "sibling"):
        problems.append(f"the order is attached({reading['greater']}) > attached({reading['smaller']}), not attached(state) > attached(sibling)")
    if not reading["strict"]:
        problems.append("the order is not strict: two siblings could both (or neither) be the opposite-helicity state")
    return problems, reading


def _outgoing_of_origin(fn, v, topo, state, method="get_edge_ids_outgoing_from_node", node_attr="originating_node_id") -> list[str]:
    """Problems if the collection ``v`` is not ``topology.<method>(topology.edges[state].<node_attr>)``."""
    for m in ("get_edge_ids_outgoing_from_node", "get_edge_ids_ingoing_to_node"):
        e = _edges_at(v, m, topo)
        if e is not None:
            ea = _edge_attr(e[1], state)
            if ea is None or ea[0] != topo:
                raise Unreadable(f"{fn.qual}: edges at `{_show(e[1])}`, which is not a node of the state's edge")
            out = []
            if m != method:
                out.append(f"reads {m}(), not {method}()")
            if ea[2] != node_attr:
                out.append(f"reads the edges at `{ea[2]}`, not at `{node_attr}`")
            return out
    raise Unreadable(f"{fn.qual}: `{_show(v)}` is not the set of edges entering / leaving a node of the topology")


def read_sibling(tree: Tree) -> tuple[list[str], dict]:
    """get_sibling_state_id = the one element of (edges leaving the originating node) minus the state."""
    from ..symex import alternatives, strip_when

    fn = tree.func(SIBLING)
    if len(fn.params) < 2:
        raise Unreadable(f"{fn.qual}: no (topology, state) parameters")
    topo, state = ("param", fn.params[0]), ("param", fn.params[1])
    sx, value = helper_value(tree, SIBLING)
    problems: list[str] = []
    alts = alternatives(value)
    if not alts:
        raise Unreadable(f"{fn.qual}: no value")
    for _pc, v in alts:
        coll = single_element(sx, v)
        if coll is None:
            raise Unreadable(f"{fn.qual}: returns `{_show(v)}`, which is not the single element of a collection")
        minus = _minus_state(fn, coll, state)
        if minus is None:
            raise Unreadable(f"{fn.qual}: `{_show(coll)}` is not a collection with one element taken out")
        base, removed, kept_pred = minus
        problems += _outgoing_of_origin(fn, base, topo, state)
        if removed != state:
            problems.append(f"takes `{_show(removed)}` out of the outgoing edges, not the state itself")
        if kept_pred is False:
            problems.append("keeps the state itself instead of removing it")
    return problems, {"alternatives": len(alts)}


def _minus_state(fn, coll, state):
    """(base collection, removed element, kept) if ``coll`` is `base` with one element removed:
    in-place remove / discard, set difference, a comprehension / filter with `x != removed`.
    ``kept`` is False when the filter keeps exactly the removed element instead (x == removed)."""
    from ..symex import strip_when

    c = _same_elements(coll)
    if c[0] == "seqop" and c[1] in {"remove", "discard"} and len(c[3]) == 1:
        return c[2], c[3][0], True
    if c[0] == "binop" and c[1] == "-":
        r = _same_elements(c[3])
        if r[0] in {"set", "list", "tuple"} and len(r[1]) == 1:
            return c[2], r[1][0], True
    m = _method_call(c, "difference")
    if m is not None and len(m[1]) == 1:
        r = _same_elements(m[1][0])
        if r[0] in {"set", "list", "tuple"} and len(r[1]) == 1:
            return m[0], r[1][0], True
    if c[0] in {"list", "set", "tuple"} and len(c[1]) == 1 and c[1][0][0] == "foreach":
        each, item = c[1][0][1], c[1][0][2]
        pcs, elt = strip_when(item)
        if elt == each and len(pcs) == 1:
            t, outcome = pcs[0]
            if t[0] == "cmp" and t[1] == "==" and each in (t[2], t[3]):
                other = t[3] if t[2] == each else t[2]
                return each[1], other, (not outcome)
    return None


def read_parent(tree: Tree) -> tuple[list[str], dict]:
    """get_parent_id = None iff the edge originates nowhere, else the single edge entering its originating node
    (anything but exactly one entering edge is rejected)."""
    from ..symex import decision_table

    fn = tree.func(PARENT)
    if len(fn.params) < 2:
        raise Unreadable(f"{fn.qual}: no (topology, state) parameters")
    topo, state = ("param", fn.params[0]), ("param", fn.params[1])
    sx, value = helper_value(tree, PARENT)
    atoms, table = decision_table(value)
    origin_test = None
    count_tests = []
    for i, a in enumerate(atoms):
        subj = _none_test(a)
        ea = _edge_attr(subj, state) if subj is not None else None
        if ea is not None and ea[0] == topo:
            if origin_test is not None:
                raise Unreadable(f"{fn.qual}: two `is None` tests on the edge")
            origin_test = (i, ea[2])
            continue
        if a[0] == "cmp" and a[1] in {"==", "<", ">", "<=", ">="} and any(_is_call(x, "len") for x in (a[2], a[3])):
            count_tests.append(i)
            continue
        if _edges_at(a, "get_edge_ids_ingoing_to_node", topo) is not None or _edges_at(a, "get_edge_ids_outgoing_from_node", topo) is not None:
            count_tests.append(i)  # truth value of the collection: is there an edge at all?
            continue
        raise Unreadable(f"{fn.qual}: the result depends on `{_show(a)}`, which is neither `edge.<node> is None` nor a count of edges")
    if origin_test is None:
        raise Unreadable(f"{fn.qual}: no test whether the edge originates from a node")
    problems: list[str] = []
    if origin_test[1] != "originating_node_id":
        problems.append(f"the top edge is recognised by `{origin_test[1]} is None`, not `originating_node_id is None`")
    top_values = {v for bits, v in table.items() if bits[origin_test[0]] and v is not None}
    if top_values != {("const", None)}:
        problems.append(f"an edge that originates nowhere gives {[_show(v) for v in top_values] or 'an exception'}, not None")
    rows = {bits: v for bits, v in table.items() if not bits[origin_test[0]]}
    values = {v for v in rows.values() if v is not None}
    if not values:
        raise Unreadable(f"{fn.qual}: no value for an edge that originates from a node")
    for v in values:
        if isinstance(v, tuple) and v and v[0] == "ambiguous":
            raise Unreadable(f"{fn.qual}: ambiguous value `{_show(v)}`")
        coll = single_element(sx, v)
        if coll is None:
            if v == ("const", None):
                problems.append("returns None although the edge originates from a node")
                continue
            raise Unreadable(f"{fn.qual}: returns `{_show(v)}`, which is not the single element of a collection")
        problems += _outgoing_of_origin(fn, coll, topo, state, "get_edge_ids_ingoing_to_node", "originating_node_id")
    guarded = bool(count_tests) and any(v is None for v in rows.values())
    if not guarded:
        problems.append("no rejection of a node with other than one entering edge (len(...) != 1 -> raise)")
    return problems, {"origin": origin_test[1], "guarded": guarded}


def _helper_verdict(ctx: Check, tree: Tree, qual: str, key: str, reader, what: str) -> None:
    fn = tree.func(qual)
    try:
        problems, reading = reader(tree)
    except Unreadable as exc:
        raise AnalysisError(f"R-HELPERS {fn.qual}: cannot decide - {exc}") from exc
    ctx.verdict(not problems, "R-HELPERS", f"{fn.qual}::{key}", tree.loc(fn.node), what, problems or None)


def check_topology_helpers(ctx: Check, tree: Tree) -> None:
    """R-HELPERS: the topology helpers on which the other rules rely (they are treated as the
    definition of "helicity state", "sibling", "parent" and "attached final states"):
      is_opposite_helicity_state(t, s)  =  tuple(attached(t, s)) > tuple(attached(t, sibling(t, s)))
                                           (a strict order: exactly one of two siblings is opposite, state 0 never)
      determine_attached_final_state    =  [s] iff the edge ends nowhere, else the sorted final states below it
      get_sibling_state_id              =  the one other edge leaving the originating node
      get_parent_id                     =  None iff the edge originates nowhere, else the one edge entering its originating node
    Each helper is evaluated symbolically (sa/symex.py) and its VALUE is compared with the definition."""
    errors = []
    for qual, key, reader, what in (
        (OPPOSITE, "strict-order", read_opposite, "is_opposite_helicity_state == attached final states of the state > those of its sibling (strict tuple order)"),
        (ATTACHED, "definition", read_attached, "determine_attached_final_state: [state] iff the edge has no ending node, else the sorted final-state ids below its ending node"),
        (SIBLING, "definition", read_sibling, "get_sibling_state_id: the outgoing edges of the originating node minus the state itself"),
        (PARENT, "definition", read_parent, "get_parent_id: None iff the edge originates nowhere, else the single edge entering its originating node"),
    ):
        try:
            _helper_verdict(ctx, tree, qual, key, reader, what)
        except AnalysisError as exc:  # the other helpers are still judged
            errors.append(str(exc))
    if errors:
        raise AnalysisError("; ".join(errors))


def run(ctx: Check, tree: Tree) -> None:
    ctx.decided += [
        "R-PROV: in compute_helicity_angles the state id that names an angle pair reaches the momentum that fills it (all reaching definitions)",
        "R-FRAME: helicity frames are BoostZ(|P|/E)·RotationY(-Theta(P))·RotationZ(-Phi(P)) of the child's summed momentum; recursion uses the boosted pool",
        "R-POOL: the momenta of each node are read in that node's own frame (the handed-in pool is never rebound or written): inner angles depend only on the chain of parent frames, which is what makes them rotation invariant",
        "R-HELPERS: is_opposite_helicity_state is the strict order on attached final states between a state and its sibling; determine_attached_final_state / get_sibling_state_id / get_parent_id have their documented definitions",
        "R-NORMALISED: every request for angle symbols is for the helicity state (children[0] or an id normalised with is_opposite_helicity_state); from_transition swap; alignment sign",
        "R-CONVENTION: Wigner-D takes (-phi, theta, 0) of the symbols of children[0]",
        "R-WIRING (shared with C05): the axis-angle rotation chain binds every Wigner D to the outer helicity symbol and the next free summation index",
        "R-GROUPKEY: the incoherent sum over outer spin projections is complete: the grouping key separates every (particle, projection) of the outer states",
    ]
    ctx.not_decided += [
        "numerical invariance of the intensity under rotations",
        "Wigner rotations of the axis-angle alignment (matrix products of boosts)",
        "reproduced on the unchanged tree and outside every structural clause decided here (DESIGN.md 9.4): (a) half-integer spins with two interfering topologies and axis-angle alignment - "
        "the Euler angles are read off an SO(3) matrix with atan2/acos, D^(1/2) needs them modulo 4 pi: Lambda_c+ -> p K- pi+ via Lambda(1520) and Delta(1232)++ changes by ~35% for 10-14 of 200 events under a rotation; "
        "(b) Dalitz-plot decomposition with two topologies: the combined amplitudes keep their lab-frame production angles, J/psi -> K0 Sigma+ p~ via Sigma(1660)~- and N(1650)+ changes by 4-7% (median) for every event",
    ]
    ctx.assumptions += ["qrules Topology API (get_edge_ids_*, edges) behaves as documented", "is_opposite_helicity_state is a total order on siblings (tuple comparison of attached final states)"]
    ctx.section(check_prov, ctx, tree, [ANGLES], min_stores=4)
    ctx.section(check_frame, ctx, tree)
    from .c07 import check_pool, check_recursion_shape

    ctx.section(check_pool, ctx, tree)
    ctx.section(check_recursion_shape, ctx, tree)
    ctx.section(check_normalised, ctx, tree)
    ctx.section(check_convention, ctx, tree)
    ctx.section(check_topology_helpers, ctx, tree)
    from .c05 import check_rotation_chain_order, check_wigner_angle_table

    ctx.section(check_wigner_angle_table, ctx, tree)

    ctx.section(check_rotation_chain_order, ctx, tree)  # interfering topologies with axis-angle alignment
    from .c05 import check_axisangle_structure

    ctx.section(check_axisangle_structure, ctx, tree)  # the alignment rotation is a unitary change of basis only if every D is bound to its summation symbols
    from .c02 import check_group_key

    # (which of two identical particles carries which helicity does not matter for rotation invariance:
    #  final-state helicities are rotation-invariant labels - that clause belongs to C02 only)
    ctx.section(check_group_key, ctx, tree, state_identity=False)
