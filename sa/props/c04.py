"""C04 - unpolarised intensity is invariant under a global rotation of the event.

Decided structurally:
R-PROV        the state that names an angle pair is the state whose momentum fills it.
R-FRAME       helicity frames are B_z(|p|/E) R_y(-theta) R_z(-phi) of one summed momentum.
R-NORMALISED  every consumer of the angle names resolves "opposite helicity state" the same way.
R-CONVENTION  the Wigner-D takes (-phi, theta, 0) and lambda_1 - lambda_2 of the normalised pair.
"""

from __future__ import annotations

import ast

from ..dataflow import RD
from ..inline import Inliner
from ..loader import AnalysisError, FuncInfo, Tree, ancestors, unparse, walk_function
from ..prov import describe, named_stores
from ..report import Check

PID = "C04"
ANGLES = "ampform.kinematics.angles::compute_helicity_angles"
NAMING = "ampform.helicity.naming::get_helicity_angle_symbols"
OPPOSITE = "ampform.helicity.decay::is_opposite_helicity_state"


def prov_key(store) -> str:
    """Key of an R-PROV violation: function + store statement + missing definitions, with
    the names of local variables canonicalised (alpha-renaming does not change the key)."""
    from ..canon import canon

    missing = sorted(describe(d, canonical=True) for d in store.missing)
    return f"{store.fn.qual}::{canon(store.stmt)}::missing[{'; '.join(missing)}]"


def check_prov(ctx: Check, tree: Tree, producers: list[str], min_stores: int) -> int:
    n = 0
    cache: dict = {}
    for q in producers:
        fn = tree.func(q)
        fns = [fn] + [f for f in tree.funcs.values() if f.outer is fn]
        for f in fns:
            for store in named_stores(tree, f, cache):
                n += 1
                key_defs = sorted(describe(d) for d in store.identity_defs)
                val_defs = sorted(describe(d) for d in store.value_closure if d.name in {x.name for x in store.identity_defs})
                where = tree.loc(store.stmt)
                what = f"{f.qual}: `{unparse(store.stmt)}` - key named by {unparse(store.naming_call)[:60]}"
                if store.missing:
                    ctx.violation(
                        "R-PROV",
                        prov_key(store),
                        where,
                        what + ": the variable is named after one state but filled with the momentum of another",
                        {
                            "identity_defs_at_key": key_defs,
                            "identity_defs_reaching_value": val_defs,
                            "not_reaching_value": sorted(describe(d) for d in store.missing),
                            "consequence": "for a decaying child that is the opposite-helicity state the angle symbol of the sibling is filled with the child's own momentum: "
                            "multi-topology intensities are not rotation invariant and one name denotes different quantities in isomorphic topologies",
                        },
                    )
                else:
                    ctx.ok("R-PROV", where, what, {"identity_defs": key_defs})
    if n < min_stores:
        raise AnalysisError(f"only {n} named kinematic-variable stores found (confirmed {min_stores})")
    return n


def _call_named(node: ast.AST, name: str) -> bool:
    return isinstance(node, ast.Call) and ((isinstance(node.func, ast.Name) and node.func.id == name) or (isinstance(node.func, ast.Attribute) and node.func.attr == name))


def check_frame(ctx: Check, tree: Tree) -> None:
    fn = tree.func(ANGLES + ".__recursive_helicity_angles")
    from ..prov import _rd_for

    rd = _rd_for(fn, {})
    inl = Inliner(fn.node, rd)
    comps = [n for n in walk_function(fn.node) if isinstance(n, ast.DictComp) and any(_call_named(c, "ArrayMultiplication") for c in ast.walk(n.value))]
    if len(comps) != 1:
        raise AnalysisError(f"{fn.qual}: expected one boosted momentum pool (dict comprehension with ArrayMultiplication), found {len(comps)}")
    comp = comps[0]
    key = f"{fn.qual}::frame-chain"
    problems = []
    am = next(c for c in ast.walk(comp.value) if _call_named(c, "ArrayMultiplication"))
    am = inl.expr(am, stop={n.id for n in ast.walk(comp.generators[0].target) if isinstance(n, ast.Name)})
    args = []
    for a in am.args:  # ArrayMultiplication(*frame, p) with frame a tuple of matrices
        if isinstance(a, ast.Starred) and isinstance(a.value, (ast.Tuple, ast.List)):
            args.extend(a.value.elts)
        else:
            args.append(a)
    names = [a.func.id if isinstance(a, ast.Call) and isinstance(a.func, ast.Name) else None for a in args]
    if names[:3] != ["BoostZMatrix", "RotationYMatrix", "RotationZMatrix"] or len(args) != 4:
        problems.append(f"chain is {names}, not [BoostZMatrix, RotationYMatrix, RotationZMatrix, p]")
    else:
        bz, ry, rz, p = args
        loop_val = comp.generators[0].target
        val_name = loop_val.elts[1].id if isinstance(loop_val, ast.Tuple) and len(loop_val.elts) == 2 else None
        if not (isinstance(p, ast.Name) and p.id == val_name):
            problems.append(f"the transformed object `{unparse(p)}` is not the pooled momentum `{val_name}`")
        P = None
        # rotations: -Theta(P), -Phi(P)
        for mat, cls_name, label in ((ry, "Theta", "theta"), (rz, "Phi", "phi")):
            a = mat.args[0] if mat.args else None
            if not (isinstance(a, ast.UnaryOp) and isinstance(a.op, ast.USub) and _call_named(a.operand, cls_name)):
                problems.append(f"{unparse(mat.func)} takes `{unparse(a)[:50] if a is not None else None}`, not -{cls_name}(P)")
            else:
                this = unparse(a.operand.args[0])
                P = P or this
                if this != P:
                    problems.append(f"{label} is computed from a different momentum than the other angle")
        b = bz.args[0] if bz.args else None
        if not (isinstance(b, ast.BinOp) and isinstance(b.op, ast.Div) and _call_named(b.left, "three_momentum_norm") and _call_named(b.right, "Energy")):
            if not (isinstance(b, ast.BinOp) and isinstance(b.op, ast.Div) and _call_named(b.left, "EuclideanNorm") and _call_named(b.right, "Energy")):
                problems.append(f"beta = `{unparse(b)[:60] if b is not None else None}` is not |p|/E")
        if isinstance(b, ast.BinOp) and P is not None:
            bl = unparse(b.left.args[0]) if isinstance(b.left, ast.Call) and b.left.args else None
            if bl is not None and "ThreeMomentum" in bl:
                bl = bl[len("ThreeMomentum("):-1]
            br = unparse(b.right.args[0]) if isinstance(b.right, ast.Call) and b.right.args else None
            if bl != P or br != P:
                problems.append("beta is not computed from the same summed momentum as the angles")
        if P is not None:
            import re as _re

            loop_vars = {unparse(a.target) for a in ancestors(comp) if isinstance(a, ast.For)}
            mm = _re.search(r"determine_attached_final_state\(topology, (\w+)\)", P)
            if not (P.startswith("ArraySum(") and mm and mm.group(1) in loop_vars):
                problems.append(f"the frame momentum `{P[:60]}` is not the sum over the final states attached to the decaying child")
        # (a filter `if k in sub_momenta_ids` only drops entries the recursion never reads:
        #  not a necessary condition, not checked.)  A filter must never drop own members:
        for cond in comp.generators[0].ifs:
            if not (isinstance(cond, ast.Compare) and len(cond.ops) == 1 and isinstance(cond.ops[0], ast.In)
                    and "determine_attached_final_state" in unparse(inl.expr(cond.comparators[0]))):
                problems.append(f"the boosted pool is filtered by `{unparse(cond)[:60]}`, which is not membership in the sub-system's final states")
    ctx.verdict(not problems, "R-FRAME", key, tree.loc(comp),
                "helicity frame = BoostZ(|P|/E) · RotationY(-Theta(P)) · RotationZ(-Phi(P)) applied to the sub-system's momenta, P = summed momentum of the decaying child",
                problems or None)
    # recursion continues with the boosted pool into the child's decay node
    rec = [c for c in walk_function(fn.node) if isinstance(c, ast.Call) and isinstance(c.func, ast.Name) and c.func.id == fn.name]
    ok = False
    foreign = None
    for c in rec:
        if len(c.args) == 2:
            pool_defs = rd.closure(rd.uses(c.args[0]))
            ok = any(d.value is comp for d in pool_defs) and "ending_node_id" in unparse(inl.expr(c.args[1]))
            # ... and with nothing but that pool: every definition that reaches the argument
            # (through plain name copies) is the comprehension of THIS activation.  A pool read
            # back from a container that outlives the activation (a memo keyed by the
            # sub-system's ids) is the frame of whichever chain of parents filled it first.
            work, seen = [c.args[0]], set()
            while work:
                e = work.pop()
                if e is comp:
                    continue
                if isinstance(e, ast.Name):
                    for d in rd.uses(e):
                        if id(d) in seen:
                            continue
                        seen.add(id(d))
                        if d.value is None:
                            foreign = foreign or f"`{e.id}` ({d.kind})"
                        else:
                            work.append(d.value)
                else:
                    foreign = foreign or f"`{unparse(e)[:60]}`"
    ctx.verdict(ok, "R-FRAME", f"{fn.qual}::recursion", tree.loc(rec[0]) if rec else tree.loc(fn.node),
                "the recursion descends into the child's decay node with the boosted momentum pool")
    ctx.verdict(foreign is None, "R-FRAME", f"{fn.qual}::recursion-own-pool", tree.loc(rec[0]) if rec else tree.loc(fn.node),
                "the pool handed to the recursion is the one boosted in this activation (from this activation's pool), on every path",
                None if foreign is None else f"the pool may also be {foreign}: a frame reached through a different chain of parent frames differs by a Wigner rotation")


def normalised_id(tree: Tree, fn: FuncInfo, rd: RD, arg: ast.AST, call: ast.Call) -> str | None:
    """How is the state id handed to the naming function normalised to the helicity state?"""
    txt = unparse(arg)
    if ".children[0]" in txt:
        return "TwoBodyDecay.children[0] (normalised by from_transition)"
    if isinstance(arg, ast.Name):
        defs = list(rd.reaching(arg))
        guarded, plain = [], []
        for d in defs:
            hit = None
            for anc in ancestors(d.node):
                if isinstance(anc, ast.If):
                    for c in ast.walk(anc.test):
                        if isinstance(c, ast.Call) and tree.callee(c, fn) == OPPOSITE and len(c.args) >= 2 and unparse(c.args[1]) == arg.id:
                            if not (isinstance(anc.test, ast.UnaryOp) and isinstance(anc.test.op, ast.Not)):
                                hit = anc
            (guarded if hit is not None else plain).append((d, hit))
        if guarded and plain:
            # the replacement must be the SIBLING of the first pick
            for d, anc in guarded:
                v = d.value
                if isinstance(v, ast.Call) and tree.callee(v, fn) == "ampform.helicity.decay::get_sibling_state_id" and len(v.args) >= 2 and unparse(v.args[1]) == arg.id:
                    continue
                if isinstance(v, ast.Subscript) and isinstance(v.slice, ast.Constant):
                    firsts = [p.value for p, _ in plain if isinstance(p.value, ast.Subscript) and isinstance(p.value.slice, ast.Constant) and unparse(p.value.value) == unparse(v.value)]
                    if firsts and all({f.slice.value, v.slice.value} == {0, 1} for f in firsts) and len(firsts) == len(plain):
                        continue
                return None
            d, anc = guarded[0]
            return f"`if {unparse(anc.test)}: {unparse(d.node)[:50]}` (replaced by its sibling)"
    return None


def check_normalised(ctx: Check, tree: Tree) -> None:
    n = 0
    cache: dict = {}
    from ..prov import _rd_for

    for q, fn in sorted(tree.funcs.items()):
        if not q.startswith("ampform"):
            continue
        for call, callee in tree.calls_in(fn, nested=False):
            if callee != NAMING:
                continue
            n += 1
            arg = call.args[1] if len(call.args) > 1 else next((k.value for k in call.keywords if k.arg == "state_id"), None)
            rd = _rd_for(fn, cache)
            how = normalised_id(tree, fn, rd, arg, call) if arg is not None else None
            ctx.verdict(how is not None, "R-NORMALISED", f"{q}::get_helicity_angle_symbols({unparse(arg) if arg is not None else ''})", tree.loc(call),
                        f"{q}: angle symbols are requested for the helicity state: {how or unparse(arg)}",
                        None if how else "the id is not normalised with is_opposite_helicity_state: producer and consumer may name the same angle after different children")
    if n < 4:
        raise AnalysisError(f"only {n} call sites of get_helicity_angle_symbols (4 confirmed)")
    # TwoBodyDecay.from_transition swaps so that children[0] is the helicity state
    ft = tree.func("ampform.helicity.decay::TwoBodyDecay.from_transition")
    ok, detail = False, None
    for node in walk_function(ft.node):
        if isinstance(node, ast.If):
            c = [x for x in ast.walk(node.test) if isinstance(x, ast.Call) and tree.callee(x, ft) == OPPOSITE]
            if c and not (isinstance(node.test, ast.UnaryOp)):
                tested = unparse(c[0].args[1])
                swaps = [s for s in node.body if isinstance(s, ast.Assign) and isinstance(s.targets[0], ast.Tuple) and isinstance(s.value, ast.Tuple)]
                if swaps:
                    t = [unparse(e) for e in swaps[0].targets[0].elts]
                    v = [unparse(e) for e in swaps[0].value.elts]
                    ok = sorted(t) == sorted(v) and t != v and tested in t
                    detail = {"tested": tested, "swap": f"{t} = {v}"}
    # ... and the first child after the swap is children[0]
    rd = RD(ft.node)
    first = None
    for node in walk_function(ft.node):
        if isinstance(node, ast.keyword) and node.arg == "children" and isinstance(node.value, ast.Tuple):
            first = unparse(node.value.elts[0])
    ok = ok and first is not None and detail is not None and detail["tested"] in first
    ctx.verdict(ok, "R-NORMALISED", f"{ft.qual}::swap", tree.loc(ft.node),
                "TwoBodyDecay.from_transition: if the first outgoing state is the opposite-helicity state the two are swapped, so children[0] is the helicity state", detail)
    # sign of the helicity index in the aligned amplitude symbol
    gs = tree.func("ampform.helicity.align.axisangle::get_opposite_helicity_sign")
    rets = {unparse(r.value) for r in walk_function(gs.node) if isinstance(r, ast.Return)}
    cond = [n for n in walk_function(gs.node) if isinstance(n, ast.If)]
    ok = rets == {"-1", "1"} and len(cond) == 1 and any(tree.callee(c, gs) == OPPOSITE for c in ast.walk(cond[0].test) if isinstance(c, ast.Call)) and unparse(cond[0].body[0].value) == "-1"
    ctx.verdict(ok, "R-NORMALISED", f"{gs.qual}::sign", tree.loc(gs.node), "get_opposite_helicity_sign: -1 exactly for the opposite-helicity state, +1 otherwise")


def check_convention(ctx: Check, tree: Tree) -> None:
    from ..poly import RF, D, equal, sym
    from ..terms import Opaque
    from .c02 import _same, decay_evaluator, extract_apps

    D.reset()
    te = decay_evaluator(tree)
    fn = tree.func("ampform.helicity::formulate_isobar_wigner_d")
    val = te.eval_function(fn, [Opaque(("transition",)), sym("node_id")])
    apps = extract_apps(te, val, "D")
    if len(apps) != 1:
        raise AnalysisError("formulate_isobar_wigner_d: expected one Wigner.D call")
    got = apps[0]
    want = {"alpha": -sym("PHI"), "beta": sym("THETA"), "gamma": RF.const(0)}
    problems = [f"{k} = {got.get(k)!r} is not {'-phi' if k == 'alpha' else 'theta' if k == 'beta' else '0'}" for k, w in want.items() if not _same(te, got.get(k), w)]
    ctx.verdict(not problems, "R-CONVENTION", f"{fn.qual}::euler-angles", tree.loc(fn.node),
                "Wigner-D of a decay node takes (alpha, beta, gamma) = (-phi, theta, 0): the conjugate of the frame rotation R_y(-theta) R_z(-phi)", problems or None)
    gk = tree.func("ampform.helicity::_generate_kinematic_variables")
    inl2 = Inliner(gk.node)
    ret = next(r for r in walk_function(gk.node) if isinstance(r, ast.Return))
    rtxt = unparse(inl2.expr(ret.value)).replace(" ", "")
    ok = "get_helicity_angle_symbols(transition.topology,TwoBodyDecay.from_transition(transition,node_id).children[0].id)" in rtxt
    ctx.verdict(ok, "R-CONVENTION", f"{gk.qual}::angles-of-children0", tree.loc(gk.node),
                "_generate_kinematic_variables: (phi, theta) are the angle symbols of decay.children[0] (the helicity state)", None if ok else rtxt[:200])


def check_topology_helpers(ctx: Check, tree: Tree) -> None:
    """R-HELPERS: the topology helpers on which the other rules rely (they are treated as the
    definition of "helicity state", "sibling", "parent" and "attached final states"):
      is_opposite_helicity_state(t, s)  =  tuple(attached(t, s)) > tuple(attached(t, sibling(t, s)))
                                           (a strict order: exactly one of two siblings is opposite, state 0 never)
      determine_attached_final_state    =  [s] iff the edge ends nowhere, else the sorted final states below it
      get_sibling_state_id              =  the one other edge leaving the originating node
      get_parent_id                     =  None iff the edge originates nowhere, else the one edge entering its originating node"""
    mod = "ampform.helicity.decay"
    # 1
    fn = tree.func(f"{mod}::is_opposite_helicity_state")
    rd = RD(fn.node)
    rets = [r for r in walk_function(fn.node) if isinstance(r, ast.Return) and r.value is not None]
    ok = False
    detail = None
    if len(rets) == 1 and isinstance(rets[0].value, ast.Compare) and len(rets[0].value.ops) == 1 and isinstance(rets[0].value.ops[0], ast.Gt):
        def side(n):
            inner = n.args[0] if isinstance(n, ast.Call) and unparse(n.func) in {"tuple", "list"} and n.args else n
            txt = " ".join([unparse(inner)] + [unparse(d.value) for d in rd.closure(rd.uses(inner)) if isinstance(d.value, ast.AST)])
            if "determine_attached_final_state(" not in txt:
                return None
            return "sibling" if "get_sibling_state_id(" in txt else "state"
        l_, r_ = side(rets[0].value.left), side(rets[0].value.comparators[0])
        ok = (l_, r_) == ("state", "sibling")
        detail = (l_, r_)
    ctx.verdict(ok, "R-HELPERS", f"{fn.qual}::strict-order", tree.loc(fn.node),
                "is_opposite_helicity_state == attached final states of the state > those of its sibling (strict tuple order)", None if ok else detail)
    # 2
    fn = tree.func(f"{mod}::determine_attached_final_state")
    rets = [r for r in walk_function(fn.node) if isinstance(r, ast.Return) and r.value is not None]
    ok = False
    if len(rets) == 2:
        leaf = [r for r in rets if unparse(r.value).replace(" ", "") == f"[{fn.params[1]}]"]
        if len(leaf) == 1:
            g = [a for a in ancestors(leaf[0]) if isinstance(a, ast.If)]
            ok = len(g) == 1 and unparse(g[0].test).replace(" ", "").endswith(".ending_node_idisNone") and any(leaf[0] is n for b in g[0].body for n in ast.walk(b))
            other = [r for r in rets if r is not leaf[0]][0]
            ok = ok and unparse(other.value).replace(" ", "").startswith("sorted(topology.get_originating_final_state_edge_ids(") and not [a for a in ancestors(other) if isinstance(a, ast.If)]
    ctx.verdict(ok, "R-HELPERS", f"{fn.qual}::definition", tree.loc(fn.node), "determine_attached_final_state: [state] iff the edge has no ending node, else the sorted final-state ids below its ending node")
    # 3
    fn = tree.func(f"{mod}::get_sibling_state_id")
    rd = RD(fn.node)
    txt = unparse(fn.node).replace(" ", "")
    rets = [r for r in walk_function(fn.node) if isinstance(r, ast.Return) and r.value is not None]
    ok = (len(rets) == 1 and "get_edge_ids_outgoing_from_node(" in " ".join(unparse(d.value) for d in rd.closure(rd.uses(rets[0].value)) if isinstance(d.value, ast.AST))
          and ".originating_node_id" in txt and any(isinstance(n, ast.Call) and isinstance(n.func, ast.Attribute) and n.func.attr in {"remove", "discard"} and [unparse(a) for a in n.args] == [fn.params[1]] for n in walk_function(fn.node)))
    ctx.verdict(ok, "R-HELPERS", f"{fn.qual}::definition", tree.loc(fn.node), "get_sibling_state_id: the outgoing edges of the originating node minus the state itself")
    # 4
    fn = tree.func(f"{mod}::get_parent_id")
    rets = [r for r in walk_function(fn.node) if isinstance(r, ast.Return)]
    none_r = [r for r in rets if r.value is None or (isinstance(r.value, ast.Constant) and r.value.value is None)]
    ok = False
    if len(none_r) == 1:
        g = [a for a in ancestors(none_r[0]) if isinstance(a, ast.If)]
        ok = len(g) == 1 and unparse(g[0].test).replace(" ", "").endswith(".originating_node_idisNone")
        val = [r for r in rets if r not in none_r]
        rd = RD(fn.node)
        ok = ok and len(val) == 1 and "get_edge_ids_ingoing_to_node(" in " ".join(unparse(d.value) for d in rd.closure(rd.uses(val[0].value)) if isinstance(d.value, ast.AST))
        ok = ok and isinstance(val[0].value, ast.Subscript) and unparse(val[0].value.slice) == "0"
        cnt = [n for n in walk_function(fn.node) if isinstance(n, ast.If) and any(isinstance(b, ast.Raise) for b in n.body)]
        ok = ok and len(cnt) == 1 and unparse(cnt[0].test).replace(" ", "").startswith("len(") and unparse(cnt[0].test).replace(" ", "").endswith("!=1")
    ctx.verdict(ok, "R-HELPERS", f"{fn.qual}::definition", tree.loc(fn.node), "get_parent_id: None iff the edge originates nowhere, else the single edge entering its originating node")


def run(ctx: Check, tree: Tree) -> None:
    ctx.decided += [
        "R-PROV: in compute_helicity_angles the state id that names an angle pair reaches the momentum that fills it (all reaching definitions)",
        "R-FRAME: helicity frames are BoostZ(|P|/E)·RotationY(-Theta(P))·RotationZ(-Phi(P)) of the child's summed momentum; recursion uses the boosted pool",
        "R-POOL: the momenta of each node are read in that node's own frame (the handed-in pool is never rebound or written): inner angles depend only on the chain of parent frames, which is what makes them rotation invariant",
        "R-HELPERS: is_opposite_helicity_state is the strict order on attached final states between a state and its sibling; determine_attached_final_state / get_sibling_state_id / get_parent_id have their documented definitions",
        "R-NORMALISED: every request for angle symbols is for the helicity state (children[0] or an id normalised with is_opposite_helicity_state); from_transition swap; alignment sign",
        "R-CONVENTION: Wigner-D takes (-phi, theta, 0) of the symbols of children[0]",
        "R-WIRING (shared with C05): the axis-angle rotation chain binds every Wigner D to the outer helicity symbol and the next free summation index",
        "R-GROUPKEY: the incoherent sum over outer spin projections is complete: the grouping key separates every (particle, projection) of the outer states",
    ]
    ctx.not_decided += [
        "numerical invariance of the intensity under rotations",
        "Wigner rotations of the axis-angle alignment (matrix products of boosts)",
        "reproduced on the unchanged tree and outside every structural clause decided here (DESIGN.md 9.4): (a) half-integer spins with two interfering topologies and axis-angle alignment - "
        "the Euler angles are read off an SO(3) matrix with atan2/acos, D^(1/2) needs them modulo 4 pi: Lambda_c+ -> p K- pi+ via Lambda(1520) and Delta(1232)++ changes by ~35% for 10-14 of 200 events under a rotation; "
        "(b) Dalitz-plot decomposition with two topologies: the combined amplitudes keep their lab-frame production angles, J/psi -> K0 Sigma+ p~ via Sigma(1660)~- and N(1650)+ changes by 4-7% (median) for every event",
    ]
    ctx.assumptions += ["qrules Topology API (get_edge_ids_*, edges) behaves as documented", "is_opposite_helicity_state is a total order on siblings (tuple comparison of attached final states)"]
    ctx.section(check_prov, ctx, tree, [ANGLES], min_stores=4)
    ctx.section(check_frame, ctx, tree)
    from .c07 import check_pool, check_recursion_shape

    ctx.section(check_pool, ctx, tree)
    ctx.section(check_recursion_shape, ctx, tree)
    ctx.section(check_normalised, ctx, tree)
    ctx.section(check_convention, ctx, tree)
    ctx.section(check_topology_helpers, ctx, tree)
    from .c05 import check_rotation_chain_order, check_wigner_angle_table

    ctx.section(check_wigner_angle_table, ctx, tree)

    ctx.section(check_rotation_chain_order, ctx, tree)  # interfering topologies with axis-angle alignment
    from .c05 import check_axisangle_structure

    ctx.section(check_axisangle_structure, ctx, tree)  # the alignment rotation is a unitary change of basis only if every D is bound to its summation symbols
    from .c02 import check_group_key

    # (which of two identical particles carries which helicity does not matter for rotation invariance:
    #  final-state helicities are rotation-invariant labels - that clause belongs to C02 only)
    ctx.section(check_group_key, ctx, tree, state_identity=False)
