"""C01 - every symbol of a model is defined: parameter xor kinematic variable.

R-DOMAIN   the amplitude table handed to HelicityModel covers the summation domain of the
           intensity (the cartesian product of the per-state spin projection pools).
R-SYMPAIR  symbols that are re-created at a consumer instead of being passed are constructed
           identically (name skeleton family, kind, assumptions) at every site.
R-XSTORE   on every path through formulate a symbol is stored in at most one of
           parameter_defaults / kinematic_variables; the kinematic variables formulate modifies are its own.
R-CREATE   coefficient / coupling symbols are registered as parameters where they are created.

The rules that are anchored on one function (formulate, __formulate_dynamics, ...) read its *effective*
body (sa/inline.py E3b ``flatten``): private helpers whose value is discarded are spliced back in (H-PROC), a phase
that hands its result back is spliced in front of the statement that receives it (H-FUNC), single ``return E``
helpers are substituted, and locals that merely alias ``self.<path>`` are replaced by the path.

Every rule is THREE-VALUED: a violation is reported only with positive evidence (the construct was read and the
necessary condition is broken: different assumptions at two sites that were both read, a parameter store on a
path that provably keeps the key in the kinematic variables, a definition stored without substitution, ...).
A construct the rule cannot read - a name built at run time, assumptions behind an unknown ``**kw``, a mapping
handed to a function that is not followed, a loop of another shape - makes the rule raise AnalysisError
("cannot decide", exit 2) with the place and the reason; it never becomes a violation and never a pass.
Symbol names are read by ``sa/rules.NameReader`` (f-string / + / % / format / join, temporaries, loops over literal
tables, parameters of private factories followed to their callers), mappings by identity (attribute path or local,
through local aliases), helper extraction by ``flatten``, accumulators handed down by following the parameter.
"""

from __future__ import annotations

import ast
import copy
import re

from ..dataflow import RD
from ..inline import Inliner, flatten
from ..loader import AnalysisError, FuncInfo, Tree, ancestors, unparse, walk_function
from ..paths import PathWalker
from ..report import Check
from ..rules import symbol_sites

PID = "C01"
BUILDER = "ampform.helicity::HelicityAmplitudeBuilder"
FORMULATE = f"{BUILDER}.formulate"
COLLECT = "ampform.helicity.naming::collect_spin_projections"
MODEL = "ampform.helicity::HelicityModel"


# --------------------------------------------------------------------------- R-DOMAIN


def _callers(tree: Tree, target: FuncInfo) -> list[tuple[FuncInfo, ast.Call]]:
    out = []
    for q, fn in tree.funcs.items():
        if not q.startswith("ampform.helicity"):
            continue
        for call, callee in tree.calls_in(fn, nested=False):
            if callee == target.qual:
                out.append((fn, call))
    return out


DOMAIN_MARK = {"callee": COLLECT}


def _is_intensity_poolsum(tree: Tree, fn: FuncInfo, call: ast.Call) -> bool:
    """A PoolSum whose pools derive from collect_spin_projections: the intensity."""
    old = DOMAIN_MARK["callee"]
    DOMAIN_MARK["callee"] = COLLECT
    try:
        return derives_from_domain(tree, fn, call) is not None
    finally:
        DOMAIN_MARK["callee"] = old


def derives_from_domain(tree: Tree, fn: FuncInfo, expr: ast.AST, depth: int = 0, seen=None) -> str | None:
    """Does ``expr`` (inside ``fn``) data-derive from collect_spin_projections(...) - directly
    or through a parameter that some caller binds to such a value (depth <= 3)?"""
    seen = seen if seen is not None else set()
    if (fn.qual, ast.dump(expr)) in seen or depth > 3:
        return None
    seen.add((fn.qual, ast.dump(expr)))
    rd = RD(fn.node) if fn.outer is None else RD(fn.node)
    closure = rd.closure(rd.uses(expr))
    exprs = [expr] + [d.value for d in closure if d.value is not None]
    for e in exprs:
        for n in ast.walk(e):
            if isinstance(n, ast.Call) and tree.callee(n, fn) == DOMAIN_MARK.get("callee"):
                if DOMAIN_MARK["callee"] == COLLECT or _is_intensity_poolsum(tree, fn, n):
                    return f"{fn.qual}: {unparse(n)[:60]}"
    params = [d.name for d in closure if d.kind == "param" and d.name not in {"self", "cls"}]
    for p in params:
        for caller, call in _callers(tree, fn):
            sig = fn.params[1:] if fn.cls is not None else fn.params
            arg = next((k.value for k in call.keywords if k.arg == p), None)
            if arg is None and p in sig and sig.index(p) < len(call.args):
                arg = call.args[sig.index(p)]
            if arg is not None:
                r = derives_from_domain(tree, caller, arg, depth + 1, seen)
                if r:
                    return f"{r} -> {fn.qual}({p})"
    # a value returned by a same-class helper that derives from the domain
    for e in exprs:
        for n in ast.walk(e):
            if isinstance(n, ast.Call):
                callee = tree.callee(n, fn)
                if callee in tree.funcs and callee.startswith("ampform.helicity") and callee != fn.qual and depth < 3:
                    g = tree.funcs[callee]
                    for ret in [x for x in walk_function(g.node, nested=False) if isinstance(x, ast.Return) and x.value is not None]:
                        r = derives_from_domain(tree, g, ret.value, depth + 1, seen)
                        if r:
                            return r
    return None


def _model_call(tree: Tree, fn: FuncInfo | None = None) -> ast.Call:
    """The one HelicityModel(...) construction in the effective formulate()."""
    formulate = fn or flatten(tree, tree.func(FORMULATE))
    calls = [c for c, callee in tree.calls_in(formulate) if callee == MODEL]
    if len(calls) != 1:
        raise AnalysisError(f"{FORMULATE}: expected one HelicityModel(...) construction, found {len(calls)}")
    return calls[0]


def _model_argument(tree: Tree, keyword: str, fn: FuncInfo | None = None) -> ast.AST:
    """The value HelicityModel(...) receives for the field ``keyword`` in the effective formulate(): passed by
    keyword, by position (order of the annotated fields of the class) or through a ``**{...}`` display."""
    call = _model_call(tree, fn)
    for k in call.keywords:
        if k.arg == keyword:
            return k.value
        if k.arg is None and isinstance(k.value, ast.Dict):
            for kk, vv in zip(k.value.keys, k.value.values):
                if isinstance(kk, ast.Constant) and kk.value == keyword:
                    return vv
    fields = [st.target.id for st in tree.cls(MODEL).node.body if isinstance(st, ast.AnnAssign) and isinstance(st.target, ast.Name)]
    if keyword in fields and not any(isinstance(a, ast.Starred) for a in call.args) and fields.index(keyword) < len(call.args):
        return call.args[fields.index(keyword)]
    raise AnalysisError(f"HelicityModel(...) in formulate: the argument for `{keyword}` is not found (keyword, position or ** display)")


def _update_keys(call: ast.Call) -> list[ast.AST]:
    """Key expressions of ``table.update(arg)`` / ``table.setdefault(key, ...)``: the key of a dict
    comprehension / the keys of a dict display (not its values or filters), else the whole argument."""
    if not call.args:
        return [k.value for k in call.keywords] or [call]
    arg = call.args[0]
    if isinstance(arg, ast.DictComp):
        return [arg.key]
    if isinstance(arg, ast.Dict) and arg.keys and all(k is not None for k in arg.keys):
        return list(arg.keys)
    return [arg]


def _table_stores(tree: Tree, reach: set[str], table: str) -> tuple[list[tuple[FuncInfo, ast.AST]], list[str]]:
    """(stores into the amplitude table reachable from formulate, what could not be followed).

    The table is named by its attribute path; a function of the package that RECEIVES the table as an argument
    (an accumulator handed down to a helper) is scanned for stores into that parameter.  A store is `T[k] = v`,
    `T.update(...)`, `T.setdefault(k, v)`, `T.__setitem__(k, v)`."""
    stores: list[tuple[FuncInfo, ast.AST]] = []
    unread: list[str] = []
    work: list[tuple[FuncInfo, str, int]] = []
    for q in sorted(reach):
        fn = tree.funcs.get(q)
        if fn is not None:
            work.append((flatten(tree, fn, inline=False), table, 0))
    seen: set[tuple[str, str]] = set()
    while work:
        fn, name, depth = work.pop(0)
        if (fn.qual, name) in seen:
            continue
        seen.add((fn.qual, name))
        for node in walk_function(fn.node, nested=False):
            if isinstance(node, (ast.Assign, ast.AnnAssign, ast.AugAssign)):
                tgt = node.targets[0] if isinstance(node, ast.Assign) else node.target
                if isinstance(tgt, ast.Subscript) and unparse(tgt.value) == name:
                    stores.append((fn, node))
            if isinstance(node, ast.Call) and isinstance(node.func, ast.Attribute) and node.func.attr in {"update", "setdefault", "__setitem__"} and unparse(node.func.value) == name:
                stores.append((fn, node))
            if isinstance(node, ast.Call) and hasattr(node, "_module"):
                args = [(i, a) for i, a in enumerate(node.args)] + [(k.arg, k.value) for k in node.keywords]
                hits = [(pos, a) for pos, a in args if isinstance(a, (ast.Name, ast.Attribute)) and unparse(a) == name]
                if not hits:
                    continue
                callee = tree.callee(node, fn)
                g = tree.funcs.get(callee) if callee else None
                if g is None:
                    continue  # a class (HelicityModel(...)) or an external function: does not fill the table
                params = [x.arg for x in [*g.node.args.posonlyargs, *g.node.args.args]]
                if g.cls is not None and params and params[0] in {"self", "cls"} and not any(unparse(d) == "staticmethod" for d in g.node.decorator_list):
                    params = params[1:]
                for pos, _ in hits:
                    p = pos if isinstance(pos, str) else params[pos] if isinstance(pos, int) and pos < len(params) else None
                    if p is None or depth >= 3:
                        unread.append(f"{fn.qual}: `{unparse(node)[:60]}` hands the table to {g.qual.split('::')[-1]}")
                    else:
                        work.append((flatten(tree, g, inline=False), p, depth + 1))
    return stores, unread


def _site_guards(fn: FuncInfo, call: ast.AST) -> list[ast.AST]:
    """The tests that decide whether ``call`` is executed once ``fn`` runs: enclosing if / while / conditional
    expression / short-circuit operand / exception handler, and every `return` that an earlier statement of an
    enclosing block can take (its own guards).  Loops over collections and `with` blocks are not guards."""
    from ..loader import parent

    guards: list[ast.AST] = []
    node: ast.AST = call
    while node is not fn.node:
        p = parent(node)
        if p is None:
            break
        if isinstance(p, (ast.If, ast.While)) and node is not p.test:
            guards.append(p.test)
        elif isinstance(p, ast.IfExp) and node is not p.test:
            guards.append(p.test)
        elif isinstance(p, ast.BoolOp) and p.values and node is not p.values[0]:
            guards.append(p.values[0])
        elif isinstance(p, ast.ExceptHandler):
            guards.append(p.type or p)
        elif isinstance(p, ast.comprehension) and node in p.ifs:
            pass
        elif isinstance(p, (ast.ListComp, ast.SetComp, ast.GeneratorExp, ast.DictComp)):
            for g in p.generators:
                guards.extend(g.ifs)
        elif isinstance(p, ast.match_case):
            guards.append(p.pattern)
        # earlier statements of the same block that may leave the function
        for field in ("body", "orelse", "finalbody"):
            block = getattr(p, field, None)
            if isinstance(block, list) and node in block:
                for earlier in block[: block.index(node)]:
                    for r in ast.walk(earlier):
                        if isinstance(r, ast.Return):
                            inner = [t for t in _enclosing_tests(r, earlier)]
                            guards.extend(inner or [r])
        node = p
    return guards


def _enclosing_tests(node: ast.AST, stop: ast.AST) -> list[ast.AST]:
    from ..loader import parent

    out = []
    while node is not stop:
        p = parent(node)
        if p is None:
            break
        if isinstance(p, (ast.If, ast.While)) and node is not p.test:
            out.append(p.test)
        node = p
    if isinstance(stop, (ast.If, ast.While)) and not out:
        out.append(stop.test)
    return out


def _completion_is_unconditional(tree: Tree, graph: dict, target: str) -> tuple[bool, list[tuple[FuncInfo, ast.Call, list[ast.AST]]]]:
    """Is ``target`` executed whenever FORMULATE runs to its return?  Walks the call graph from FORMULATE over call
    sites that carry no guard; returns (True, []) if the target is reached that way, otherwise the guarded call sites
    on the way to it (the first guarded hop of every chain)."""
    reach_target = {q for q in graph if target in tree.reachable(q, graph)} | {target}
    must: set[str] = set()
    todo = [FORMULATE]
    blocked: list[tuple[FuncInfo, ast.Call, list[ast.AST]]] = []
    while todo:
        q = todo.pop()
        if q in must:
            continue
        must.add(q)
        fn = tree.funcs.get(q)
        if fn is None:
            continue
        for call, callee in tree.calls_in(fn, nested=False):
            if callee is None or callee not in reach_target:
                continue
            guards = _site_guards(fn, call)
            if guards:
                blocked.append((fn, call, guards))
            else:
                todo.append(callee)
    return target in must, blocked


def check_alignment_options(ctx: Check, tree: Tree) -> None:
    """R-ALIGNOPT: a spin alignment formulates the amplitude (which introduces the alignment-angle symbols) and
    defines those symbols in two methods.  A configuration field of the alignment that `formulate_amplitude` reads
    names the symbols it creates (the reference sub-system is part of every zeta symbol); if `define_symbols` does not
    read the same field, the rule cannot tell whether the definitions cover the symbols for every value of the field:
    ANALYSIS-ERROR (three-valued - a field that only changes a convention would be harmless)."""
    n = 0
    for q, cls in sorted(tree.classes.items()):
        if not q.startswith("ampform.helicity.align"):
            continue
        fa, ds = cls.methods.get("formulate_amplitude"), cls.methods.get("define_symbols")
        if fa is None or ds is None:
            continue
        n += 1

        def fields_read(m: FuncInfo, seen: set[str] | None = None) -> set[str]:
            """Fields read through `self.` in the method and in the methods / properties of the class it uses."""
            seen = seen if seen is not None else set()
            if m.qual in seen:
                return set()
            seen.add(m.qual)
            out: set[str] = set()
            for x in walk_function(m.node):
                if isinstance(x, ast.Attribute) and isinstance(x.value, ast.Name) and x.value.id == "self" and isinstance(x.ctx, ast.Load):
                    helper = tree.lookup_method(cls, x.attr)
                    if helper is not None:
                        out |= fields_read(helper, seen)
                    else:
                        out.add(x.attr)
            return out

        only_amplitude = fields_read(fa) - fields_read(ds)
        if only_amplitude:
            raise AnalysisError(f"R-ALIGNOPT cannot decide: {q}.formulate_amplitude reads the configuration field(s) {sorted(only_amplitude)} that {q}.define_symbols does not read - "
                                "whether the defined alignment angles are the ones the amplitude contains for every value of the field is not visible")
        ctx.ok("R-ALIGNOPT", tree.loc(ds.node), f"{q}: define_symbols reads every configuration field that formulate_amplitude reads ({sorted(fields_read(fa)) or 'none'})")
    if n < 3:
        raise AnalysisError(f"R-ALIGNOPT: only {n} alignment classes with formulate_amplitude / define_symbols found (NoAlignment, AxisAngleAlignment, DalitzPlotDecomposition confirmed)")


def check_domain(ctx: Check, tree: Tree) -> None:
    # local aliases of attribute paths (`amplitudes = self.__ingredients.amplitudes`) are looked through (H-ALIAS)
    table = unparse(_model_argument(tree, "amplitudes"))  # self.__ingredients.amplitudes
    # the summation domain reaches the PoolSum of the intensity
    graph = tree.call_graph()
    reach = tree.reachable(FORMULATE, graph)
    domain_sites = []
    for q in sorted(reach):
        fn = tree.funcs.get(q)
        if fn is None or not q.startswith("ampform.helicity::"):
            continue
        for call, callee in tree.calls_in(fn, nested=False):
            if callee == "ampform.sympy::PoolSum" and derives_from_domain(tree, fn, call):
                domain_sites.append((fn, call))
    if not domain_sites:
        raise AnalysisError("vanished anchor: no PoolSum whose indices derive from collect_spin_projections is reachable from formulate")
    # stores into the table
    stores, unread = _table_stores(tree, reach, table)
    if not stores:
        raise AnalysisError(f"no store into {table} reachable from formulate")
    covering = []
    for fn, node in stores:
        if isinstance(node, ast.Call):
            key_exprs = _update_keys(node)
        else:
            key_exprs = [(node.targets[0] if isinstance(node, ast.Assign) else node.target).slice]
        # the summation domain is the whole (unfolded) intensity - including the inner sums that
        # a spin alignment adds - not just the outer pools: the key must derive from the PoolSum
        DOMAIN_MARK["callee"] = "ampform.sympy::PoolSum"
        try:
            why = next((w for w in (derives_from_domain(tree, fn, k) for k in key_exprs) if w), None)
        finally:
            DOMAIN_MARK["callee"] = COLLECT
        what = f"{fn.qual}: `{unparse(node)[:70]}`"
        if why:
            covering.append((fn, node, why))
            ctx.ok("R-DOMAIN", tree.loc(node), what + f" - key derives from the summation domain ({why[:120]})")
        else:
            ctx.info("R-DOMAIN", tree.loc(node), what + " - keyed by existing transitions only")
    # consumer-side default
    expr_prop = tree.func(f"{MODEL}.expression")
    consumer_default = any(isinstance(n, ast.Attribute) and n.attr == "atoms" for n in walk_function(expr_prop.node)) and "Indexed" in unparse(expr_prop.node)
    key = f"{BUILDER}::amplitude-table-not-covering-domain"
    fn0, call0 = domain_sites[0]
    if covering and not consumer_default:
        # the completion step has to run on every formulate(): a guarded call site on every chain to it means that
        # some configurations / reactions get no completion
        verdicts = []
        for cfn, cnode, _why in covering:
            always, blocked = _completion_is_unconditional(tree, graph, cfn.qual)
            if always:
                verdicts = []
                break
            verdicts.append((cfn, blocked))
        for cfn, blocked in verdicts[:1]:
            if not blocked:
                raise AnalysisError(f"R-DOMAIN: no call chain from formulate to the completion step {cfn.qual} was read")
            gfn, gcall, guards = blocked[0]
            DOMAIN_MARK["callee"] = COLLECT
            from_domain = [g for g in guards if derives_from_domain(tree, gfn, g)]
            text = "; ".join(unparse(g)[:70] for g in guards)
            if len(from_domain) == len(guards):
                raise AnalysisError(f"R-DOMAIN cannot decide: the completion step `{unparse(gcall)[:60]}` in {gfn.qual} only runs under `{text}`, which is computed from the projection pools - "
                                    "whether the guard admits every reaction with a missing amplitude is not a structural fact")
            ctx.violation("R-DOMAIN", f"{BUILDER}::completion-step-guarded", tree.loc(gcall),
                          f"{gfn.qual}: the step that defines the amplitudes without a transition (`{unparse(gcall)[:60]}`) only runs under `{text}`, which does not derive from the summation domain",
                          {"why": "whenever the guard is false the intensity keeps amplitude symbols that nothing defines"})
    if covering or consumer_default:
        ctx.ok("R-DOMAIN", tree.loc(call0), f"the amplitude table covers the domain of `{unparse(call0)[:60]}`: " + ("completion store present" if covering else "HelicityModel.expression defaults leftover Indexed atoms"))
    elif unread:
        # three-valued: a completion step may sit where the table could not be followed
        raise AnalysisError("R-DOMAIN cannot decide: no store keyed from the summation domain was read, but " + "; ".join(unread)[:300])
    else:
        ctx.violation(
            "R-DOMAIN", key, tree.loc(call0),
            f"{fn0.qual}: the intensity sums over the cartesian product of the per-state projection pools (`{unparse(call0)[:70]}`), but all {len(stores)} store(s) into {table} are keyed by existing transitions only",
            {
                "stores": [f"{f.qual}: {unparse(n)[:60]}" for f, n in stores],
                "why": "the pools are per-state marginals; their product is a strict superset of the joint helicity set whenever some combination has no transition "
                "(eta_c -> Lambda Lambda-bar leaves A[0,-1/2,+1/2] and A[0,+1/2,-1/2] undefined)",
            },
        )


# --------------------------------------------------------------------------- R-KINDOMAIN

COMBINATORICS = "ampform.helicity::_perform_combinatorics"
ADAPTER_FEEDS = {"register_transition", "register_topology", "permutate_registered_topologies"}


def check_kinematic_domain(ctx: Check, tree: Tree) -> None:
    """The amplitude of a transition is also formulated for its identical-particle
    permutations (`_perform_combinatorics`), whose topologies differ from the ones in the
    reaction; their angle / mass symbols are only defined if those topologies are
    registered in the adapter that produces the kinematic variables.

    Three-valued: a violation needs that the symmetrised graphs are formulated and that NO call of an adapter method
    that registers topologies receives them (or permutes all registered ones) in any effective method of the builder;
    graphs / adapter handed to a function that is not read -> cannot decide."""
    builder = tree.cls(BUILDER)
    if COMBINATORICS not in tree.funcs:
        raise AnalysisError(f"vanished anchor: {COMBINATORICS} (identical-particle symmetrisation) not found")
    graph = tree.call_graph()
    own = set()
    for m in builder.methods.values():
        own |= tree.reachable(m.qual, graph)
    # the symmetrised graphs, also as handed out by a helper (a function / generator of the package whose returned or
    # yielded values are computed from `_perform_combinatorics(...)`, e.g. the frozen permuted transitions)
    sources = {COMBINATORICS}
    for _ in range(3):
        grown = set(sources)
        for q, f in tree.funcs.items():
            if q in grown or not q.startswith("ampform.helicity::") or f.outer is not None:
                continue
            frd = None
            for n in walk_function(f.node, nested=False):
                v = n.value if isinstance(n, (ast.Return, ast.Yield, ast.YieldFrom)) else None
                if v is None:
                    continue
                frd = frd or RD(f.node)
                exprs = [v] + [d.value for d in frd.closure(frd.uses(v)) if d.value is not None]
                if any(isinstance(c, ast.Call) and tree.callee(c, f) in sources for x in exprs for c in ast.walk(x)):
                    grown.add(q)
                    break
        if grown == sources:
            break
        sources = grown
    users = []
    for q in sorted(own):
        f = tree.funcs.get(q)
        if f is None or not q.startswith("ampform.helicity::") or q in sources:
            continue
        for call, callee in tree.calls_in(f, nested=True):
            if callee in sources:
                users.append((f, call))
    if not users:
        ctx.info("R-KINDOMAIN", tree.loc(builder.node), "the builder no longer symmetrises over identical particles itself: nothing to register")
        return
    # is the symmetrised transition what the amplitude is formulated for?
    feeds = []
    unread = []
    for m in builder.methods.values():
        gf = flatten(tree, m)
        rd = RD(gf.node)

        def from_combinatorics(e: ast.AST, gf=gf, rd=rd) -> bool:
            exprs = [e] + [d.value for d in rd.closure(rd.uses(e)) if d.value is not None]
            return any(isinstance(n, ast.Call) and hasattr(n, "_module") and tree.callee(n, gf) in sources for x in exprs for n in ast.walk(x))

        for node in walk_function(gf.node):
            if not (isinstance(node, ast.Call) and hasattr(node, "_module")):
                continue
            callee = tree.callee(node, gf) or ""
            is_adapter_method = isinstance(node.func, ast.Attribute) and node.func.attr in ADAPTER_FEEDS and ("adapter" in unparse(node.func.value).lower() or callee.startswith("ampform.kinematics::HelicityAdapter."))
            if is_adapter_method:
                if node.func.attr == "permutate_registered_topologies":  # type: ignore[union-attr]
                    feeds.append((m, node, "permutes every registered topology"))
                elif any(from_combinatorics(a) for a in [*node.args, *[k.value for k in node.keywords]]):
                    feeds.append((m, node, "registers the symmetrised transitions"))
                continue
            if callee in tree.funcs and callee not in sources and not callee.startswith("ampform.kinematics::HelicityAdapter."):
                args = [*node.args, *[k.value for k in node.keywords]]
                hands_adapter = any("adapter" in unparse(a).lower() and isinstance(a, (ast.Name, ast.Attribute)) for a in args)
                if hands_adapter:
                    unread.append(f"{m.name}: `{unparse(node)[:60]}` hands the adapter to a function that is not read")
    m0, call0 = users[0]
    key = f"{BUILDER}::symmetrised-topologies-not-registered"
    if feeds:
        fm, fnode, how = feeds[0]
        ctx.ok("R-KINDOMAIN", tree.loc(fnode), f"{fm.qual}: `{unparse(fnode)[:60]}` {how}, so the kinematic variables cover the topologies of `{unparse(call0)}`")
    elif unread:
        raise AnalysisError("R-KINDOMAIN cannot decide: " + "; ".join(unread)[:300])
    else:
        ctx.violation(
            "R-KINDOMAIN", key, tree.loc(call0),
            f"{m0.qual}: amplitudes are formulated for every graph of `{unparse(call0)}` (identical-particle permutations), but no method of the builder registers those permuted topologies in its adapter",
            {
                "why": "angle and mass symbols are named from the topology of the (permuted) transition; HelicityAdapter only knows the topologies of reaction.transitions, so the symbols of a permuted topology are neither kinematic variables nor parameters",
                "observed": "J/psi -> gamma pi0 pi0 via omega(782): phi_01, phi_0^01, theta_01, theta_0^01 are free symbols of model.expression without definition unless the user calls adapter.permutate_registered_topologies()",
            },
        )


# --------------------------------------------------------------------------- R-SYMPAIR

FAMILY_MODULES = ("ampform.helicity", "ampform.kinematics")


def family(skeleton: str) -> str:
    s = re.sub(r"\d+", "{}", skeleton)
    return s


def _within(tree: Tree, reader, site_fn: str, producer: str, depth: int = 0) -> bool:
    """Is the function ``site_fn`` part of the producer ``producer`` (a function NAME): the producer itself, a
    function nested in it, or a private helper that only (transitively) the producer calls?"""
    names = site_fn.split("::")[-1].split(".")
    if producer in names:
        return True
    fn = tree.funcs.get(site_fn)
    if fn is None or depth > 4 or not reader.is_private(fn):
        return False
    callers = reader.callers(fn)
    return bool(callers) and all(_within(tree, reader, c.qual, producer, depth + 1) for c, _ in callers)


def _literal_text(fam: str) -> str:
    return fam.replace("{}", "")


def check_sympairs(ctx: Check, tree: Tree) -> None:
    """Three-valued: a family DISAGREES (violation) only if two sites whose names were read construct it with
    different kind / assumptions; a site whose assumptions cannot be read, a producer whose construction is not
    found, a constructor that is passed around as a value -> cannot decide (AnalysisError)."""
    from ..rules import _name_reader, symbol_ctor_escapes

    reader = _name_reader(tree)
    sites = symbol_sites(tree, [m + "::" for m in ()] or FAMILY_MODULES)
    ctx.stats["symbol_sites"] = len(sites)
    if len(sites) < 35:
        raise AnalysisError(f"only {len(sites)} symbol construction sites in helicity/kinematics (45+ confirmed)")
    undecided: list[str] = []
    for fn, node in symbol_ctor_escapes(tree, FAMILY_MODULES):
        undecided.append(f"{fn.qual}: a symbol constructor is used as a value (`{unparse(getattr(node, '_parent', node))[:60]}`): the symbols constructed through it are not seen")
    groups: dict[str, list[dict]] = {}
    dynamic = 0
    for s in sites:
        if s["skeleton"] is None:
            dynamic += 1
            if s["assumptions"]:
                # the symbol is constructed WITH assumptions, so it belongs to some family - but to which one is not read
                undecided.append(f"{s['fn']}: `{unparse(s['node'])[:60]}` constructs a symbol with assumptions {sorted(s['assumptions'])} under a name that is only known at run time ({', '.join(s['holes']) or '?'}): its family cannot be compared")
            else:
                ctx.info("R-SYMPAIR", tree.loc(s["node"]), f"{s['fn']}: symbol name computed at run time (`{unparse(s['node'])[:60]}`)")
            continue
        names = re.split(r"[,\s]+", s["skeleton"].strip()) if s["kind"] == "Symbol" and (" " in s["skeleton"].strip() or "," in s["skeleton"]) else [s["skeleton"]]
        for nm in names:
            if nm:
                groups.setdefault(family(nm), []).append(s)
    ctx.stats["symbol_families"] = len(groups)
    ctx.stats["symbol_names_only_known_at_run_time"] = dynamic
    required = {
        "m_{}": ("mass symbols: formulate / get_invariant_mass_symbol / DPD angle formulas", 3),
        "alpha{}": ("Wigner rotation angle alpha: formulate_wigner_rotation <-> compute_wigner_angles", 2),
        "beta{}": ("Wigner rotation angle beta", 2),
        "gamma{}": ("Wigner rotation angle gamma", 2),
        "{}{}": ("helicity summation indices: axis-angle chain <-> create_helicity_symbol", 2),
    }
    for fam, (what, min_fns) in required.items():
        members = groups.get(fam, [])
        fns = {m["fn"] for m in members}
        if len(fns) < min_fns:
            raise AnalysisError(f"symbol family `{fam}` ({what}) found at {len(fns)} functions only: {sorted(fns)}")
    for fam, members in sorted(groups.items()):
        if not _literal_text(fam):
            # a name without any literal text says nothing by itself: only sites whose run-time pieces come from
            # the same function (`...{get_helicity_suffix(...)}`) are known to construct the same symbols
            by_source: dict[str, list[dict]] = {}
            for m in members:
                for src in sorted({h for h in m["holes"] if h.startswith("call:")}):
                    by_source.setdefault(src, []).append(m)
            keep = [m for ms in by_source.values() if len({id(x["node"]) for x in ms}) > 1 for m in ms]
            loose = [m for m in members if not any(m is k for k in keep)]
            for m in loose:
                ctx.info("R-SYMPAIR", tree.loc(m["node"]), f"{m['fn']}: `{unparse(m['node'])[:60]}` - every piece of the name is computed at run time and shares no source with another site: not compared")
            members = list({id(m): m for m in keep}.values())
        if len({id(m["node"]) for m in members}) < 2:
            continue
        unread = sorted({f"{m['fn']}: {u}" for m in members for u in m.get("unread", [])})
        if unread:
            undecided.append(f"symbol family `{fam}`: the assumptions of a site cannot be read ({'; '.join(unread)[:200]})")
            continue
        sigs = {(m["kind"], tuple(sorted(m["assumptions"].items()))) for m in members}
        fns = sorted({m["fn"].split("::")[-1] for m in members})
        where = tree.loc(members[0]["node"])
        ok = len(sigs) == 1
        detail = None
        if not ok:
            detail = [{"fn": m["fn"], "kind": m["kind"], "assumptions": m["assumptions"], "at": tree.loc(m["node"])} for m in members]
        ctx.verdict(ok, "R-SYMPAIR", f"helicity+kinematics::symbol family `{fam}`", where,
                    f"symbol family `{fam}`: {len(members)} construction sites in {fns[:4]}{'...' if len(fns) > 4 else ''} agree in kind and assumptions", detail)
    # single producers
    for fam, producer in (("m{}", "create_spin_projection_symbol"), ("phi{}", "get_helicity_angle_symbols"), ("theta{}", "get_helicity_angle_symbols"), ("A^{}", "create_amplitude_base")):
        members = groups.get(fam, [])
        if not members:
            undecided.append(f"single producer `{fam}`: no construction of a `{fam}` symbol was read (does {producer} still build the name in a way that is understood?)")
            continue
        outside = sorted({m["fn"] for m in members if not _within(tree, reader, m["fn"], producer)})
        ctx.verdict(not outside, "R-SYMPAIR", f"helicity+kinematics::single producer `{fam}`", tree.loc(members[0]["node"]),
                    f"symbols `{fam}` are only ever constructed by {producer}", None if not outside else [q.split("::")[-1] for q in outside])
    # both Wigner-angle sites derive their suffix from get_helicity_suffix(topology, state)
    for q in ("ampform.helicity.align.axisangle::formulate_wigner_rotation", "ampform.kinematics.angles::compute_wigner_angles"):
        fn = tree.func(q)
        members = [m for fam in ("alpha{}", "beta{}", "gamma{}") for m in groups.get(fam, []) if _within(tree, reader, m["fn"], fn.name)]
        if not members:
            undecided.append(f"{q}: no construction of the alpha / beta / gamma symbols was read inside it")
            continue
        other = sorted({h for m_ in members for h in m_["holes"] if h != "call:get_helicity_suffix"})
        unknown = [h for h in other if not h.startswith("call:")]
        if unknown:
            undecided.append(f"{q}: where the angle suffix comes from is not understood ({', '.join(unknown)})")
            continue
        ok = not other and all(m_["holes"] for m_ in members)
        if not other and not ok:
            undecided.append(f"{q}: an alpha / beta / gamma symbol is constructed with a literal name")
            continue
        ctx.verdict(ok, "R-SYMPAIR", f"{q}::suffix", tree.loc(fn.node), f"{q.split('::')[-1]}: the angle suffix is get_helicity_suffix(topology, state id)",
                    None if ok else f"the suffix comes from {', '.join(o.split(':', 1)[1] for o in other)}")
    _check_mass_filter(ctx, tree, groups, undecided)
    if undecided:
        raise AnalysisError("R-SYMPAIR cannot decide: " + " | ".join(undecided))


def _free_symbol_elements(fn: FuncInfo, rd: RD) -> set[int]:
    """ids of the Name loads in ``fn`` that stand for ONE element of `<expr>.free_symbols` / `<expr>.atoms(...)`:
    comprehension / loop variables over such a set (possibly sorted / filtered) and parameters of a lambda that is
    handed to filter / map over it."""
    def from_symbols(e: ast.AST | None) -> bool:
        if e is None:
            return False
        for n in ast.walk(e):
            if isinstance(n, ast.Attribute) and n.attr in {"free_symbols", "atoms"}:
                return True
            if isinstance(n, ast.Name) and isinstance(n.ctx, ast.Load):
                if any(d.value is not None and d.kind in {"assign", "for", "comp"} and from_symbols_def(d) for d in rd.reaching(n)):
                    return True
        return False

    seen: dict[int, bool] = {}

    def from_symbols_def(d) -> bool:
        if id(d) in seen:
            return seen[id(d)]
        seen[id(d)] = False
        seen[id(d)] = from_symbols(d.value)
        return seen[id(d)]

    out: set[int] = set()
    for n in walk_function(fn.node):
        if isinstance(n, ast.Name) and isinstance(n.ctx, ast.Load):
            for d in rd.reaching(n):
                if d.kind in {"for", "comp"} and d.index is None and from_symbols_def(d):
                    out.add(id(n))
                elif d.kind == "lambda":
                    lam = next((a for a in ancestors(d.node) if isinstance(a, ast.Lambda)), None)
                    call = getattr(lam, "_parent", None) if lam is not None else None
                    if isinstance(call, ast.Call) and isinstance(call.func, ast.Name) and call.func.id in {"filter", "map"} and call.args and call.args[0] is lam \
                            and any(from_symbols(a) for a in call.args[1:]):
                        out.add(id(n))
    return out


def _check_mass_filter(ctx: Check, tree: Tree, groups: dict, undecided: list[str]) -> None:
    """The back-substitution in formulate recognises leftover mass symbols among the free symbols of an angle
    definition by NAME and ASSUMPTION; both must fit how the `m_{}` family is constructed.  Read in the effective
    formulate (sa/inline.py E3b): a private helper / predicate that selects the symbols is part of it."""
    formulate = flatten(tree, tree.func(FORMULATE))
    rd = RD(formulate.node)
    elements = _free_symbol_elements(formulate, rd)
    prefixes: list[tuple[str, ast.AST]] = []
    assumptions: list[tuple[str, ast.AST]] = []
    strange: list[str] = []
    for n in walk_function(formulate.node):
        if isinstance(n, ast.Attribute) and isinstance(n.value, ast.Name) and id(n.value) in elements:
            par = getattr(n, "_parent", None)
            if n.attr.startswith("is_"):
                assumptions.append((n.attr[3:], n))
            elif n.attr == "name":
                # <s>.name.startswith(P) / <s>.name[:k] == P
                call = getattr(par, "_parent", None) if isinstance(par, ast.Attribute) and par.attr == "startswith" else None
                if isinstance(call, ast.Call) and call.func is par and len(call.args) == 1:
                    arg = call.args[0]
                    lits = [arg] if isinstance(arg, ast.Constant) else list(arg.elts) if isinstance(arg, ast.Tuple) else []
                    if lits and all(isinstance(x, ast.Constant) and isinstance(x.value, str) for x in lits):
                        prefixes += [(x.value, call) for x in lits]
                    else:
                        strange.append(unparse(call)[:60])
                elif isinstance(par, ast.Subscript) and isinstance(par.slice, ast.Slice) and par.slice.lower is None and isinstance(getattr(par, "_parent", None), ast.Compare):
                    cmp_ = par._parent  # type: ignore[attr-defined]
                    other = [c for c in [cmp_.left, *cmp_.comparators] if c is not par]
                    if len(cmp_.ops) == 1 and isinstance(cmp_.ops[0], ast.Eq) and len(other) == 1 and isinstance(other[0], ast.Constant) and isinstance(other[0].value, str):
                        prefixes.append((other[0].value, cmp_))
                    else:
                        strange.append(unparse(cmp_)[:60])
                elif isinstance(par, (ast.JoinedStr, ast.FormattedValue)) or (isinstance(par, ast.Call) and par.func is not n and not isinstance(getattr(par, "_parent", None), (ast.If, ast.BoolOp, ast.comprehension))):
                    pass  # the name is only printed / passed on
                else:
                    strange.append(unparse(par if par is not None else n)[:60])
    mass = groups.get("m_{}", [])
    family_assumptions = {k for m in mass for k, v in m["assumptions"].items() if v == "True"}
    where = tree.loc(formulate.node)
    key = f"{FORMULATE}::mass-filter"
    what = "formulate recognises leftover mass symbols by the `m_` prefix and the nonnegative assumption of the family"
    wrong = []
    for pfx, node in prefixes:
        if not "m_".startswith(pfx) and not pfx.startswith("m_"):
            wrong.append(f"`{unparse(node)[:60]}` matches no `m_...` symbol")
        elif pfx != "m_":
            strange.append(f"{unparse(node)[:60]} (another prefix than `m_`)")
    for a, node in assumptions:
        if a not in family_assumptions:
            wrong.append(f"`{unparse(node)[:40]}` is not an assumption the `m_...` symbols are constructed with ({sorted(family_assumptions)})")
    if wrong:
        ctx.violation("R-SYMPAIR", key, where, what, wrong)
    elif strange or not prefixes or not assumptions:
        undecided.append(f"{FORMULATE}: how leftover mass symbols are recognised among the free symbols is not understood"
                         + (f" ({'; '.join(strange)[:160]})" if strange else f" ({len(prefixes)} name-prefix test(s), {len(assumptions)} assumption test(s) found)"))
    else:
        ctx.ok("R-SYMPAIR", where, what)


# --------------------------------------------------------------------------- R-XSTORE


class _Maps:
    """The two mappings of R-XSTORE inside the effective formulate and the operations on them.

    A mapping is named by an attribute path rooted at ``self`` (H-ALIAS already replaced local aliases of such a
    path that cannot be stale) or by a local; a local that merely aliases another local (``kv = kinematic_variables``)
    stands for that local.  Operations that are read: ``M[k] = v``, ``M.__setitem__(k, v)``, ``M.setdefault(k, v)``,
    ``M.update({k: v, ...})`` (stores of k) and ``del M[k]``, ``M.pop(k[, d])``, ``M.__delitem__(k)`` (removals)."""

    def __init__(self, fn: FuncInfo, rd: RD, par: ast.AST, kin: ast.AST) -> None:
        self.fn, self.rd = fn, rd
        self.par, self.kin = self.ident(par), self.ident(kin)
        self.par_text, self.kin_text = unparse(par), unparse(kin)

    def ident(self, e: ast.AST, depth: int = 0):
        if isinstance(e, ast.Name) and depth < 8:
            defs = self.rd.reaching(e) if isinstance(e.ctx, ast.Load) else set()
            if len(defs) == 1:
                d = next(iter(defs))
                if d.kind == "assign" and d.index is None and isinstance(d.value, ast.Name):
                    return self.ident(d.value, depth + 1)
            return ("local", e.id)
        return ("path", unparse(e))

    def key(self, k: ast.AST) -> str:
        """Text of a key; a local that merely aliases another local stands for that local."""
        if isinstance(k, ast.Name):
            i = self.ident(k)
            return i[1]
        return unparse(k)

    def ops(self, st: ast.AST) -> list[tuple[str, str, ast.AST, ast.AST]]:
        """[(\"store\" | \"del\", \"par\" | \"kin\", key expression, node)] of one simple statement."""
        out = []

        def which(recv: ast.AST) -> str | None:
            i = self.ident(recv)
            return "par" if i == self.par else "kin" if i == self.kin else None

        if isinstance(st, (ast.Assign, ast.AnnAssign, ast.AugAssign)):
            for t in (st.targets if isinstance(st, ast.Assign) else [st.target]):
                if isinstance(t, ast.Subscript) and which(t.value):
                    out.append(("store", which(t.value), t.slice, st))
        if isinstance(st, ast.Delete):
            for t in st.targets:
                if isinstance(t, ast.Subscript) and which(t.value):
                    out.append(("del", which(t.value), t.slice, st))
        for n in ast.walk(st):
            if isinstance(n, (ast.Lambda, ast.FunctionDef)):
                continue
            if isinstance(n, ast.Call) and isinstance(n.func, ast.Attribute) and which(n.func.value):
                m, attr = which(n.func.value), n.func.attr
                if attr in {"pop", "__delitem__"} and n.args:
                    out.append(("del", m, n.args[0], st))
                elif attr in {"setdefault", "__setitem__"} and n.args:
                    out.append(("store", m, n.args[0], st))
                elif attr == "update" and len(n.args) == 1 and isinstance(n.args[0], ast.Dict) and all(k is not None for k in n.args[0].keys):
                    out += [("store", m, k, st) for k in n.args[0].keys]
        return out

    def unread_mutation(self, st: ast.AST, tree: Tree) -> str | None:
        """Something in this statement may remove keys from the kinematic variables in a way that is not read: the
        local is re-bound, or the mapping is handed to a function of the package that was not spliced in."""
        if isinstance(st, (ast.Assign, ast.AnnAssign, ast.AugAssign)):
            for t in (st.targets if isinstance(st, ast.Assign) else [st.target]):
                if isinstance(t, ast.Name) and ("local", t.id) == self.kin:
                    return f"`{unparse(st)[:60]}` re-binds the kinematic variables"
        for n in ast.walk(st):
            if isinstance(n, ast.Call):
                args = [*n.args, *[k.value for k in n.keywords]]
                if any(isinstance(a, (ast.Name, ast.Attribute)) and self.ident(a) == self.kin for a in args):
                    callee = tree.callee(n, self.fn) if hasattr(n, "_module") else None
                    if callee in tree.funcs:
                        return f"`{unparse(n)[:60]}` hands the kinematic variables to {callee.split('::')[-1]}"
                if isinstance(n.func, ast.Attribute) and self.ident(n.func.value) == self.kin and n.func.attr in {"clear", "popitem", "difference_update", "__init__"}:
                    return f"`{unparse(n)[:60]}`"
        return None


def _relevant_slice(fn: FuncInfo, maps: _Maps, key_names: set[str]) -> FuncInfo:
    """A copy of the effective formulate reduced to what R-XSTORE looks at: the operations on the two mappings, the
    (re)definitions of the locals that occur in their keys, and the control flow that can reach or skip them.
    Compound statements without any of these (and everything nested in them) are dropped, so unrelated branching
    neither multiplies the paths nor matters."""
    def simple_relevant(st: ast.stmt) -> bool:
        if isinstance(st, ast.Return):
            return True
        if maps.ops(st):
            return True
        if isinstance(st, (ast.Assign, ast.AnnAssign, ast.AugAssign)):
            targets = st.targets if isinstance(st, ast.Assign) else [st.target]
            names = {n.id for t in targets for n in ast.walk(t) if isinstance(n, ast.Name)}
            if names & key_names or any(("local", n) in (maps.kin, maps.par) for n in names):
                return True
        return False

    def escapes(st: ast.stmt, in_loop: bool) -> bool:
        """a continue / break that leaves a loop outside ``st``"""
        if isinstance(st, (ast.Continue, ast.Break)):
            return not in_loop
        if isinstance(st, (ast.For, ast.While, ast.AsyncFor)):
            return any(escapes(x, True) for x in st.body) or any(escapes(x, in_loop) for x in st.orelse)
        for fld in ("body", "orelse", "finalbody"):
            if any(escapes(x, in_loop) for x in getattr(st, fld, None) or [] if isinstance(x, ast.stmt)):
                return True
        return any(escapes(x, in_loop) for h in getattr(st, "handlers", None) or [] for x in h.body)

    keep: set[int] = set()

    def mark(stmts: list[ast.stmt]) -> bool:
        any_kept = False
        for st in stmts:
            if isinstance(st, (ast.FunctionDef, ast.AsyncFunctionDef, ast.ClassDef)):
                continue
            compound = any(isinstance(getattr(st, f, None), list) and getattr(st, f) and isinstance(getattr(st, f)[0], ast.stmt) for f in ("body", "orelse", "finalbody")) or getattr(st, "handlers", None)
            if compound:
                inner = False
                for fld in ("body", "orelse", "finalbody"):
                    blk = getattr(st, fld, None)
                    if isinstance(blk, list) and blk and isinstance(blk[0], ast.stmt):
                        inner = mark(blk) or inner
                for h in getattr(st, "handlers", None) or []:
                    inner = mark(h.body) or inner
                if inner or escapes(st, False):
                    keep.add(id(st))
                    any_kept = True
            elif isinstance(st, (ast.Continue, ast.Break)) or simple_relevant(st):
                keep.add(id(st))
                any_kept = True
        return any_kept

    mark(fn.node.body)
    def rebuild(stmts: list[ast.stmt]) -> list[ast.stmt]:
        out = []
        for st in stmts:
            if id(st) not in keep:
                continue
            compound = [f for f in ("body", "orelse", "finalbody") if isinstance(getattr(st, f, None), list) and getattr(st, f) and isinstance(getattr(st, f)[0], ast.stmt)]
            if compound or getattr(st, "handlers", None):
                new = copy.copy(st)
                for f in ("body", "orelse", "finalbody"):
                    if isinstance(getattr(st, f, None), list):
                        setattr(new, f, rebuild(getattr(st, f)))
                if getattr(st, "handlers", None):
                    new.handlers = []
                    for h in st.handlers:
                        nh = copy.copy(h)
                        nh.body = rebuild(h.body) or [ast.copy_location(ast.Pass(), h)]
                        new.handlers.append(nh)
                if not new.body:
                    new.body = [ast.copy_location(ast.Pass(), st)]
                out.append(new)
            else:
                out.append(st)
        return out

    node = copy.copy(fn.node)
    node.body = rebuild(fn.node.body) or [ast.Pass()]
    return FuncInfo(fn.qual, node, fn.module, fn.cls, fn.outer)


def check_xstore(ctx: Check, tree: Tree) -> None:
    # the effective formulate (sa/inline.py E3b): statements that were extracted into private helper methods are
    # spliced back in, and local aliases of the two mappings are replaced by the attribute paths they stand for
    fn = flatten(tree, tree.func(FORMULATE))
    rd = RD(fn.node)
    maps = _Maps(fn, rd, _model_argument(tree, "parameter_defaults", fn), _model_argument(tree, "kinematic_variables", fn))
    par, kin = maps.par_text, maps.kin_text
    if maps.par == maps.kin:
        raise AnalysisError(f"{FORMULATE}: parameter defaults and kinematic variables are the same expression `{par}`")
    # a store through a local that was bound to the path of a mapping but is NOT that mapping for the rules (the
    # alias may be stale, H-ALIAS refused it): what is stored where cannot be decided
    for n in walk_function(fn.node):
        if isinstance(n, ast.Name) and isinstance(n.ctx, ast.Load) and isinstance(getattr(n, "_parent", None), (ast.Subscript, ast.Attribute)):
            for d in rd.reaching(n):
                if d.kind == "assign" and d.index is None and isinstance(d.value, ast.Attribute) and maps.ident(d.value) in (maps.par, maps.kin) and maps.ident(n) not in (maps.par, maps.kin):
                    raise AnalysisError(f"{FORMULATE}: `{n.id}` was bound to `{unparse(d.value)}` but may be stale where it is used (the path is re-bound in between): stores through it cannot be attributed")
    all_ops = [op for st in walk_function(fn.node) if isinstance(st, ast.stmt) and not isinstance(st, (ast.If, ast.For, ast.While, ast.Try, ast.With, ast.FunctionDef)) for op in maps.ops(st)]
    key_names = {n.id for _, _, k, _ in all_ops for n in ast.walk(k) if isinstance(n, ast.Name)}
    key_names |= {maps.key(k) for _, _, k, _ in all_ops if isinstance(k, ast.Name)}
    sliced = _relevant_slice(fn, maps, key_names)
    walker = PathWalker(tree)
    paths = walker.paths(sliced)
    ctx.stats["formulate_paths"] = len(paths)
    # the kinematic variables exist from their (single) definition on; parameters registered before that
    # (coefficients, couplings, dynamics parameters) are not mass symbols of the adapter - out of scope here
    kin_defs = [d.node for d in rd.defs if maps.kin[0] == "local" and d.name == maps.kin[1] and d.kind == "assign"]
    par_sites: dict[int, ast.AST] = {}
    conflicts: dict[int, tuple] = {}
    unpaired: dict[int, tuple] = {}
    orphan_dels: dict[int, ast.AST] = {}
    skipped_iterations: dict[tuple, tuple] = {}
    iter_records: dict[tuple, list] = {}
    all_del_roots: set[str] = set()
    del_sites: dict[int, ast.AST] = {}
    readds: dict[int, tuple] = {}
    undecided: list[str] = []
    free_elements = _free_symbol_elements(fn, rd)
    angle_defs = _alignment_definitions(rd)

    def collected_free_symbols(coll: ast.Name) -> bool:
        """a local list / set that is filled (display, comprehension, append / add / extend) with free symbols only"""
        todo, seen, any_element = list(rd.reaching(coll)), set(), False
        while todo:
            d = todo.pop()
            if d in seen:
                continue
            seen.add(d)
            if d.kind == "store" and isinstance(d.node, ast.Call) and isinstance(d.node.func, ast.Attribute) and d.node.func.attr in {"append", "add", "extend", "insert"} and d.node.args:
                arg = d.node.args[-1]
                if not (isinstance(arg, ast.Name) and (id(arg) in free_elements or (d.node.func.attr == "extend" and collected_free_symbols(arg)))):
                    return False
                any_element = True
                todo += [x for x in d.deps if x.name == d.name]
            elif d.kind == "assign" and d.index is None and isinstance(d.value, (ast.List, ast.Set, ast.Tuple)) and not d.value.elts:
                continue
            elif d.kind == "assign" and d.index is None and isinstance(d.value, ast.Call) and isinstance(d.value.func, ast.Name) and d.value.func.id in {"list", "set"} and not d.value.args:
                continue
            elif d.kind == "assign" and d.index is None and isinstance(d.value, (ast.ListComp, ast.SetComp, ast.GeneratorExp)) and isinstance(d.value.elt, ast.Name) and id(d.value.elt) in free_elements:
                any_element = True
            else:
                return False
        return any_element

    def key_kind(key: ast.Name) -> str:
        """Can this key of a store into the kinematic variables be a mass symbol?  "mass": a free symbol of an
        expression / a symbol constructed with an `m_...` name; "other": a key of the alignment definitions, a
        symbol constructed with another name; "unknown" otherwise."""
        if id(key) in free_elements:
            return "mass"
        kinds = set()
        for d in rd.reaching(key):
            if d.kind == "for" and d.value is not None:
                it = d.value
                while isinstance(it, ast.Call) and ((isinstance(it.func, ast.Name) and it.func.id in {"sorted", "list", "tuple", "reversed"} and it.args) or (isinstance(it.func, ast.Attribute) and it.func.attr in {"items", "keys"})):
                    it = it.args[0] if isinstance(it.func, ast.Name) else it.func.value
                if isinstance(it, ast.Name) and _object_defs(rd, it) and _object_defs(rd, it) <= angle_defs and (d.index in (None, 0)):
                    kinds.add("other")
                    continue
                if isinstance(it, ast.Name) and collected_free_symbols(it):
                    kinds.add("mass")
                    continue
                src = [n for n in ast.walk(d.value) if isinstance(n, ast.Name) and isinstance(n.ctx, ast.Load)]
                if src and all(id(n) in free_elements or any(x.kind in {"assign", "comp", "for"} and x.value is not None and any(isinstance(a, ast.Attribute) and a.attr in {"free_symbols", "atoms"} for a in ast.walk(x.value)) for x in _plain_closure(rd, rd.reaching(n))) for n in src):
                    kinds.add("mass")
                    continue
            if d.kind == "assign" and d.index is None and isinstance(d.value, ast.Call) and tree.callee(d.value, fn) in {"sympy.Symbol", "sympy.Dummy"} and d.value.args:
                from ..rules import NameReader, _name_reader

                texts = {NameReader.text(a) for a in _name_reader(tree).read(d.value.args[0], fn)}
                kinds.add("mass" if any(t is None or t.startswith("m_") or t.startswith("{}") for t in texts) else "other")
                continue
            kinds.add("unknown")
        if not kinds or "unknown" in kinds:
            return "unknown"
        return "mass" if "mass" in kinds else "other"

    def _pos(n: ast.AST) -> tuple:
        return (getattr(n, "lineno", 0), getattr(n, "col_offset", 0))  # the slice re-creates compound statements: positions identify them

    mass_loops: dict[tuple, ast.Name] = {}  # position of a for loop over mass symbols -> a use of its variable as the key of a store
    for op, _which, k_, n_ in all_ops:
        if op == "store" and isinstance(k_, ast.Name):
            lp = next((a for a in ancestors(n_) if isinstance(a, ast.For) and isinstance(a.target, ast.Name) and a.target.id == k_.id), None)
            if lp is not None and key_kind(k_) == "mass":
                mass_loops.setdefault(_pos(lp), k_)
    for p in paths:
        # replay per loop iteration: state is reset at each ("iter", loop) of an inner loop over symbols
        events = p.events
        live = not kin_defs
        open_par: dict[str, ast.AST] = {}  # key name -> store node still unpaired
        par_keys: dict[str, ast.AST] = {}
        kin_keys: dict[str, ast.AST] = {}
        deleted: set[str] = set()
        fam_dels: dict[str, tuple] = {}  # domain text -> (del executed once per element of that domain, domain expression)
        since_iter: list[tuple] = []  # tests evaluated in the current iteration of the innermost loop
        unread: str | None = None
        open_del: dict[str, ast.AST] = {}  # key name -> `del kin[key]` not (yet) matched by a parameter store of the same key

        def forget(name: str) -> None:
            # the key variable is re-bound / the iteration ends: a removal that found no parameter store stays unmatched
            if name in open_del:
                node_ = open_del.pop(name)
                orphan_dels[id(node_)] = node_

        for ev in events:
            if ev[0] == "iter":
                since_iter = []
            if ev[0] == "test":
                since_iter.append(ev)
            if ev[0] == "iter":
                # a new binding of the loop variable: forget keys named by it
                names = {n.id for n in ast.walk(ev[1].target) if isinstance(n, ast.Name)}
                for n in names:
                    forget(n)
                    open_par.pop(n, None)
                    par_keys.pop(n, None)
                    kin_keys.pop(n, None)
                    deleted.discard(n)
            if ev[0] != "stmt":
                continue
            node = ev[1]
            if any(node is d for d in kin_defs):
                live = True
                continue
            if isinstance(node, (ast.Assign, ast.AnnAssign)) and isinstance(node.targets[0] if isinstance(node, ast.Assign) else node.target, ast.Name):
                # re-definition of a key variable
                name = (node.targets[0] if isinstance(node, ast.Assign) else node.target).id
                forget(name)
                open_par.pop(name, None)
                par_keys.pop(name, None)
                kin_keys.pop(name, None)
                deleted.discard(name)
            if not live:
                continue
            if open_par and unread is None:
                unread = maps.unread_mutation(node, tree)
            for op, which, key, _ in maps.ops(node):
                k = maps.key(key)
                if op == "store" and which == "par":
                    par_sites[id(node)] = node
                    par_keys[k] = node
                    open_del.pop(k, None)
                    if k in kin_keys:
                        conflicts[id(node)] = (node, kin_keys[k])
                    if k not in deleted and _may_be_in(maps, key, rd):
                        open_par[k] = node
                elif op == "del" and which == "kin":
                    loop = next((a for a in ancestors(node) if isinstance(a, ast.For)), None)
                    if loop is not None:
                        fam_dels[unparse(loop.iter)] = (node, loop.iter)
                    open_par.pop(k, None)
                    kin_keys.pop(k, None)
                    deleted.add(k)
                    del_sites[id(node)] = node
                    if k not in par_keys:
                        open_del[k] = node
                elif op == "store" and which == "kin":
                    kin_keys[k] = node
                    deleted.discard(k)
                    for dom, (dnode, dom_expr) in fam_dels.items():
                        if isinstance(key, ast.Name):
                            kind = key_kind(key)
                            if kind == "other":
                                continue  # an alignment angle / a symbol of another family: cannot be a removed mass
                            if kind == "unknown":
                                undecided.append(f"whether the key of `{unparse(node)[:50]}` can be one of the mass symbols removed for `{dom}` (where it comes from is not read)")
                                continue
                            g = _guarded_against(tree, fn, since_iter, dom_expr, maps, key, rd)
                            if g is None:
                                undecided.append(f"whether `{unparse(node)[:50]}` is guarded against the symbols removed for `{dom}` depends on a call that is not read")
                            elif not g:
                                readds[id(node)] = (node, dnode, dom)
                    if k in par_keys:
                        conflicts[id(par_keys[k])] = (par_keys[k], node)
        # every remaining mass symbol gets a definition: in a loop over mass symbols (the loop variable is the key of a
        # parameter / kinematic-variable store somewhere in its body), an iteration that stores nothing under the loop
        # variable must have been taken for a symbol that already IS a parameter (a test of the iteration mentions the
        # domain of a family removed earlier on this path, or tests the symbol's membership in the parameters)
        for pos, ev in enumerate(events):
            if ev[0] != "iter" or _pos(ev[1]) not in mass_loops:
                continue
            loop = ev[1]
            inside = []
            for later in events[pos + 1:]:
                node = later[1] if later[0] in {"stmt", "test"} else None
                if node is None:
                    continue
                if not any(isinstance(a, ast.For) and _pos(a) == _pos(loop) for a in ancestors(node)):
                    break
                inside.append(later)
            var = loop.target.id
            stored = any(e[0] == "stmt" and any(op == "store" and isinstance(k_, ast.Name) and k_.id == var for op, _w, k_, _n in maps.ops(e[1])) for e in inside)
            tests_here = [e for e in inside if e[0] == "test"]
            # what the removals executed earlier on this path were conditioned on: the attribute paths of `self` (the
            # configuration) mentioned by the tests / loop domains evaluated before them
            seen_roots: set[str] = set()
            del_roots: set[str] = set()
            for e in events[:pos]:
                if e[0] in {"test", "iter"}:
                    src = e[1] if e[0] == "test" else e[1].iter
                    seen_roots |= _roots(src, rd)
                elif e[0] == "stmt" and any(op == "del" and which == "kin" for op, which, _k, _n in maps.ops(e[1])):
                    del_roots |= seen_roots
            all_del_roots.update(del_roots)
            iter_records.setdefault(_pos(loop), []).append((loop, stored, tests_here, del_roots))
        if p.exit == "return":
            for k in list(open_del):
                forget(k)
            for k, node in open_par.items():
                if unread is not None:
                    undecided.append(f"`{unparse(node)[:60]}`: {unread}, so whether the key is removed cannot be decided")
                else:
                    unpaired[id(node)] = (node, k)
    if not par_sites:
        raise AnalysisError(f"{FORMULATE}: no store into {par} after the kinematic variables were created (3 confirmed): the mass handling is not found")
    ctx.stats["formulate_parameter_stores"] = len(par_sites)
    for nid, node in par_sites.items():
        key = f"{FORMULATE}::{unparse(node)[:80]}"
        if nid in conflicts:
            a, b = conflicts[nid]
            ctx.violation("R-XSTORE", key + "::both", tree.loc(node), f"formulate: `{unparse(a)[:60]}` and `{unparse(b)[:60]}` on one path: the symbol is parameter AND kinematic variable")
        elif nid in unpaired:
            ctx.violation("R-XSTORE", key + "::not-deleted", tree.loc(node),
                          f"formulate: `{unparse(node)[:70]}` makes the mass a parameter, but it is not removed from {kin} (`del {kin}[...]` missing on some path)",
                          "create_expressions() defines every invariant-mass symbol of the topology, so the symbol would be both a parameter and a kinematic variable")
        else:
            ctx.ok("R-XSTORE", tree.loc(node), f"formulate: `{unparse(node)[:70]}` - the key cannot stay in {kin} on any of the {len(paths)} paths")
    # the other direction: a symbol taken out of the kinematic variables must become a parameter on the same path
    # (create_expressions() defined it and expressions still contain it: otherwise it is neither)
    for nid, node in del_sites.items():
        key = f"{FORMULATE}::{unparse(node)[:80]}::becomes-parameter"
        if nid in orphan_dels:
            ctx.violation("R-XSTORE", key, tree.loc(node), f"formulate: `{unparse(node)[:60]}` removes the symbol from {kin}, but no `{par}[<same key>] = ...` is executed for it on some path",
                          "the mass symbol still occurs in the dynamics and in the definitions of the other kinematic variables: it is then neither a parameter nor a kinematic variable")
        else:
            ctx.ok("R-XSTORE", tree.loc(node), f"formulate: `{unparse(node)[:60]}` - on every path the removed key is stored into {par}")
    # judge the iterations that store nothing: such an iteration is fine when a test that DECIDED it (the same test has the
    # other outcome in an iteration that does store) mentions the domain of a family removed earlier / the membership of
    # the symbol in the parameters - i.e. it is taken exactly for symbols that already are parameters
    for pos_, records in iter_records.items():
        storing = [r for r in records if r[1]]
        for loop, stored, tests_here, _roots_on_this_path in records:
            if stored:
                continue
            # (the removals of ANY path count: a path that skips because the symbol belongs to a removed family but on
            # which the removal loop ran zero times is infeasible, and the walker does not know that)
            del_roots = all_del_roots
            deciding = [t for t in tests_here if any(any(_pos(t2[1]) == _pos(t[1]) and t2[2] != t[2] for t2 in r[2]) for r in storing)]
            deciding = deciding[-1:]  # the test that finally separated this iteration from a storing one
            key_use = mass_loops[pos_]
            if any(_roots(t[1], rd) & del_roots for t in deciding):
                continue  # decided by the configuration that the earlier removals were conditioned on
            no_domain = ast.Name(id="<no family>", ctx=ast.Load())  # only the membership test of the symbol in the parameters / an unread call count here
            verdicts = [_guarded_against(tree, fn, deciding, no_domain, maps, key_use, rd)] if deciding else [False]
            if any(v is True for v in verdicts):
                continue
            # what kind of test decided the skip?  A recogniser of mass symbols on the loop variable itself (isinstance /
            # name prefix / assumption) only says that the element is not a mass symbol at all - the loop's domain filter
            # written as a guard.  A pure comparison of a LENGTH with integer constants skips symbols by their shape:
            # positive evidence.  Anything else is not read: undecided.
            var = loop.target.id
            kinds = {_skip_test_kind(t[1], var, rd) for t in deciding}
            if kinds and kinds <= {"recogniser"}:
                continue
            if any(v is None for v in verdicts) or not kinds or kinds - {"recogniser", "length"}:
                undecided.append(f"whether the iteration of `for {var} in {unparse(loop.iter)[:40]}` that stores nothing (decided by {[unparse(t[1])[:40] for t in deciding] or 'no test that separates it from a storing iteration'}) is only taken for symbols that need no definition cannot be read")
                continue
            skipped_iterations[pos_] = (loop, [unparse(e[1])[:50] + (" is true" if e[2] else " is false") for e in tests_here])
    for loop, tests_txt in skipped_iterations.values():
        ctx.violation("R-XSTORE", f"{FORMULATE}::for {loop.target.id} in {unparse(loop.iter)[:50]}::iteration-defines-nothing", tree.loc(loop),
                      f"formulate: an iteration of `for {loop.target.id} in {unparse(loop.iter)[:40]}` (mass symbols that remain in an alignment angle) stores the symbol neither into {par} nor into {kin}"
                      + (f" when {' and '.join(tests_txt)}" if tests_txt else ""),
                      "the symbol stays in the definition of the angle: that kinematic variable then does not depend on four-momenta and parameters only")
    if mass_loops and not skipped_iterations:
        ctx.ok("R-XSTORE", tree.loc(fn.node), f"formulate: every iteration over remaining mass symbols ({len(mass_loops)} loop(s)) stores the symbol as parameter or kinematic variable, or is taken for a symbol that already is a parameter")
    kin_stores = {id(n): n for op, which, _, n in all_ops if op == "store" and which == "kin"}
    for node in kin_stores.values():
        key = f"{FORMULATE}::{unparse(node)[:80]}::re-add"
        if id(node) in readds:
            _, dnode, dom = readds[id(node)]
            ctx.violation("R-XSTORE", key, tree.loc(node),
                          f"formulate: `{unparse(node)[:60]}` can put back a symbol that `{unparse(dnode)}` removed for each element of `{dom}` (those masses are parameters)",
                          f"on a path that executed the removal, no test in the iteration that stores mentions `{dom}` or tests the key itself against {par}")
        else:
            ctx.ok("R-XSTORE", tree.loc(node), f"formulate: `{unparse(node)[:60]}` - every path that removed a family of mass symbols guards the store by that family's domain")
    check_key_types(ctx, tree, fn, maps, rd)
    # formulate removes keys from / adds keys to the kinematic variables IN PLACE: the mapping must be its own
    # (a fresh object per call), or the parameters of one model leak into the kinematic variables of the next
    mutations = [n for op, which, _, n in all_ops if which == "kin"]
    if mutations and maps.kin[0] == "local":
        origin = [d for d in rd.defs if d.name == maps.kin[1] and d.kind == "assign" and d.value is not None and d.index is None]
        fkey = f"{FORMULATE}::kinematic-variables-shared"
        if len(origin) != 1:
            undecided.append(f"where the kinematic variables `{kin}` (modified in place) come from: {len(origin)} definitions")
        else:
            how, why = _freshness(tree, fn, origin[0].value)
            if how == "shared":
                ctx.violation("R-XSTORE", fkey, tree.loc(origin[0].node), f"formulate modifies the kinematic variables in place (`{unparse(mutations[0])[:50]}`), but `{unparse(origin[0].value)[:50]}` does not create them: {why}",
                              "keys removed for one configuration (masses that became parameters) stay removed for every later formulate() of the same builder")
            elif how == "unknown":
                undecided.append(f"whether `{unparse(origin[0].value)[:50]}` creates a new mapping per call ({why})")
            else:
                ctx.ok("R-XSTORE", tree.loc(origin[0].node), f"formulate modifies the kinematic variables in place; `{unparse(origin[0].value)[:50]}` creates them per call ({why})")
    for nid, (a, b) in conflicts.items():
        if nid not in par_sites:
            ctx.violation("R-XSTORE", f"{FORMULATE}::{unparse(b)[:80]}::both", tree.loc(b), f"formulate: `{unparse(a)[:60]}` and `{unparse(b)[:60]}` on one path")
    if undecided:
        raise AnalysisError("R-XSTORE cannot decide: " + " | ".join(sorted(set(undecided)))[:600])


def _self_paths(e: ast.AST) -> set[str]:
    """The attribute paths `self.a.b` (two levels or more, not a method that is called) an expression mentions."""
    out: set[str] = set()
    for a in ast.walk(e):
        if isinstance(a, ast.Attribute) and not isinstance(getattr(a, "_parent", None), ast.Attribute):
            root = a
            while isinstance(root, ast.Attribute):
                root = root.value
            if isinstance(root, ast.Name) and root.id == "self" and unparse(a).count(".") >= 2 and not (isinstance(getattr(a, "_parent", None), ast.Call) and a._parent.func is a):  # type: ignore[attr-defined]
                out.add(unparse(a))
    return out


def _skip_test_kind(test: ast.AST, var: str, rd: RD) -> str:
    """'recogniser': only isinstance(var, ..) / var.name.startswith(..) / var.is_<assumption> (and their negations /
    conjunctions); 'length': only comparisons of len(<anything>) with integer constants; 'other' otherwise."""
    def atoms(e: ast.AST) -> list[ast.AST]:
        if isinstance(e, ast.UnaryOp) and isinstance(e.op, ast.Not):
            return atoms(e.operand)
        if isinstance(e, ast.BoolOp):
            return [a for v in e.values for a in atoms(v)]
        return [e]

    def recogniser(a: ast.AST) -> bool:
        if isinstance(a, ast.Call) and isinstance(a.func, ast.Name) and a.func.id == "isinstance" and a.args and isinstance(a.args[0], ast.Name) and a.args[0].id == var:
            return True
        if isinstance(a, ast.Call) and isinstance(a.func, ast.Attribute) and a.func.attr in {"startswith", "endswith"} and unparse(a.func.value) == f"{var}.name":
            return True
        return isinstance(a, ast.Attribute) and isinstance(a.value, ast.Name) and a.value.id == var and a.attr.startswith("is_")

    def length(a: ast.AST) -> bool:
        if not (isinstance(a, ast.Compare) and len(a.ops) == 1):
            return False
        sides = [a.left, a.comparators[0]]
        return any(isinstance(x, ast.Call) and isinstance(x.func, ast.Name) and x.func.id == "len" for x in sides) and any(isinstance(x, ast.Constant) and type(x.value) is int for x in sides)

    parts = atoms(test)
    # a name that stands for such a test (`is_mass = isinstance(..) and ..`): its single definition
    expanded = []
    for a in parts:
        if isinstance(a, ast.Name) and isinstance(a.ctx, ast.Load):
            defs = rd.reaching(a)
            if len(defs) == 1 and next(iter(defs)).kind == "assign" and next(iter(defs)).value is not None and next(iter(defs)).index is None:
                expanded += atoms(next(iter(defs)).value)
                continue
        expanded.append(a)
    if expanded and all(recogniser(a) for a in expanded):
        return "recogniser"
    if expanded and all(length(a) for a in expanded):
        return "length"
    return "other"


def _roots(e: ast.AST, rd: RD) -> set[str]:
    """What a condition / loop domain is about: the `self.a.b` paths it mentions, the locals it reads (by name) and the
    `self.a.b` paths those locals were computed from (plain bindings only)."""
    out = _self_paths(e)
    for n in ast.walk(e):
        if isinstance(n, ast.Name) and isinstance(n.ctx, ast.Load) and n.id != "self":
            defs = rd.reaching(n)
            if any(d.kind in {"assign", "for", "comp"} for d in defs):
                out.add(f"<local {n.id}>")
            for d in _plain_closure(rd, defs):
                if d.value is not None:
                    out |= _self_paths(d.value)
    return out


def _guarded_against(tree: Tree, fn: FuncInfo, tests: list[tuple], domain: ast.AST, maps: _Maps, key: ast.Name, rd: RD) -> bool | None:
    """Does one of the tests evaluated in this iteration exclude the removed family?  True: a test mentions the
    family's domain expression, a local bound to it, or any value that data-derives from it (reaching-definition
    closure); or it is a membership test of the key itself (the symbol, not a property of it) in the parameter
    mapping.  False: no test does.  None (cannot decide): a test calls a function of the package (not spliced in)
    on the key or on data derived from it - what it tests is not read."""
    # the domain and what it was computed from: `stable = {symbol(i): ... for i in self.config.stable_final_state_ids}`
    # iterated as `stable.items()` is the family of `self.config.stable_final_state_ids` (only what selects the
    # ELEMENTS counts: the generators and keys of a comprehension, not the values stored with them)
    def selectors(e: ast.AST) -> list[ast.AST]:
        if isinstance(e, ast.DictComp):
            return [e.key, *[g.iter for g in e.generators], *[c for g in e.generators for c in g.ifs]]
        if isinstance(e, (ast.ListComp, ast.SetComp, ast.GeneratorExp)):
            return [e.elt, *[g.iter for g in e.generators], *[c for g in e.generators for c in g.ifs]]
        if isinstance(e, ast.Dict):
            return [k for k in e.keys if k is not None]
        return [e]

    roots = {unparse(domain)}
    for src in [domain, *[d.value for d in _plain_closure(rd, rd.uses(domain)) if d.value is not None]]:
        for part in selectors(src):
            for a in ast.walk(part):
                if isinstance(a, ast.Attribute) and not isinstance(getattr(a, "_parent", None), ast.Attribute):
                    root = a
                    while isinstance(root, ast.Attribute):
                        root = root.value
                    if isinstance(root, ast.Name) and root.id == "self" and unparse(a).count(".") >= 2 and not (isinstance(getattr(a, "_parent", None), ast.Call) and a._parent.func is a):  # type: ignore[attr-defined]
                        roots.add(unparse(a))

    def mentions(e: ast.AST) -> bool:
        return any(isinstance(m, (ast.Attribute, ast.Name, ast.Call, ast.Subscript)) and unparse(m) in roots for m in ast.walk(e))

    key_defs = rd.reaching(key)
    opaque = False
    for _, test, _ in tests:
        if mentions(test):
            return True
        if any(d.value is not None and mentions(d.value) for d in _plain_closure(rd, rd.uses(test))):
            return True
        # the test reads a value that a helper of the package computed from the key (`expr = self.__define(symbol); if expr
        # is not None:`): what the helper decided is not read here
        for d in _plain_closure(rd, rd.uses(test)):
            if d.value is not None:
                for c_ in ast.walk(d.value):
                    if isinstance(c_, ast.Call) and hasattr(c_, "_module") and tree.callee(c_, fn) in tree.funcs and any(isinstance(a, ast.Name) and maps.key(a) == maps.key(key) for a in ast.walk(c_)):
                        opaque = True
        for n in ast.walk(test):
            if isinstance(n, ast.Compare) and len(n.ops) == 1 and isinstance(n.ops[0], (ast.In, ast.NotIn)):
                if isinstance(n.left, ast.Name) and maps.key(n.left) == maps.key(key) and maps.ident(n.comparators[0]) == maps.par:
                    return True
            if isinstance(n, ast.Call) and hasattr(n, "_module") and tree.callee(n, fn) in tree.funcs:
                used = rd.closure(rd.uses(n))
                if used & key_defs or any(isinstance(a, ast.Name) and maps.key(a) == maps.key(key) for a in ast.walk(n)):
                    opaque = True
    return None if opaque else False


def _plain_closure(rd: RD, defs, depth: int = 4) -> set:
    """Definitions a value is COMPUTED from through plain bindings (assignments, loop / comprehension variables):
    not through containers that were updated in place (a mapping that received a key is not "derived from" it)."""
    seen: set = set()
    todo = [(d, 0) for d in defs]
    while todo:
        d, k = todo.pop()
        if d in seen or d.kind not in {"assign", "for", "comp"}:
            continue
        seen.add(d)
        if k < depth:
            todo += [(x, k + 1) for x in d.deps]
    return seen


def _object_defs(rd: RD, name: ast.Name) -> set:
    """The definitions that CREATE the object(s) a name refers to: in-place updates (`x[k] = v`, `x.update(..)`)
    are followed back to the binding they update."""
    out, seen = set(), set()
    todo = list(rd.reaching(name))
    while todo:
        d = todo.pop()
        if d in seen:
            continue
        seen.add(d)
        if d.kind in {"store", "aug"}:
            todo += [x for x in d.deps if x.name == d.name]
        else:
            out.add(d)
    return out


_FRESH_CALLS = {"dict", "OrderedDict", "defaultdict", "copy", "deepcopy", "ChainMap", "Counter"}


def _freshness(tree: Tree, fn: FuncInfo, e: ast.AST, depth: int = 0) -> tuple[str, str]:
    """("fresh" | "shared" | "unknown", why) for the mapping an expression of ``fn`` evaluates to."""
    if isinstance(e, (ast.Dict, ast.DictComp)):
        return "fresh", "a display"
    if isinstance(e, ast.IfExp):
        alts = [_freshness(tree, fn, x, depth) for x in (e.body, e.orelse)]
        return next((a for a in alts if a[0] == "shared"), next((a for a in alts if a[0] == "unknown"), alts[0]))
    if isinstance(e, ast.BinOp) and isinstance(e.op, ast.BitOr):
        return "fresh", "a merged mapping"
    if isinstance(e, ast.Attribute):
        root = e
        while isinstance(root, (ast.Attribute, ast.Subscript)):
            root = root.value
        if isinstance(root, ast.Name) and root.id in {"self", "cls"}:
            return "shared", f"`{unparse(e)}` is state of the object"
        return "unknown", f"`{unparse(e)[:40]}`"
    if isinstance(e, ast.Name):
        rd = RD(fn.node) if fn.outer is None else None
        if rd is None:
            return "unknown", "nested function"
        defs = _object_defs(rd, e)
        if not defs:
            return "shared", f"`{e.id}` is a module-level object"
        verdicts = []
        for d in defs:
            if d.kind == "assign" and d.value is not None and d.index is None:
                verdicts.append(_freshness(tree, fn, d.value, depth))
            else:
                verdicts.append(("unknown", f"`{d.name}` is a {d.kind}"))
        return next((a for a in verdicts if a[0] == "shared"), next((a for a in verdicts if a[0] == "unknown"), verdicts[0]))
    if isinstance(e, ast.Call):
        f = e.func
        name = f.id if isinstance(f, ast.Name) else f.attr if isinstance(f, ast.Attribute) else ""
        callee = tree.callee(e, fn) if hasattr(e, "_module") else None
        g = tree.funcs.get(callee) if callee else None
        if g is None and callee in tree.classes:
            return "fresh", "a new object"
        if g is None:
            if name in _FRESH_CALLS:
                return "fresh", f"{name}(...)"
            return "unknown", f"`{unparse(e)[:40]}` is not a function of the package"
        if depth >= 3:
            return "unknown", f"{g.qual}: too deep"
        rets = [n for n in walk_function(g.node, nested=False) if isinstance(n, ast.Return)]
        if not rets or any(r.value is None for r in rets):
            return "unknown", f"{g.qual} does not always return a value"
        verdicts = [_freshness(tree, g, r.value, depth + 1) for r in rets]
        return next((a for a in verdicts if a[0] == "shared"), next((a for a in verdicts if a[0] == "unknown"), verdicts[0]))
    return "unknown", f"`{unparse(e)[:40]}`"


def check_key_types(ctx: Check, tree: Tree, fn: FuncInfo, maps: _Maps, rd: RD) -> None:
    """R-KEYTYPE: the parameter and kinematic-variable mappings are keyed by symbols; a lookup
    with a `str` (`.name`, an f-string, a literal, `str(...)` - directly or through a local bound once) never
    matches and silently takes the 'absent' branch."""
    n_sites = 0
    inl = Inliner(fn.node, rd)

    def is_mapping(e: ast.AST) -> bool:
        return isinstance(e, (ast.Name, ast.Attribute)) and maps.ident(e) in (maps.par, maps.kin)

    for n in walk_function(fn.node):
        key = None
        if isinstance(n, ast.Compare) and len(n.ops) == 1 and isinstance(n.ops[0], (ast.In, ast.NotIn)) and is_mapping(n.comparators[0]):
            key = n.left
        elif isinstance(n, ast.Subscript) and is_mapping(n.value):
            key = n.slice
        elif isinstance(n, ast.Call) and isinstance(n.func, ast.Attribute) and n.func.attr in {"get", "pop", "setdefault", "__contains__", "__getitem__", "__setitem__", "__delitem__"} and is_mapping(n.func.value) and n.args:
            key = n.args[0]
        if key is None:
            continue
        n_sites += 1
        shown = key
        if isinstance(key, ast.Name):
            key = inl.expr(key)
        is_str = isinstance(key, ast.JoinedStr) or (isinstance(key, ast.Constant) and isinstance(key.value, str)) or (isinstance(key, ast.Attribute) and key.attr == "name") \
            or (isinstance(key, ast.Call) and isinstance(key.func, ast.Name) and key.func.id in {"str", "repr"})
        if is_str:
            ctx.violation("R-KEYTYPE", f"{FORMULATE}::{unparse(n)[:80]}", tree.loc(n), f"formulate: `{unparse(n)[:70]}` looks up a str in a mapping keyed by symbols - it never matches",
                          None if shown is key else f"`{unparse(shown)}` is `{unparse(key)[:60]}`")
    ctx.stats["symbol_keyed_lookups"] = n_sites
    if n_sites < 3:
        raise AnalysisError(f"{FORMULATE}: only {n_sites} lookups into the symbol-keyed mappings (5+ confirmed)")
    ctx.ok("R-KEYTYPE", tree.loc(fn.node), f"formulate: {n_sites} lookups into {sorted({maps.par_text, maps.kin_text})} all use symbol-valued keys")


def _may_be_in(maps: _Maps, key: ast.AST, rd: RD) -> bool:
    """Can the kinematic-variable mapping already contain this key?  Not if the key was
    taken from the free symbols of an expression into which the mapping was substituted."""
    def substituted(e: ast.AST) -> bool:
        return any(isinstance(c, ast.Call) and isinstance(c.func, ast.Attribute) and c.func.attr in {"xreplace", "subs"} and c.args
                   and isinstance(c.args[0], (ast.Name, ast.Attribute)) and maps.ident(c.args[0]) == maps.kin for c in ast.walk(e))

    for d in rd.closure(rd.uses(key)):
        if d.value is not None:
            if any(isinstance(a, ast.Attribute) and a.attr == "free_symbols" for a in ast.walk(d.value)):
                # ... of an expression that went through .xreplace(<kin>)
                if substituted(d.value):
                    return False
                for d2 in rd.closure(rd.uses(d.value)):
                    if d2.value is not None and substituted(d2.value):
                        return False
    return True


# --------------------------------------------------------------------------- R-CREATE


def _is_param_mapping(e: ast.AST) -> bool:
    return "parameter_defaults" in unparse(e)


def _stores_into_parameters(st: ast.AST) -> list[tuple[ast.AST, ast.AST | None, ast.AST]]:
    """[(key expression, value expression | None, node)] of the stores into a `...parameter_defaults` mapping that one
    statement performs: `P[k] = v`, `P.__setitem__(k, v)`, `P.setdefault(k, v)`, `P.update({k: v})`."""
    out = []
    if isinstance(st, (ast.Assign, ast.AnnAssign)):
        for t in (st.targets if isinstance(st, ast.Assign) else [st.target]):
            if isinstance(t, ast.Subscript) and _is_param_mapping(t.value):
                out.append((t.slice, st.value, st))
    for n in ast.walk(st):
        if isinstance(n, ast.Call) and isinstance(n.func, ast.Attribute) and _is_param_mapping(n.func.value):
            if n.func.attr in {"setdefault", "__setitem__"} and n.args:
                out.append((n.args[0], n.args[1] if len(n.args) > 1 else None, st))
            elif n.func.attr == "update" and len(n.args) == 1 and isinstance(n.args[0], ast.Dict):
                out += [(k, v, st) for k, v in zip(n.args[0].keys, n.args[0].values) if k is not None]
    return out


def _enclosing(node: ast.AST, stop: ast.AST) -> list[ast.AST]:
    return [a for a in _anc_until(node, stop) if isinstance(a, (ast.If, ast.For, ast.While, ast.Try, ast.With, ast.AsyncFor))]


def _symbol_flow(tree: Tree, gf: FuncInfo, rd: RD, producers: list[ast.AST]) -> dict:
    """What the effective function ``gf`` does with the value of the ``producers`` (expressions that evaluate to a
    freshly created symbol): stored as a key of the parameter defaults (unconditionally w.r.t. its creation?),
    returned, handed to a function of the package that is still a call."""
    bound: set = set()
    changed = True

    def is_sym(e: ast.AST) -> bool:
        if any(e is p for p in producers):
            return True
        if isinstance(e, ast.Name) and isinstance(e.ctx, ast.Load):
            r = rd.reaching(e)
            return bool(r) and r <= bound
        return False

    while changed:
        changed = False
        for d in rd.defs:
            if d not in bound and d.kind == "assign" and d.index is None and d.value is not None and is_sym(d.value):
                bound.add(d)
                changed = True
    flow = {"stored": [], "conditional": [], "returned": [], "passed": []}
    stmt_of = {}
    for st in walk_function(gf.node):
        if isinstance(st, ast.stmt) and not isinstance(st, (ast.If, ast.For, ast.While, ast.Try, ast.With, ast.FunctionDef)):
            for n in ast.walk(st):
                stmt_of.setdefault(id(n), st)
    created_at = [stmt_of.get(id(p)) for p in producers]
    for st in {id(s): s for s in stmt_of.values()}.values():
        for key, _, node in _stores_into_parameters(st):
            if not is_sym(key):
                continue
            outer = [a for a in _enclosing(node, gf.node) if not any(c is not None and any(x is a for x in _enclosing(c, gf.node)) for c in created_at)]
            membership_only = all(isinstance(a, ast.If) and isinstance(a.test, ast.Compare) and len(a.test.ops) == 1 and isinstance(a.test.ops[0], (ast.In, ast.NotIn))
                                  and is_sym(a.test.left) and _is_param_mapping(a.test.comparators[0]) for a in outer)
            flow["stored" if not outer or membership_only else "conditional"].append(node)
        if isinstance(st, ast.Return) and st.value is not None:
            vals = st.value.elts if isinstance(st.value, ast.Tuple) else [st.value]
            if any(is_sym(v) for v in vals):
                flow["returned"].append(st)
        for n in ast.walk(st):
            if isinstance(n, ast.Call) and hasattr(n, "_module") and not any(n is p for p in producers):
                callee = tree.callee(n, gf)
                if callee in tree.funcs and any(is_sym(a) for a in [*n.args, *[k.value for k in n.keywords]]):
                    flow["passed"].append(n)
    return flow


def _registered(tree: Tree, reader, q: str, positions: set, via: set[str], depth: int = 0) -> tuple[str, str]:
    """("ok" | "violation" | "undecided", why): is the symbol constructed at ``positions`` (source positions of the
    constructor calls) - or returned unregistered by a function in ``via`` - registered as a parameter by the
    effective function ``q``, or by every function it is returned to?"""
    gf = flatten(tree, tree.func(q))
    rd = RD(gf.node)
    producers = []
    for n in walk_function(gf.node):
        if isinstance(n, ast.Call) and hasattr(n, "_module"):
            if (n._module.relpath, n.lineno, n.col_offset) in positions and tree.callee(n, gf) in {"sympy.Symbol", "sympy.Dummy", "sympy.symbols"}:  # type: ignore[attr-defined]
                producers.append(n)
            elif tree.callee(n, gf) in via:
                producers.append(n)
    name = q.split(".")[-1]
    if not producers:
        return "undecided", f"{name}: the construction is not found in the effective function"
    flow = _symbol_flow(tree, gf, rd, producers)
    if flow["stored"]:
        return "ok", f"{name} stores it in parameter_defaults"
    if flow["conditional"]:
        return "undecided", f"{name}: `{unparse(flow['conditional'][0])[:60]}` registers it under a condition that is not read"
    if flow["passed"]:
        return "undecided", f"{name}: handed to `{unparse(flow['passed'][0])[:50]}`, which is not read"
    if flow["returned"]:
        fn = tree.func(q)
        callers = reader.callers(fn)
        if not reader.is_private(fn) or not callers or depth >= 3:
            return "undecided", f"{name} returns the symbol unregistered and its callers are not all known"
        results = [_registered(tree, reader, c.qual, positions, via | {q}, depth + 1) for c in {c.qual: c for c, _ in callers}.values()]
        for kind in ("violation", "undecided"):
            hit = next((r for r in results if r[0] == kind), None)
            if hit:
                return hit
        return "ok", f"every caller of {name} registers it ({results[0][1]})"
    return "violation", f"{name} neither stores the created symbol in parameter_defaults nor returns it"


def check_create(ctx: Check, tree: Tree) -> None:
    """R-CREATE, three-valued.  Anchors are the SYMBOLS (`C_{...}` coefficients, `H_{...}` couplings), not function
    names: wherever the builder constructs one, the effective function stores it as a key of the parameter defaults,
    or returns it to functions that all do."""
    from ..rules import _name_reader

    reader = _name_reader(tree)
    sites = [s for s in symbol_sites(tree, [BUILDER + "."]) if s["skeleton"] and re.match(r"[CH]_\{", s["skeleton"])]
    undecided: list[str] = []
    for prefix, what in (("C_", "amplitude coefficients"), ("H_", "helicity couplings")):
        if not any(s["skeleton"].startswith(prefix) for s in sites):
            undecided.append(f"no construction of a `{prefix}{{...}}` symbol ({what}) was read in {BUILDER.split('::')[-1]}")
    by_fn: dict[str, set] = {}
    for s in sites:
        n = s["node"]
        by_fn.setdefault(s["fn"], set()).add((n._module.relpath, n.lineno, n.col_offset))
    # a shared factory (`__register_unit_parameter(name)`) is one site with several names: judged once
    for q, positions in sorted(by_fn.items()):
        fn = tree.func(q)
        kind, why = _registered(tree, reader, q, positions, set())
        families = sorted({s["skeleton"] for s in sites if s["fn"] == q})
        what = f"{fn.name}: the created symbol ({', '.join(families)}) is stored in parameter_defaults and returned"
        if kind == "undecided":
            undecided.append(why)
        else:
            ctx.verdict(kind == "ok", "R-CREATE", f"{fn.qual}::registered", tree.loc(fn.node), what, None if kind == "ok" else why)
    _check_builder_parameters(ctx, tree, undecided)
    if undecided:
        raise AnalysisError("R-CREATE cannot decide: " + " | ".join(undecided)[:600])


_DYNAMICS = re.compile(r"\bself\.(_\w*)?dynamics\b")


def _check_builder_parameters(ctx: Check, tree: Tree, undecided: list[str]) -> None:
    """The parameters a dynamics builder suggests (`expression, parameters = builder(...)`, builder taken from
    `self.dynamics`) are all registered, and they are the ones THIS call of the builder returned (registered where
    they are created - not read back from a table that outlives the call)."""
    builder = tree.cls(BUILDER)
    judged = False
    loose: list[tuple] = []
    for m in builder.methods.values():
        gf = flatten(tree, m)  # the registration loop may live in a private helper
        # the same statements spliced into a caller's effective function are judged where they are written
        own_lines = {getattr(n, "lineno", -1) for n in walk_function(m.node) if isinstance(n, ast.stmt)}
        rd = RD(gf.node)
        inl = Inliner(gf.node, rd)

        def is_builder_call(e: ast.AST) -> bool:
            return isinstance(e, ast.Call) and bool(_DYNAMICS.search(unparse(inl.expr(e.func))))

        def source(e: ast.AST) -> tuple[str, str] | None:
            """("builder" | "memo", text) if ``e`` is element 1 of what a dynamics builder returned"""
            if not isinstance(e, ast.Name):
                return None
            if not any(getattr(d.node, "lineno", -1) in own_lines for d in rd.reaching(e)):
                return None  # written in another function (this one was spliced into a caller): judged there
            x = inl.expr(e)
            if not (isinstance(x, ast.Subscript) and isinstance(x.slice, ast.Constant) and x.slice.value == 1):
                return None
            base = x.value
            if isinstance(base, ast.Call) and _DYNAMICS.search(unparse(base.func)):
                return "builder", unparse(base)[:60]
            if isinstance(base, ast.Subscript):
                table = unparse(base.value)
                for st in walk_function(gf.node):
                    if isinstance(st, ast.Assign) and isinstance(st.targets[0], ast.Subscript) and unparse(inl.expr(st.targets[0].value)) == table and is_builder_call(st.value):
                        return "memo", table
            return None

        key = f"{gf.qual}::registers-builder-parameters"
        what = f"{m.name} registers every parameter suggested by the dynamics builder (unconditionally)"
        ok_sites, conditional, memo = [], [], []
        for n in walk_function(gf.node):
            # P.update(parameters) / P |= parameters
            cand = None
            if isinstance(n, ast.Call) and isinstance(n.func, ast.Attribute) and n.func.attr == "update" and _is_param_mapping(n.func.value) and len(n.args) == 1:
                cand = n.args[0]
            if isinstance(n, ast.AugAssign) and isinstance(n.op, ast.BitOr) and _is_param_mapping(n.target):
                cand = n.value
            if cand is not None and source(cand):
                if source(cand)[0] == "memo":
                    memo.append((n, source(cand)[1]))
                else:
                    (conditional if _enclosing(n, gf.node) else ok_sites).append(n)
            if isinstance(n, ast.For):
                it = n.iter
                if isinstance(it, ast.Call) and isinstance(it.func, ast.Name) and it.func.id in {"sorted", "list", "tuple"} and it.args:
                    it = it.args[0]
                over_items = isinstance(it, ast.Call) and isinstance(it.func, ast.Attribute) and it.func.attr == "items" and isinstance(n.target, ast.Tuple) and len(n.target.elts) == 2
                mapping = it.func.value if isinstance(it, ast.Call) and isinstance(it.func, ast.Attribute) and it.func.attr in {"items", "keys"} else it
                src = source(mapping)
                if src is None:
                    continue
                if src[0] == "memo":
                    memo.append((n, src[1]))
                    continue
                k = unparse(n.target.elts[0] if over_items else n.target)
                v = unparse(n.target.elts[1]) if over_items else None
                for st in walk_function(n):
                    for key_e, val_e, node in (_stores_into_parameters(st) if isinstance(st, ast.stmt) and not isinstance(st, (ast.If, ast.For, ast.While, ast.Try, ast.With)) else []):
                        if unparse(key_e) != k:
                            continue
                        right_value = val_e is not None and (unparse(val_e) == v if over_items else (isinstance(val_e, ast.Subscript) and source(val_e.value) is not None and unparse(val_e.slice) == k))
                        if not right_value:
                            conditional.append(node)
                            continue
                        inner = [a for a in _anc_until(node, n) if isinstance(a, (ast.If, ast.For, ast.While, ast.Try, ast.With))]
                        # ... and no earlier statement of the iteration can skip it (`if ...: continue` is a condition too)
                        before = n.body[: n.body.index(node)] if node in n.body else None
                        skipped = before is None or any(isinstance(x, (ast.Continue, ast.Break, ast.Return)) for b in before for x in ast.walk(b))
                        (conditional if inner or skipped or _enclosing(n, gf.node) else ok_sites).append(node)
        if memo:
            judged = True
            ctx.violation("R-CREATE", key, tree.loc(memo[0][0]), what, f"the registered parameters are read back from the table `{memo[0][1]}` instead of being the ones this call of the builder returned: they are not registered where they are created")
        elif ok_sites:
            judged = True
            ctx.ok("R-CREATE", tree.loc(gf.node), what)
        elif conditional:
            judged = True
            ctx.violation("R-CREATE", key, tree.loc(conditional[0]), what, f"`{unparse(conditional[0])[:70]}` is conditional (or stores another value): some suggested parameters stay undefined")
        else:
            # a builder is called here, but what it suggests is not registered in a way that was read
            for d in rd.defs:
                if d.kind == "assign" and d.index == 1 and isinstance(d.value, ast.Call) and is_builder_call(d.value) and getattr(d.node, "lineno", -1) in own_lines:
                    loads = [x for x in walk_function(gf.node) if isinstance(x, ast.Name) and isinstance(x.ctx, ast.Load) and d in rd.reaching(x)]
                    loose.append((m, gf, d, loads, key, what))
    for m, gf, d, loads, key, what in loose:
        judged = True
        # where could the suggested parameters still be registered?  handed to a function of the package, returned,
        # stored away, or iterated by a loop that hands the items on; a loop that only reads them registers nothing
        escapes = []
        for x in loads:
            par = getattr(x, "_parent", None)
            if isinstance(par, ast.Call) and hasattr(par, "_module") and tree.callee(par, gf) in tree.funcs and par.func is not x:
                escapes.append(par)
            elif isinstance(par, (ast.Return, ast.Tuple, ast.Assign, ast.keyword, ast.Starred, ast.Dict, ast.Yield)):
                escapes.append(par)
            loop = next((a for a in ancestors(x) if isinstance(a, (ast.For, ast.comprehension)) and any(n is x for n in ast.walk(a.iter))), None)
            if isinstance(loop, ast.For):
                names = {n.id for n in ast.walk(loop.target) if isinstance(n, ast.Name)}
                for c in [n for st in loop.body for n in ast.walk(st) if isinstance(n, ast.Call) and hasattr(n, "_module")]:
                    if tree.callee(c, gf) in tree.funcs and any(isinstance(a, ast.Name) and a.id in names for a in ast.walk(c)):
                        escapes.append(c)
            elif loop is not None:
                escapes.append(loop.iter)
        if not escapes:
            ctx.violation("R-CREATE", key, tree.loc(d.node), what, "the mapping of suggested parameters is never stored into parameter_defaults")
        else:
            undecided.append(f"{m.name}: what happens to the parameters the dynamics builder suggests (`{unparse(escapes[0])[:50]}`) is not read")
    if not judged:
        undecided.append(f"no `expression, parameters = <builder from self.dynamics>(...)` was found in {BUILDER.split('::')[-1]}")


def _anc_until(node, stop):
    for a in ancestors(node):
        if a is stop:
            return
        yield a


def check_backsubstitution(ctx: Check, tree: Tree) -> None:
    """Clause (d), structural part: the alignment-angle definitions that become kinematic
    variables are back-substituted with the (completed) kinematic variables, so that only
    four-momenta and parameters remain.

    Three-valued: a VIOLATION needs a definition that is read and is stored without the substitution, substituted
    before the completion, or never reaches the kinematic variables; a loop / store / merge of another shape is
    "cannot decide"."""
    fn = flatten(tree, tree.func(FORMULATE))
    rd = RD(fn.node)
    maps = _Maps(fn, rd, _model_argument(tree, "parameter_defaults", fn), _model_argument(tree, "kinematic_variables", fn))
    kin = maps.kin_text
    d_defs = _alignment_definitions(rd)
    if not d_defs:
        raise AnalysisError(f"{FORMULATE}: vanished anchor: no `<alignment>.define_symbols(...)` value in the effective formulate")

    def is_defs(e: ast.AST) -> bool:
        """the mapping of alignment definitions (or a local that merely aliases it)"""
        if isinstance(e, ast.Name) and isinstance(e.ctx, ast.Load):
            r = _object_defs(rd, e)
            if r and r <= d_defs:
                return True
            if len(r) == 1:
                d = next(iter(r))
                return d.kind == "assign" and d.index is None and isinstance(d.value, ast.Name) and is_defs(d.value)
        return False

    def iterated(it: ast.AST) -> tuple[bool, bool]:
        """(iterates the definitions, as items)"""
        if isinstance(it, ast.Call) and isinstance(it.func, ast.Name) and it.func.id in {"sorted", "list", "tuple", "reversed"} and it.args:
            return iterated(it.args[0])
        if isinstance(it, ast.Call) and isinstance(it.func, ast.Attribute) and it.func.attr in {"items", "keys"} and not it.args and is_defs(it.func.value):
            return True, it.func.attr == "items"
        return is_defs(it), False

    loops = [n for n in walk_function(fn.node) if isinstance(n, ast.For) and iterated(n.iter)[0]]
    if len(loops) != 1:
        raise AnalysisError(f"{FORMULATE}: expected one loop over the alignment definitions (`define_symbols(...)`), found {len(loops)}")
    loop = loops[0]
    as_items = iterated(loop.iter)[1]
    if as_items and not (isinstance(loop.target, ast.Tuple) and len(loop.target.elts) == 2 and all(isinstance(e, ast.Name) for e in loop.target.elts)):
        raise AnalysisError(f"{FORMULATE}: the loop over the alignment definitions does not unpack (symbol, definition)")
    if not as_items and not isinstance(loop.target, ast.Name):
        raise AnalysisError(f"{FORMULATE}: the loop over the alignment definitions has no plain loop variable")
    key_name = loop.target.elts[0].id if as_items else loop.target.id  # type: ignore[union-attr]
    val_name = loop.target.elts[1].id if as_items else None  # type: ignore[union-attr]
    top_index = {}
    for i, st in enumerate(loop.body):
        for n in ast.walk(st):
            top_index[id(n)] = i
    # inner loops that complete the kinematic variables (missing mass definitions)
    completing = [i for i, st in enumerate(loop.body) if isinstance(st, (ast.For, ast.While)) and any(op == "store" and which == "kin" for x in ast.walk(st) if isinstance(x, ast.stmt) for op, which, _, _ in maps.ops(x))]
    stores = []
    for st in walk_function(loop):
        if isinstance(st, ast.Assign) and len(st.targets) == 1 and isinstance(st.targets[0], ast.Subscript) and isinstance(st.targets[0].slice, ast.Name) and st.targets[0].slice.id == key_name \
                and rd.reaching(st.targets[0].slice) and all(d.kind == "for" and d.node is loop for d in rd.reaching(st.targets[0].slice)):
            stores.append(st)
    if not stores:
        raise AnalysisError(f"{FORMULATE}: the loop over the alignment definitions stores nothing under the iterated angle symbol: where the definitions go is not understood")

    def substitution(v: ast.AST) -> bool:
        return isinstance(v, ast.Call) and isinstance(v.func, ast.Attribute) and v.func.attr in {"xreplace", "subs"} and len(v.args) == 1 and not v.keywords \
            and isinstance(v.args[0], (ast.Name, ast.Attribute)) and maps.ident(v.args[0]) == maps.kin

    def raw_definition(v: ast.AST, depth: int = 0) -> bool:
        """the definition as `define_symbols` returned it (the loop's value variable, `<definitions>[symbol]`)"""
        if isinstance(v, ast.Subscript) and is_defs(v.value) and isinstance(v.slice, ast.Name) and v.slice.id == key_name:
            return True
        if isinstance(v, ast.Name) and depth < 6:
            r = rd.reaching(v)
            return bool(r) and all((d.kind == "for" and d.node is loop and v.id == val_name) or (d.kind == "assign" and d.index is None and d.value is not None and raw_definition(d.value, depth + 1)) for d in r)
        return False

    problems: list[str] = []
    undecided: list[str] = []
    targets = []
    for st in stores:
        val = st.value
        targets.append(st.targets[0].value)
        # (value, statement that computes it): the definitions of the stored name, or the stored expression itself
        computed = [(d.value, d.node) for d in rd.reaching(val)] if isinstance(val, ast.Name) else [(val, st)]
        if not computed:
            undecided.append(f"the stored value `{unparse(val)[:40]}` has no definition")
            continue
        if all(v is not None and substitution(v) for v, _ in computed):
            # ... and it is computed after the loop that completes the kinematic variables
            positions = [top_index[id(at)] for _, at in computed if id(at) in top_index]
            if len(positions) != len(computed):
                undecided.append(f"`{unparse(val)[:40]}` is computed outside the loop over the definitions")
            elif completing and min(positions) < max(completing):
                problems.append("the substitution happens before the missing mass definitions are added")
        elif all(v is not None and raw_definition(v) for v, _ in computed):
            problems.append(f"the stored definition `{unparse(val)}` is not `<angle expression>.xreplace({kin})`")
        else:
            undecided.append(f"the stored value `{unparse(val)[:50]}` is neither `<definition>.xreplace({kin})` nor the definition itself")
    # the mapping that receives the back-substituted definitions reaches the kinematic variables
    for tgt in targets:
        if maps.ident(tgt) == maps.kin:
            continue  # stored into the kinematic variables directly
        if not isinstance(tgt, ast.Name):
            undecided.append(f"the definitions are stored into `{unparse(tgt)[:40]}`")
            continue
        def is_target(e: ast.AST, t_name=tgt.id) -> bool:
            if not (isinstance(e, ast.Name) and isinstance(e.ctx, ast.Load)):
                return False
            if maps.ident(e) == ("local", t_name):
                return True
            r = rd.reaching(e)
            return len(r) == 1 and next(iter(r)).kind == "assign" and isinstance(next(iter(r)).value, ast.Name) and is_target(next(iter(r)).value)

        after = [n for n in walk_function(fn.node) if getattr(n, "lineno", 0) and not any(a is loop for a in ancestors(n)) and n is not loop]
        merged = [n for n in after if isinstance(n, ast.Call) and isinstance(n.func, ast.Attribute) and n.func.attr == "update" and maps.ident(n.func.value) == maps.kin and len(n.args) == 1 and is_target(n.args[0])]
        merged += [n for n in after if isinstance(n, ast.AugAssign) and isinstance(n.op, ast.BitOr) and maps.ident(n.target) == maps.kin and is_target(n.value)]
        if len(merged) == 1:
            order = [n for n in walk_function(fn.node) if n is loop or n is merged[0]]
            if order and order[0] is not loop:
                problems.append("the alignment definitions are merged into the kinematic variables before they are back-substituted")
            continue
        if len(merged) > 1:
            undecided.append("the back-substituted definitions are merged more than once")
            continue
        # not merged by `update`: is the mapping used at all after the loop?
        later_uses = [n for n in walk_function(fn.node) if isinstance(n, ast.Name) and isinstance(n.ctx, ast.Load) and is_target(n) and not any(a is loop for a in ancestors(n))
                      and _after(fn.node, loop, n)]
        if later_uses:
            undecided.append(f"how `{unparse(getattr(later_uses[0], '_parent', later_uses[0]))[:60]}` brings the back-substituted definitions into the kinematic variables is not understood")
        else:
            problems.append("the alignment definitions are not merged into the kinematic variables")
    if undecided and not problems:
        raise AnalysisError(f"{FORMULATE}: R-BACKSUB cannot decide: " + " | ".join(undecided)[:500])
    ctx.verdict(not problems, "R-BACKSUB", f"{FORMULATE}::alignment-backsubstitution", tree.loc(loop),
                "formulate: every alignment angle definition is stored as <definition>.xreplace(kinematic_variables) after the missing mass variables were added, then merged into the kinematic variables", problems or None)


def _alignment_definitions(rd: RD) -> set:
    """The definitions `x = <alignment>.define_symbols(...)` of a function."""
    return {d for d in rd.defs if d.kind == "assign" and d.index is None and isinstance(d.value, ast.Call) and isinstance(d.value.func, ast.Attribute) and d.value.func.attr == "define_symbols"}


def _after(fn_node: ast.AST, first: ast.AST, second: ast.AST) -> bool:
    """Does ``second`` come after (and outside) the statement ``first`` in the body of the function?"""
    seen = False
    for n in walk_function(fn_node):
        if n is first:
            seen = True
        elif n is second:
            return seen
    return False


def check_same_topology(ctx: Check, tree: Tree) -> None:
    """R-SAMETOPOLOGY: the symbols an alignment / adapter *defines* are produced by loops over
    (topology, state id); an id that was read from one topology object and is combined with another
    selects the wrong (or no) states for every further topology - the amplitude then uses symbols
    that nobody defines ("never neither")."""
    from ..rules import topology_mismatches

    bad, n_calls = topology_mismatches(tree, ("ampform.helicity", "ampform.kinematics"))
    if n_calls < 30:
        raise AnalysisError(f"only {n_calls} calls with a leading `topology` argument found (63 confirmed)")
    for b in bad:
        fn = b["fn"]
        ctx.violation("R-SAMETOPOLOGY", f"{fn.qual}::{unparse(b['call'].func)}::{unparse(b['other'])[:30]}", tree.loc(b["call"]),
                      f"{fn.qual}: `{unparse(b['call'])[:70]}` combines `{unparse(b['arg'])[:30]}`, computed from `{unparse(b['other'])[:40]}` (via `{unparse(b['via'])[:50]}`), with the topology `{unparse(b['topology'])[:30]}`",
                      "state / node ids are only meaningful for the topology they were read from")
    if not bad:
        ctx.ok("R-SAMETOPOLOGY", "src/ampform", f"{n_calls} calls f(topology, ..., ids): every id argument was computed from the same topology value that is passed along")


def run(ctx: Check, tree: Tree) -> None:
    ctx.decided += [
        "R-ALIGNOPT (three-valued): define_symbols of a spin alignment reads every configuration field that its formulate_amplitude reads (otherwise undecided, never a pass)",
        'R-XSTORE (re-add): a family of mass symbols removed from the kinematic variables is not put back by a later store on a path that removed it',
        'R-KEYTYPE: lookups into the symbol-keyed parameter / kinematic-variable mappings never use a str key',
        "R-BACKSUB: alignment-angle definitions are back-substituted with the completed kinematic variables before they become kinematic variables (structural part of clause d)",
        "R-SAMETOPOLOGY: ids combined with a topology were computed from that same topology (alignments, adapter, builder)",
        "R-NORMALISED: the builder requests the angle symbols of the helicity state chosen by the same predicate (is_opposite_helicity_state) that the adapter uses when it names what it defines",
        "R-KINDOMAIN: the topologies of the identical-particle permutations for which amplitudes are formulated are registered in the adapter that produces the kinematic variables",
        "R-DOMAIN: some store into the amplitude table handed to HelicityModel is keyed from the summation domain of the intensity (or the consumer defaults leftover amplitude symbols)",
        "R-SYMPAIR: every symbol family that is constructed at several sites of helicity/kinematics agrees in kind and assumptions; single producers stay single; Wigner-angle suffixes come from get_helicity_suffix",
        "R-XSTORE: on every path through formulate a mass symbol stored as parameter is removed from / cannot be in the kinematic variables",
        "R-CREATE: coefficient, coupling and builder parameters are registered where they are created",
        "R-RECURSE: compute_helicity_angles merges the angles of every sub-decay (descent iff the child decays further), so the angle symbols of nested decays are defined",
    ]
    ctx.not_decided += [
        "kinematic-variable expressions depend on four-momenta only after inserting defaults (value level)",
        "symbols introduced by custom dynamics builders or custom alignments",
    ]
    ctx.assumptions += ["SymPy symbols with equal names and different assumptions are different objects", "HelicityAdapter.create_expressions defines every invariant-mass symbol of the registered topologies"]
    ctx.section(check_domain, ctx, tree)
    ctx.section(check_alignment_options, ctx, tree)
    ctx.section(check_kinematic_domain, ctx, tree)
    ctx.section(check_sympairs, ctx, tree)
    ctx.section(check_xstore, ctx, tree)
    ctx.section(check_create, ctx, tree)
    ctx.section(check_backsubstitution, ctx, tree)
    ctx.section(check_same_topology, ctx, tree)
    from .c02 import check_amplitude_stored

    ctx.section(check_amplitude_stored, ctx, tree)  # the amplitude symbols of the intensity get their definition
    # the builder asks for the angle symbols of children[0]; the adapter names what it defines after
    # the helicity state chosen with is_opposite_helicity_state: both must be the same convention
    from .c04 import check_normalised

    ctx.section(check_normalised, ctx, tree)
    from .c04 import check_topology_helpers

    ctx.section(check_topology_helpers, ctx, tree)
    # the adapter defines the angle symbols of EVERY sub-decay: compute_helicity_angles descends into a child iff it
    # decays further (a skipped sub-decay leaves its phi / theta symbols without definition - "never neither")
    from .c07 import check_recursion_shape

    ctx.section(check_recursion_shape, ctx, tree)
