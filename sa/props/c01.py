"""C01 - every symbol of a model is defined: parameter xor kinematic variable.

R-DOMAIN   the amplitude table handed to HelicityModel covers the summation domain of the
           intensity (the cartesian product of the per-state spin projection pools).
R-SYMPAIR  symbols that are re-created at a consumer instead of being passed are constructed
           identically (name skeleton family, kind, assumptions) at every site.
R-XSTORE   on every path through formulate a symbol is stored in at most one of
           parameter_defaults / kinematic_variables.
R-CREATE   coefficient / coupling symbols are registered as parameters where they are created.

The rules that are anchored on one function (formulate, __formulate_dynamics, ...) read its *effective*
body (sa/inline.py E3b ``flatten``): private helpers whose value is discarded are spliced back in, single
``return E`` helpers are substituted, and locals that merely alias ``self.<path>`` are replaced by the path.
"""

from __future__ import annotations

import ast
import re

from ..dataflow import RD
from ..inline import flatten
from ..loader import AnalysisError, FuncInfo, Tree, ancestors, unparse, walk_function
from ..paths import PathWalker
from ..report import Check
from ..rules import symbol_sites

PID = "C01"
BUILDER = "ampform.helicity::HelicityAmplitudeBuilder"
FORMULATE = f"{BUILDER}.formulate"
COLLECT = "ampform.helicity.naming::collect_spin_projections"
MODEL = "ampform.helicity::HelicityModel"


# --------------------------------------------------------------------------- R-DOMAIN


def _callers(tree: Tree, target: FuncInfo) -> list[tuple[FuncInfo, ast.Call]]:
    out = []
    for q, fn in tree.funcs.items():
        if not q.startswith("ampform.helicity"):
            continue
        for call, callee in tree.calls_in(fn, nested=False):
            if callee == target.qual:
                out.append((fn, call))
    return out


DOMAIN_MARK = {"callee": COLLECT}


def _is_intensity_poolsum(tree: Tree, fn: FuncInfo, call: ast.Call) -> bool:
    """A PoolSum whose pools derive from collect_spin_projections: the intensity."""
    old = DOMAIN_MARK["callee"]
    DOMAIN_MARK["callee"] = COLLECT
    try:
        return derives_from_domain(tree, fn, call) is not None
    finally:
        DOMAIN_MARK["callee"] = old


def derives_from_domain(tree: Tree, fn: FuncInfo, expr: ast.AST, depth: int = 0, seen=None) -> str | None:
    """Does ``expr`` (inside ``fn``) data-derive from collect_spin_projections(...) - directly
    or through a parameter that some caller binds to such a value (depth <= 3)?"""
    seen = seen if seen is not None else set()
    if (fn.qual, ast.dump(expr)) in seen or depth > 3:
        return None
    seen.add((fn.qual, ast.dump(expr)))
    rd = RD(fn.node) if fn.outer is None else RD(fn.node)
    closure = rd.closure(rd.uses(expr))
    exprs = [expr] + [d.value for d in closure if d.value is not None]
    for e in exprs:
        for n in ast.walk(e):
            if isinstance(n, ast.Call) and tree.callee(n, fn) == DOMAIN_MARK.get("callee"):
                if DOMAIN_MARK["callee"] == COLLECT or _is_intensity_poolsum(tree, fn, n):
                    return f"{fn.qual}: {unparse(n)[:60]}"
    params = [d.name for d in closure if d.kind == "param" and d.name not in {"self", "cls"}]
    for p in params:
        for caller, call in _callers(tree, fn):
            sig = fn.params[1:] if fn.cls is not None else fn.params
            arg = next((k.value for k in call.keywords if k.arg == p), None)
            if arg is None and p in sig and sig.index(p) < len(call.args):
                arg = call.args[sig.index(p)]
            if arg is not None:
                r = derives_from_domain(tree, caller, arg, depth + 1, seen)
                if r:
                    return f"{r} -> {fn.qual}({p})"
    # a value returned by a same-class helper that derives from the domain
    for e in exprs:
        for n in ast.walk(e):
            if isinstance(n, ast.Call):
                callee = tree.callee(n, fn)
                if callee in tree.funcs and callee.startswith("ampform.helicity") and callee != fn.qual and depth < 3:
                    g = tree.funcs[callee]
                    for ret in [x for x in walk_function(g.node, nested=False) if isinstance(x, ast.Return) and x.value is not None]:
                        r = derives_from_domain(tree, g, ret.value, depth + 1, seen)
                        if r:
                            return r
    return None


def _model_argument(tree: Tree, keyword: str) -> ast.AST:
    """The value passed as ``keyword=`` to HelicityModel(...) in the effective formulate()."""
    formulate = flatten(tree, tree.func(FORMULATE))
    calls = [c for c, callee in tree.calls_in(formulate) if callee == MODEL]
    if len(calls) != 1:
        raise AnalysisError(f"{FORMULATE}: expected one HelicityModel(...) construction")
    arg = next((k.value for k in calls[0].keywords if k.arg == keyword), None)
    if arg is None:
        raise AnalysisError(f"HelicityModel(...) is not given {keyword}=")
    return arg


def _update_keys(call: ast.Call) -> list[ast.AST]:
    """Key expressions of ``table.update(arg)`` / ``table.setdefault(key, ...)``: the key of a dict
    comprehension / the keys of a dict display (not its values or filters), else the whole argument."""
    if not call.args:
        return [k.value for k in call.keywords] or [call]
    arg = call.args[0]
    if isinstance(arg, ast.DictComp):
        return [arg.key]
    if isinstance(arg, ast.Dict) and arg.keys and all(k is not None for k in arg.keys):
        return list(arg.keys)
    return [arg]


def check_domain(ctx: Check, tree: Tree) -> None:
    # local aliases of attribute paths (`amplitudes = self.__ingredients.amplitudes`) are looked through (H-ALIAS)
    table = unparse(_model_argument(tree, "amplitudes"))  # self.__ingredients.amplitudes
    # the summation domain reaches the PoolSum of the intensity
    graph = tree.call_graph()
    reach = tree.reachable(FORMULATE, graph)
    domain_sites = []
    for q in sorted(reach):
        fn = tree.funcs.get(q)
        if fn is None or not q.startswith("ampform.helicity::"):
            continue
        for call, callee in tree.calls_in(fn, nested=False):
            if callee == "ampform.sympy::PoolSum" and derives_from_domain(tree, fn, call):
                domain_sites.append((fn, call))
    if not domain_sites:
        raise AnalysisError("vanished anchor: no PoolSum whose indices derive from collect_spin_projections is reachable from formulate")
    # stores into the table
    stores = []
    for q in sorted(reach):
        fn = tree.funcs.get(q)
        if fn is None:
            continue
        fn = flatten(tree, fn, inline=False)
        for node in walk_function(fn.node, nested=False):
            if isinstance(node, ast.Assign) and isinstance(node.targets[0], ast.Subscript) and unparse(node.targets[0].value) == table:
                stores.append((fn, node))
            if isinstance(node, ast.Call) and isinstance(node.func, ast.Attribute) and node.func.attr in {"update", "setdefault"} and unparse(node.func.value) == table:
                stores.append((fn, node))
    if not stores:
        raise AnalysisError(f"no store into {table} reachable from formulate")
    covering = []
    for fn, node in stores:
        key_exprs = [node.targets[0].slice] if isinstance(node, ast.Assign) else _update_keys(node)
        # the summation domain is the whole (unfolded) intensity - including the inner sums that
        # a spin alignment adds - not just the outer pools: the key must derive from the PoolSum
        DOMAIN_MARK["callee"] = "ampform.sympy::PoolSum"
        try:
            why = next((w for w in (derives_from_domain(tree, fn, k) for k in key_exprs) if w), None)
        finally:
            DOMAIN_MARK["callee"] = COLLECT
        what = f"{fn.qual}: `{unparse(node)[:70]}`"
        if why:
            covering.append((fn, node, why))
            ctx.ok("R-DOMAIN", tree.loc(node), what + f" - key derives from the summation domain ({why[:120]})")
        else:
            ctx.info("R-DOMAIN", tree.loc(node), what + " - keyed by existing transitions only")
    # consumer-side default
    expr_prop = tree.func(f"{MODEL}.expression")
    consumer_default = any(isinstance(n, ast.Attribute) and n.attr == "atoms" for n in walk_function(expr_prop.node)) and "Indexed" in unparse(expr_prop.node)
    key = f"{BUILDER}::amplitude-table-not-covering-domain"
    fn0, call0 = domain_sites[0]
    if covering or consumer_default:
        ctx.ok("R-DOMAIN", tree.loc(call0), f"the amplitude table covers the domain of `{unparse(call0)[:60]}`: " + ("completion store present" if covering else "HelicityModel.expression defaults leftover Indexed atoms"))
    else:
        ctx.violation(
            "R-DOMAIN", key, tree.loc(call0),
            f"{fn0.qual}: the intensity sums over the cartesian product of the per-state projection pools (`{unparse(call0)[:70]}`), but all {len(stores)} store(s) into {table} are keyed by existing transitions only",
            {
                "stores": [f"{f.qual}: {unparse(n)[:60]}" for f, n in stores],
                "why": "the pools are per-state marginals; their product is a strict superset of the joint helicity set whenever some combination has no transition "
                "(eta_c -> Lambda Lambda-bar leaves A[0,-1/2,+1/2] and A[0,+1/2,-1/2] undefined)",
            },
        )


# --------------------------------------------------------------------------- R-KINDOMAIN

COMBINATORICS = "ampform.helicity::_perform_combinatorics"
ADAPTER_FEEDS = {"register_transition", "register_topology", "permutate_registered_topologies"}


def check_kinematic_domain(ctx: Check, tree: Tree) -> None:
    """The amplitude of a transition is also formulated for its identical-particle
    permutations (`_perform_combinatorics`), whose topologies differ from the ones in the
    reaction; their angle / mass symbols are only defined if those topologies are
    registered in the adapter that produces the kinematic variables."""
    builder = tree.cls(BUILDER)
    users = []
    for m in builder.methods.values():
        for call, callee in tree.calls_in(m, nested=True):
            if callee == COMBINATORICS:
                users.append((m, call))
    if not users:
        ctx.info("R-KINDOMAIN", tree.loc(builder.node), "the builder no longer symmetrises over identical particles itself: nothing to register")
        return
    # is the symmetrised transition what the amplitude is formulated for?
    feeds = []
    for m in builder.methods.values():
        rd = RD(m.node)
        for node in walk_function(m.node):
            if not (isinstance(node, ast.Call) and isinstance(node.func, ast.Attribute) and node.func.attr in ADAPTER_FEEDS):
                continue
            recv = unparse(node.func.value)
            if "adapter" not in recv:
                continue
            if node.func.attr == "permutate_registered_topologies":
                feeds.append((m, node, "permutes every registered topology"))
                continue
            srcs = []
            for a in node.args:
                srcs.append(unparse(a))
                srcs += [unparse(d.value) for d in rd.closure(rd.uses(a)) if d.value is not None]
            if any("_perform_combinatorics(" in t for t in srcs):
                feeds.append((m, node, "registers the symmetrised transitions"))
    m0, call0 = users[0]
    key = f"{BUILDER}::symmetrised-topologies-not-registered"
    if feeds:
        fm, fnode, how = feeds[0]
        ctx.ok("R-KINDOMAIN", tree.loc(fnode), f"{fm.qual}: `{unparse(fnode)[:60]}` {how}, so the kinematic variables cover the topologies of `{unparse(call0)}`")
    else:
        ctx.violation(
            "R-KINDOMAIN", key, tree.loc(call0),
            f"{m0.qual}: amplitudes are formulated for every graph of `{unparse(call0)}` (identical-particle permutations), but no method of the builder registers those permuted topologies in its adapter",
            {
                "why": "angle and mass symbols are named from the topology of the (permuted) transition; HelicityAdapter only knows the topologies of reaction.transitions, so the symbols of a permuted topology are neither kinematic variables nor parameters",
                "observed": "J/psi -> gamma pi0 pi0 via omega(782): phi_01, phi_0^01, theta_01, theta_0^01 are free symbols of model.expression without definition unless the user calls adapter.permutate_registered_topologies()",
            },
        )


# --------------------------------------------------------------------------- R-SYMPAIR

FAMILY_MODULES = ("ampform.helicity", "ampform.kinematics")


def family(skeleton: str) -> str:
    s = re.sub(r"\d+", "{}", skeleton)
    return s


def check_sympairs(ctx: Check, tree: Tree) -> None:
    sites = symbol_sites(tree, [m + "::" for m in ()] or FAMILY_MODULES)
    ctx.stats["symbol_sites"] = len(sites)
    if len(sites) < 35:
        raise AnalysisError(f"only {len(sites)} symbol construction sites in helicity/kinematics (45+ confirmed)")
    groups: dict[str, list[dict]] = {}
    dynamic = 0
    for s in sites:
        if s["skeleton"] is None:
            dynamic += 1
            ctx.info("R-SYMPAIR", tree.loc(s["node"]), f"{s['fn']}: symbol name computed at run time (`{unparse(s['node'])[:60]}`)")
            continue
        names = re.split(r"[,\s]+", s["skeleton"].strip()) if s["kind"] == "Symbol" and (" " in s["skeleton"].strip() or "," in s["skeleton"]) else [s["skeleton"]]
        for nm in names:
            if nm:
                groups.setdefault(family(nm), []).append(s)
    ctx.stats["symbol_families"] = len(groups)
    required = {
        "m_{}": ("mass symbols: formulate / get_invariant_mass_symbol / DPD angle formulas", 3),
        "alpha{}": ("Wigner rotation angle alpha: formulate_wigner_rotation <-> compute_wigner_angles", 2),
        "beta{}": ("Wigner rotation angle beta", 2),
        "gamma{}": ("Wigner rotation angle gamma", 2),
        "{}{}": ("helicity summation indices: axis-angle chain <-> create_helicity_symbol", 2),
    }
    for fam, (what, min_fns) in required.items():
        members = groups.get(fam, [])
        fns = {m["fn"] for m in members}
        if len(fns) < min_fns:
            raise AnalysisError(f"symbol family `{fam}` ({what}) found at {len(fns)} functions only: {sorted(fns)}")
    for fam, members in sorted(groups.items()):
        sigs = {(m["kind"], tuple(sorted(m["assumptions"].items())), m["star_kwargs"]) for m in members}
        fns = sorted({m["fn"].split("::")[-1] for m in members})
        where = tree.loc(members[0]["node"])
        if len(members) == 1:
            continue
        ok = len(sigs) == 1
        detail = None
        if not ok:
            detail = [{"fn": m["fn"], "kind": m["kind"], "assumptions": m["assumptions"], "at": tree.loc(m["node"])} for m in members]
        ctx.verdict(ok, "R-SYMPAIR", f"helicity+kinematics::symbol family `{fam}`", where,
                    f"symbol family `{fam}`: {len(members)} construction sites in {fns[:4]}{'...' if len(fns) > 4 else ''} agree in kind and assumptions", detail)
    # single producers
    for fam, producer in (("m{}", "create_spin_projection_symbol"), ("phi{}", "get_helicity_angle_symbols"), ("theta{}", "get_helicity_angle_symbols"), ("A^{}", "create_amplitude_base")):
        members = groups.get(fam, [])
        fns = {m["fn"].split("::")[-1] for m in members}
        ctx.verdict(fns == {producer}, "R-SYMPAIR", f"helicity+kinematics::single producer `{fam}`", tree.loc(members[0]["node"]) if members else "src/ampform/helicity/naming.py",
                    f"symbols `{fam}` are only ever constructed by {producer}", None if fns == {producer} else sorted(fns))
    # both Wigner-angle sites derive their suffix from get_helicity_suffix(topology, state)
    for q in ("ampform.helicity.align.axisangle::formulate_wigner_rotation", "ampform.kinematics.angles::compute_wigner_angles"):
        fn = tree.func(q)
        rd = RD(fn.node)
        members = [m for fam in ("alpha{}", "beta{}", "gamma{}") for m in groups.get(fam, []) if m["fn"] == q]
        ok = bool(members)
        for m_ in members:
            name_node = m_["node"].args[0]
            placeholders = [v.value for v in ast.walk(name_node) if isinstance(v, ast.FormattedValue)]
            for ph in placeholders:
                srcs = [unparse(ph)] + [unparse(d.value) for d in rd.closure(rd.uses(ph)) if d.value is not None]
                if not any("get_helicity_suffix(" in t for t in srcs):
                    ok = False
        ctx.verdict(ok, "R-SYMPAIR", f"{q}::suffix", tree.loc(fn.node), f"{q.split('::')[-1]}: the angle suffix is get_helicity_suffix(topology, state id)")
    # the back-substitution filter in formulate selects exactly the mass family
    # (read in the effective formulate: a private helper that selects the symbols is part of it, sa/inline.py E3b)
    formulate = flatten(tree, tree.func(FORMULATE))
    ok = False
    for comp in [n for n in walk_function(formulate.node) if isinstance(n, (ast.ListComp, ast.GeneratorExp, ast.SetComp))]:
        gen = comp.generators[0]
        if not isinstance(gen.target, ast.Name):
            continue
        v = gen.target.id
        conjuncts = [c for t in gen.ifs for c in (t.values if isinstance(t, ast.BoolOp) and isinstance(t.op, ast.And) else [t])]
        tests = [unparse(t).replace('"', "'") for t in conjuncts]
        if any(t == f"{v}.name.startswith('m_')" for t in tests) and any(t == f"{v}.is_nonnegative" for t in tests):
            ok = True
    ctx.verdict(ok, "R-SYMPAIR", f"{FORMULATE}::mass-filter", tree.loc(formulate.node), "formulate recognises leftover mass symbols by the `m_` prefix and the nonnegative assumption of the family")


# --------------------------------------------------------------------------- R-XSTORE


def check_xstore(ctx: Check, tree: Tree) -> None:
    # the effective formulate (sa/inline.py E3b): statements that were extracted into private helper methods are
    # spliced back in, and local aliases of the two mappings are replaced by the attribute paths they stand for
    fn = flatten(tree, tree.func(FORMULATE))
    model_call = next(c for c, callee in tree.calls_in(fn) if callee == MODEL)
    par = unparse(next(k.value for k in model_call.keywords if k.arg == "parameter_defaults"))
    kin = unparse(next(k.value for k in model_call.keywords if k.arg == "kinematic_variables"))
    rd = RD(fn.node)

    def is_store(node, mapping):
        return isinstance(node, ast.Assign) and isinstance(node.targets[0], ast.Subscript) and unparse(node.targets[0].value) == mapping

    def is_del(node, mapping):
        return isinstance(node, ast.Delete) and isinstance(node.targets[0], ast.Subscript) and unparse(node.targets[0].value) == mapping

    walker = PathWalker(tree)
    paths = walker.paths(fn)
    ctx.stats["formulate_paths"] = len(paths)
    par_sites: dict[int, ast.AST] = {}
    conflicts: dict[int, tuple] = {}
    unpaired: dict[int, tuple] = {}
    readds: dict[int, tuple] = {}
    for p in paths:
        # replay per loop iteration: state is reset at each ("iter", loop) of an inner loop over symbols
        events = p.events
        open_par: dict[str, ast.AST] = {}  # key name -> store node still unpaired
        par_keys: dict[str, ast.AST] = {}
        kin_keys: dict[str, ast.AST] = {}
        deleted: set[str] = set()
        fam_dels: dict[str, ast.AST] = {}  # domain text -> del executed once per element of that domain
        since_iter: list[tuple] = []  # tests evaluated in the current iteration of the innermost loop
        for ev in events:
            if ev[0] == "iter":
                since_iter = []
            if ev[0] == "test":
                since_iter.append(ev)
            if ev[0] == "iter":
                # a new binding of the loop variable: forget keys named by it
                names = {n.id for n in ast.walk(ev[1].target) if isinstance(n, ast.Name)}
                for n in names:
                    open_par.pop(n, None)
                    par_keys.pop(n, None)
                    kin_keys.pop(n, None)
                    deleted.discard(n)
            if ev[0] != "stmt":
                continue
            node = ev[1]
            if isinstance(node, ast.Assign) and isinstance(node.targets[0], ast.Name):
                # re-definition of a key variable
                open_par.pop(node.targets[0].id, None)
                par_keys.pop(node.targets[0].id, None)
                kin_keys.pop(node.targets[0].id, None)
                deleted.discard(node.targets[0].id)
            if is_store(node, par):
                k = unparse(node.targets[0].slice)
                par_sites[id(node)] = node
                par_keys[k] = node
                if k in kin_keys:
                    conflicts[id(node)] = (node, kin_keys[k])
                if k not in deleted and _may_be_in(kin, node.targets[0].slice, rd):
                    open_par[k] = node
            elif is_del(node, kin):
                loop = next((a for a in ancestors(node) if isinstance(a, ast.For)), None)
                if loop is not None:
                    fam_dels[unparse(loop.iter)] = node
                k = unparse(node.targets[0].slice)
                open_par.pop(k, None)
                kin_keys.pop(k, None)
                deleted.add(k)
            elif is_store(node, kin):
                k = unparse(node.targets[0].slice)
                kin_keys[k] = node
                deleted.discard(k)
                for dom, dnode in fam_dels.items():
                    if isinstance(node.targets[0].slice, ast.Name) and not _guarded_against(since_iter, dom, par, node.targets[0].slice.id, rd):
                        readds[id(node)] = (node, dnode, dom)
                if k in par_keys:
                    conflicts[id(par_keys[k])] = (par_keys[k], node)
            elif isinstance(node, ast.Assign) and isinstance(node.targets[0], ast.Name) and node.targets[0].id in {k.split("[")[0] for k in open_par}:
                pass
        if p.exit == "return":
            for k, node in open_par.items():
                unpaired[id(node)] = (node, k)
    if len(par_sites) < 3:
        raise AnalysisError(f"{FORMULATE}: only {len(par_sites)} stores into {par} (3 confirmed)")
    for nid, node in par_sites.items():
        key = f"{FORMULATE}::{unparse(node)[:80]}"
        if nid in conflicts:
            a, b = conflicts[nid]
            ctx.violation("R-XSTORE", key + "::both", tree.loc(node), f"formulate: `{unparse(a)[:60]}` and `{unparse(b)[:60]}` on one path: the symbol is parameter AND kinematic variable")
        elif nid in unpaired:
            ctx.violation("R-XSTORE", key + "::not-deleted", tree.loc(node),
                          f"formulate: `{unparse(node)[:70]}` makes the mass a parameter, but it is not removed from {kin} (`del {kin}[...]` missing on some path)",
                          "create_expressions() defines every invariant-mass symbol of the topology, so the symbol would be both a parameter and a kinematic variable")
        else:
            ctx.ok("R-XSTORE", tree.loc(node), f"formulate: `{unparse(node)[:70]}` - the key cannot stay in {kin} on any of the {len(paths)} paths")
    kin_stores = [n for n in walk_function(fn.node) if is_store(n, kin)]
    for node in kin_stores:
        key = f"{FORMULATE}::{unparse(node)[:80]}::re-add"
        if id(node) in readds:
            _, dnode, dom = readds[id(node)]
            ctx.violation("R-XSTORE", key, tree.loc(node),
                          f"formulate: `{unparse(node)[:60]}` can put back a symbol that `{unparse(dnode)}` removed for each element of `{dom}` (those masses are parameters)",
                          f"on a path that executed the removal, no test in the iteration that stores mentions `{dom}` or tests the key itself against {par}")
        else:
            ctx.ok("R-XSTORE", tree.loc(node), f"formulate: `{unparse(node)[:60]}` - every path that removed a family of mass symbols guards the store by that family's domain")
    check_key_types(ctx, tree, fn, {par, kin})
    for nid, (a, b) in conflicts.items():
        if nid not in par_sites:
            ctx.violation("R-XSTORE", f"{FORMULATE}::{unparse(b)[:80]}::both", tree.loc(b), f"formulate: `{unparse(a)[:60]}` and `{unparse(b)[:60]}` on one path")


def _guarded_against(tests: list[tuple], domain: str, par: str, key: str, rd: RD | None = None) -> bool:
    """Does one of the tests evaluated in this iteration exclude the removed family?  Accepted
    idioms: a test that mentions the family's domain expression (or a local with a definition
    `ids = <domain>`, e.g. `ids = <domain>; if ids is None: ids = set()`), or a membership test of the
    key itself (the symbol, not a property of it) in the parameter mapping."""
    def mentions(e: ast.AST) -> bool:
        return any(isinstance(m, (ast.Attribute, ast.Name)) and unparse(m) == domain for m in ast.walk(e))

    for _, test, _ in tests:
        if mentions(test):
            return True
        # a local of the test that is *bound to* the domain (not merely data-dependent on it): direct definitions only
        if rd is not None and any(d.kind == "assign" and d.value is not None and isinstance(d.value, (ast.Name, ast.Attribute)) and unparse(d.value) == domain
                                  for d in rd.uses(test)):
            return True
        for n in ast.walk(test):
            if isinstance(n, ast.Compare) and len(n.ops) == 1 and isinstance(n.ops[0], (ast.In, ast.NotIn)):
                if isinstance(n.left, ast.Name) and n.left.id == key and unparse(n.comparators[0]) == par:
                    return True
    return False


def check_key_types(ctx: Check, tree: Tree, fn: FuncInfo, mappings: set[str]) -> None:
    """R-KEYTYPE: the parameter and kinematic-variable mappings are keyed by symbols; a lookup
    with a `str` (`.name`, an f-string, a literal) never matches and silently takes the
    'absent' branch."""
    n_sites = 0
    for n in walk_function(fn.node):
        key = None
        if isinstance(n, ast.Compare) and len(n.ops) == 1 and isinstance(n.ops[0], (ast.In, ast.NotIn)) and unparse(n.comparators[0]) in mappings:
            key = n.left
        elif isinstance(n, ast.Subscript) and unparse(n.value) in mappings:
            key = n.slice
        elif isinstance(n, ast.Call) and isinstance(n.func, ast.Attribute) and n.func.attr in {"get", "pop", "setdefault"} and unparse(n.func.value) in mappings and n.args:
            key = n.args[0]
        if key is None:
            continue
        n_sites += 1
        is_str = isinstance(key, ast.JoinedStr) or (isinstance(key, ast.Constant) and isinstance(key.value, str)) or (isinstance(key, ast.Attribute) and key.attr == "name") or (isinstance(key, ast.Call) and isinstance(key.func, ast.Name) and key.func.id == "str")
        if is_str:
            ctx.violation("R-KEYTYPE", f"{FORMULATE}::{unparse(n)[:80]}", tree.loc(n), f"formulate: `{unparse(n)[:70]}` looks up a str in a mapping keyed by symbols - it never matches")
    ctx.stats["symbol_keyed_lookups"] = n_sites
    if n_sites < 5:
        raise AnalysisError(f"{FORMULATE}: only {n_sites} lookups into the symbol-keyed mappings (5 confirmed)")
    ctx.ok("R-KEYTYPE", tree.loc(fn.node), f"formulate: {n_sites} lookups into {sorted(mappings)} all use symbol-valued keys")


def _may_be_in(kin: str, key: ast.AST, rd: RD) -> bool:
    """Can the kinematic-variable mapping already contain this key?  Not if the key was
    taken from the free symbols of an expression into which the mapping was substituted."""
    for d in rd.closure(rd.uses(key)):
        if d.value is not None:
            txt = unparse(d.value)
            if "free_symbols" in txt:
                # ... of an expression that went through .xreplace(<kin>)
                for d2 in rd.closure(rd.uses(d.value)):
                    if d2.value is not None and f".xreplace({kin})" in unparse(d2.value):
                        return False
    return True


# --------------------------------------------------------------------------- R-CREATE


def check_create(ctx: Check, tree: Tree) -> None:
    for name in ("__generate_amplitude_coefficient", "__generate_helicity_coupling"):
        fn = flatten(tree, tree.func(f"{BUILDER}.{name}"))
        rd = RD(fn.node)
        created = [d for d in rd.defs if d.value is not None and isinstance(d.value, ast.Call) and tree.callee(d.value, fn) == "sympy.Symbol"]
        stored = {unparse(n.targets[0].slice) for n in walk_function(fn.node) if isinstance(n, ast.Assign) and isinstance(n.targets[0], ast.Subscript) and "parameter_defaults" in unparse(n.targets[0].value)}
        returned = {unparse(r.value) for r, _ in rd.returns if r.value is not None}
        ok = len(created) == 1 and created[0].name in stored and created[0].name in returned
        ctx.verdict(ok, "R-CREATE", f"{fn.qual}::registered", tree.loc(fn.node), f"{name}: the created symbol is stored in parameter_defaults and returned",
                    None if ok else {"created": [d.name for d in created], "stored": sorted(stored), "returned": sorted(returned)})
    dyn = flatten(tree, tree.func(f"{BUILDER}.__formulate_dynamics"))  # the registration loop may live in a private helper
    drd = RD(dyn.node)
    ok = False
    for loop in [n for n in walk_function(dyn.node) if isinstance(n, ast.For) and isinstance(n.iter, ast.Call) and isinstance(n.iter.func, ast.Attribute) and n.iter.func.attr == "items"]:
        # the iterated mapping is the second element of what the builder returned
        base = loop.iter.func.value
        src = list(drd.reaching(base)) if isinstance(base, ast.Name) else []
        from_builder = any(d.index == 1 and d.value is not None and isinstance(d.value, ast.Call) for d in src)
        if not (from_builder and isinstance(loop.target, ast.Tuple) and len(loop.target.elts) == 2):
            continue
        k, v = (unparse(e) for e in loop.target.elts)
        for st in walk_function(loop):
            if isinstance(st, ast.Assign) and isinstance(st.targets[0], ast.Subscript) and "parameter_defaults" in unparse(st.targets[0].value) \
                    and unparse(st.targets[0].slice) == k and unparse(st.value) == v and not any(isinstance(a, ast.If) for a in _anc_until(st, loop)):
                # ... and no earlier statement of the iteration can skip it (`if ...: continue` is a condition too)
                before = loop.body[: loop.body.index(st)] if st in loop.body else None
                if before is not None and not any(isinstance(n, (ast.Continue, ast.Break, ast.Return)) for b in before for n in ast.walk(b)):
                    ok = True
    ctx.verdict(ok, "R-CREATE", f"{dyn.qual}::registers-builder-parameters", tree.loc(dyn.node), "__formulate_dynamics registers every parameter suggested by the dynamics builder (unconditionally)")


def _anc_until(node, stop):
    for a in ancestors(node):
        if a is stop:
            return
        yield a


def check_backsubstitution(ctx: Check, tree: Tree) -> None:
    """Clause (d), structural part: the alignment-angle definitions that become kinematic
    variables are back-substituted with the (completed) kinematic variables, so that only
    four-momenta and parameters remain."""
    fn = flatten(tree, tree.func(FORMULATE))
    rd = RD(fn.node)
    loops = [n for n in walk_function(fn.node) if isinstance(n, ast.For) and "alignment_symbols" in unparse(n.iter)]
    if len(loops) != 1:
        raise AnalysisError(f"{FORMULATE}: expected one loop over the alignment symbols")
    loop = loops[0]
    stores = [n for n in loop.body if isinstance(n, ast.Assign) and isinstance(n.targets[0], ast.Subscript) and "alignment_symbols" in unparse(n.targets[0].value)]
    model_call = next(c for c, callee in tree.calls_in(fn) if callee == MODEL)
    kin = unparse(next(k.value for k in model_call.keywords if k.arg == "kinematic_variables"))
    problems = []
    if len(stores) != 1:
        problems.append("the back-substituted definition is not stored back")
    else:
        st = stores[0]
        idx = loop.body.index(st)
        # the last definition of the stored value is `<expr>.xreplace(<kinematic variables>)` ...
        val = st.value
        # (value, statement that computes it): the definitions of the stored name, or the stored expression itself
        computed = [(d.value, d.node) for d in rd.reaching(val)] if isinstance(val, ast.Name) else [(val, st)]
        ok_def = bool(computed) and all(v is not None and isinstance(v, ast.Call) and isinstance(v.func, ast.Attribute) and v.func.attr == "xreplace"
                                        and v.args and unparse(v.args[0]) == kin for v, _ in computed)
        if not ok_def:
            problems.append(f"the stored definition `{unparse(val)}` is not `<angle expression>.xreplace({kin})`")
        # ... and it is computed after the loop that completes the kinematic variables
        inner = [i for i, n in enumerate(loop.body) if isinstance(n, ast.For)]
        def_positions = [loop.body.index(at) for _, at in computed if at in loop.body]
        if inner and def_positions and min(def_positions) < max(inner):
            problems.append("the substitution happens before the missing mass definitions are added")
        if unparse(st.targets[0].slice) != unparse(loop.target.elts[0] if isinstance(loop.target, ast.Tuple) else loop.target):
            problems.append("stored under another key than the iterated angle symbol")
    merged = [n for n in walk_function(fn.node) if isinstance(n, ast.Call) and isinstance(n.func, ast.Attribute) and n.func.attr == "update" and unparse(n.func.value) == kin and n.args and "alignment_symbols" in unparse(n.args[0])]
    if len(merged) != 1:
        problems.append("the alignment definitions are not merged into the kinematic variables")
    ctx.verdict(not problems, "R-BACKSUB", f"{FORMULATE}::alignment-backsubstitution", tree.loc(loop),
                "formulate: every alignment angle definition is stored as <definition>.xreplace(kinematic_variables) after the missing mass variables were added, then merged into the kinematic variables", problems or None)


def check_same_topology(ctx: Check, tree: Tree) -> None:
    """R-SAMETOPOLOGY: the symbols an alignment / adapter *defines* are produced by loops over
    (topology, state id); an id that was read from one topology object and is combined with another
    selects the wrong (or no) states for every further topology - the amplitude then uses symbols
    that nobody defines ("never neither")."""
    from ..rules import topology_mismatches

    bad, n_calls = topology_mismatches(tree, ("ampform.helicity", "ampform.kinematics"))
    if n_calls < 30:
        raise AnalysisError(f"only {n_calls} calls with a leading `topology` argument found (63 confirmed)")
    for b in bad:
        fn = b["fn"]
        ctx.violation("R-SAMETOPOLOGY", f"{fn.qual}::{unparse(b['call'].func)}::{unparse(b['other'])[:30]}", tree.loc(b["call"]),
                      f"{fn.qual}: `{unparse(b['call'])[:70]}` combines `{unparse(b['arg'])[:30]}`, computed from `{unparse(b['other'])[:40]}` (via `{unparse(b['via'])[:50]}`), with the topology `{unparse(b['topology'])[:30]}`",
                      "state / node ids are only meaningful for the topology they were read from")
    if not bad:
        ctx.ok("R-SAMETOPOLOGY", "src/ampform", f"{n_calls} calls f(topology, ..., ids): every id argument was computed from the same topology value that is passed along")


def run(ctx: Check, tree: Tree) -> None:
    ctx.decided += [
        'R-XSTORE (re-add): a family of mass symbols removed from the kinematic variables is not put back by a later store on a path that removed it',
        'R-KEYTYPE: lookups into the symbol-keyed parameter / kinematic-variable mappings never use a str key',
        "R-BACKSUB: alignment-angle definitions are back-substituted with the completed kinematic variables before they become kinematic variables (structural part of clause d)",
        "R-SAMETOPOLOGY: ids combined with a topology were computed from that same topology (alignments, adapter, builder)",
        "R-NORMALISED: the builder requests the angle symbols of the helicity state chosen by the same predicate (is_opposite_helicity_state) that the adapter uses when it names what it defines",
        "R-KINDOMAIN: the topologies of the identical-particle permutations for which amplitudes are formulated are registered in the adapter that produces the kinematic variables",
        "R-DOMAIN: some store into the amplitude table handed to HelicityModel is keyed from the summation domain of the intensity (or the consumer defaults leftover amplitude symbols)",
        "R-SYMPAIR: every symbol family that is constructed at several sites of helicity/kinematics agrees in kind and assumptions; single producers stay single; Wigner-angle suffixes come from get_helicity_suffix",
        "R-XSTORE: on every path through formulate a mass symbol stored as parameter is removed from / cannot be in the kinematic variables",
        "R-CREATE: coefficient, coupling and builder parameters are registered where they are created",
    ]
    ctx.not_decided += [
        "kinematic-variable expressions depend on four-momenta only after inserting defaults (value level)",
        "symbols introduced by custom dynamics builders or custom alignments",
    ]
    ctx.assumptions += ["SymPy symbols with equal names and different assumptions are different objects", "HelicityAdapter.create_expressions defines every invariant-mass symbol of the registered topologies"]
    ctx.section(check_domain, ctx, tree)
    ctx.section(check_kinematic_domain, ctx, tree)
    ctx.section(check_sympairs, ctx, tree)
    ctx.section(check_xstore, ctx, tree)
    ctx.section(check_create, ctx, tree)
    ctx.section(check_backsubstitution, ctx, tree)
    ctx.section(check_same_topology, ctx, tree)
    from .c02 import check_amplitude_stored

    ctx.section(check_amplitude_stored, ctx, tree)  # the amplitude symbols of the intensity get their definition
    # the builder asks for the angle symbols of children[0]; the adapter names what it defines after
    # the helicity state chosen with is_opposite_helicity_state: both must be the same convention
    from .c04 import check_normalised

    ctx.section(check_normalised, ctx, tree)
    from .c04 import check_topology_helpers

    ctx.section(check_topology_helpers, ctx, tree)
