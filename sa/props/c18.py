"""C18 - PoolSum denotes the finite sum over its index pools.

R-BINDER  a class that subtracts bound symbols in ``free_symbols`` guards substitution.
R-SUMSHAPE ``evaluate`` is Add over itertools.product of all pools, substituting
          zip(index symbols, combination) into the summand.
R-FREE    the subtrahend of ``free_symbols`` is exactly the index symbols.
R-DROP    ``cleanup`` keeps, substitutes or compensates every index.
"""

from __future__ import annotations

import ast

from ..dataflow import RD
from ..exprmodel import handwritten_expr_classes
from ..inline import CallInliner, Inliner
from ..loader import ancestors, AnalysisError, ClassInfo, FuncInfo, Tree, unparse, walk_function
from ..paths import PathWalker
from ..report import Check

PID = "C18"
POOLSUM = "ampform.sympy::PoolSum"
# SymPy's own binders guard substitution (ExprWithLimits defines free_symbols and _eval_subs)
EXTERNAL_BINDERS = {"sympy.Integral", "sympy.Sum", "sympy.Product"}


def _is_property(fn: FuncInfo) -> bool:
    return any(unparse(d) in {"property", "cached_property", "functools.cached_property"} for d in fn.node.decorator_list)


def subtracting_free_symbols(cls: ClassInfo) -> ast.BinOp | None:
    fs = cls.methods.get("free_symbols")
    if fs is None:
        return None
    for node in walk_function(fs.node):
        if isinstance(node, ast.Return) and isinstance(node.value, ast.BinOp) and isinstance(node.value.op, ast.Sub):
            return node.value
    rd = RD(fs.node)
    for ret, _ in rd.returns:
        for d in rd.closure(rd.uses(ret.value)) if ret.value is not None else ():
            if isinstance(d.value, ast.BinOp) and isinstance(d.value.op, ast.Sub):
                return d.value
            if isinstance(d.node, ast.AugAssign) and isinstance(d.node.op, ast.Sub):
                return ast.BinOp(left=ast.Name(id=d.name, ctx=ast.Load()), op=ast.Sub(), right=d.node.value)
    for node in walk_function(fs.node):
        if isinstance(node, ast.Call) and isinstance(node.func, ast.Attribute) and node.func.attr in {"difference", "difference_update", "discard", "remove"}:
            return ast.BinOp(left=node.func.value, op=ast.Sub(), right=node.args[0] if node.args else ast.Constant(None))
    return None


def subs_guard(tree: Tree, cls: ClassInfo) -> tuple[bool, str]:
    """Does the class guard substitution of its bound symbols?"""
    for c in tree.mro(cls):
        for name in ("_eval_subs", "_subs", "subs"):
            m = c.methods.get(name)
            if m is None:
                continue
            params = m.params
            if len(params) < 2:
                return False, f"{name} has no `old` parameter"
            old = params[1]
            # an `if` whose test mentions `old` and whose body returns self
            for node in walk_function(m.node):
                if isinstance(node, ast.If) and any(isinstance(n, ast.Name) and n.id == old for n in ast.walk(node.test)):
                    mentions_bound = any(
                        isinstance(n, ast.Attribute) and n.attr in {"indices", "limits", "variables", "bound_symbols"} for n in ast.walk(node.test)
                    ) or _test_uses_bound_local(m, node.test)
                    returns_self = any(
                        isinstance(s, ast.Return) and isinstance(s.value, ast.Name) and s.value.id == params[0] for s in ast.walk(node) if s in _direct_stmts(node.body)
                    )
                    if mentions_bound and returns_self:
                        cmps = [n_ for n_ in ast.walk(node.test) if isinstance(n_, ast.Compare) and any(isinstance(x, ast.Name) and x.id == old for x in ast.walk(n_))]
                        if any(not all(isinstance(o, (ast.Eq, ast.In, ast.Is)) for o in n_.ops) for n_ in cmps) or (isinstance(node.test, ast.UnaryOp) and isinstance(node.test.op, ast.Not)):
                            return False, f"{c.name}.{name}: `if {unparse(node.test)[:60]}: return self` does not test that `{old}` IS one of the bound symbols"
                        wider = _guard_wider_than_own(tree, c, m, node.test)
                        if wider:
                            return False, f"{c.name}.{name}: `if {unparse(node.test)[:60]}: return self` also refuses symbols that are NOT bound by this sum ({wider}): their free occurrences in the summand are never substituted"
                        return True, f"{c.name}.{name}: `if {unparse(node.test)[:60]}: return self`"
            return False, f"{c.name}.{name} never returns self for a bound symbol"
    return False, "no _eval_subs/_subs/subs override: Basic.subs rewrites the bound index symbols"


def _guard_wider_than_own(tree: Tree, cls: ClassInfo, m: FuncInfo, test: ast.AST) -> str | None:
    """The substitution guard must refuse exactly the symbols this instance binds (what
    free_symbols subtracts).  A guard that consults a property / helper which also collects the
    indices of sums nested in the summand is wider: `k` bound by an inner sum is then treated as
    bound in the whole outer summand, where it may occur free."""
    for n in ast.walk(test):
        if isinstance(n, ast.Attribute) and isinstance(n.value, ast.Name) and n.value.id == m.params[0] and n.attr not in {"indices", "limits", "variables"}:
            prop = None
            for c in tree.mro(cls):
                if n.attr in c.methods:
                    prop = c.methods[n.attr]
                    break
            if prop is None:
                continue
            other = sorted({a.attr for a in walk_function(prop.node) if isinstance(a, ast.Attribute) and isinstance(a.value, ast.Name) and a.value.id == prop.params[0]
                            and a.attr not in {"indices", "limits", "variables"}})
            if other:
                return f"`{n.attr}` also reads self.{', self.'.join(other)}"
    return None


def _direct_stmts(body):
    return list(body)


def _test_uses_bound_local(m: FuncInfo, test: ast.AST) -> bool:
    rd = RD(m.node)
    for d in rd.closure(rd.uses(test)):
        if d.value is not None and any(isinstance(n, ast.Attribute) and n.attr in {"indices", "limits", "variables"} for n in ast.walk(d.value)):
            return True
    return False


def check_binder(ctx: Check, tree: Tree) -> None:
    n = 0
    for q, cls in sorted(handwritten_expr_classes(tree).items()):
        sub = subtracting_free_symbols(cls)
        ext = set(tree.external_bases(cls))
        if sub is None:
            if ext & EXTERNAL_BINDERS:
                n += 1
                own = {"free_symbols", "_eval_subs"} & set(cls.methods)
                ctx.verdict(
                    own != {"free_symbols"},
                    "R-BINDER",
                    f"{q}::inherited-binder",
                    tree.loc(cls.node),
                    f"{cls.name} inherits its binding discipline from {sorted(ext & EXTERNAL_BINDERS)} (overrides: {sorted(own) or 'none'})",
                    "overrides free_symbols but not _eval_subs" if own == {"free_symbols"} else None,
                )
            continue
        n += 1
        ok, why = subs_guard(tree, cls)
        ctx.verdict(
            ok,
            "R-BINDER",
            f"{q}::binder-without-subs-guard",
            tree.loc(cls.methods["free_symbols"].node),
            f"{cls.name}.free_symbols removes `{unparse(sub.right)[:50]}` (bound symbols) - substitution must leave them alone: {why}",
            None if ok else "PoolSum(f(i,j),(i,(1,2)),...).subs(i,5) rewrites the bound index; evaluate() itself substitutes with .subs, so a nested sum with a shadowed index is corrupted",
        )
    if n < 2:
        raise AnalysisError(f"only {n} binder classes found (PoolSum, UnevaluatableIntegral, _SymbolicSum confirmed)")


def check_free_symbols(ctx: Check, tree: Tree) -> None:
    cls = tree.cls(POOLSUM)
    sub = subtracting_free_symbols(cls)
    fs = cls.methods.get("free_symbols")
    if fs is None or sub is None:
        raise AnalysisError("vanished anchor: PoolSum.free_symbols no longer subtracts the indices")
    problems = []
    # read through local temporaries: `bound = {...}; symbols = super().free_symbols; return symbols - bound`
    rd = RD(fs.node)
    inl = Inliner(fs.node, rd)
    left = inl.expr(sub.left)
    if isinstance(left, ast.Name):  # `symbols -= {...}`: the minuend is what `symbols` held before
        for d in [d for d in rd.defs if d.kind == "aug" and d.name == left.id]:
            before = rd.reaching(d.node.target)
            if len(before) == 1 and next(iter(before)).kind == "assign" and next(iter(before)).value is not None:
                left = inl.expr(next(iter(before)).value)
    right = inl.expr(sub.right)
    while isinstance(right, ast.Call) and isinstance(right.func, ast.Name) and right.func.id in {"set", "frozenset"} and len(right.args) == 1 and not right.keywords:
        right = right.args[0]
    if "free_symbols" not in unparse(left):
        problems.append(f"minuend `{unparse(left)}` is not the summand's/super's free_symbols")
    if index_role(right) == "symbols":
        pass  # the index symbols, in any of the spellings index_role understands
    elif isinstance(right, ast.SetComp) and len(right.generators) == 1:
        gen = right.generators[0]
        if gen.ifs:
            problems.append("subtrahend is filtered")
        if "indices" not in unparse(gen.iter):
            problems.append(f"subtrahend iterates `{unparse(gen.iter)}`, not the indices")
        if isinstance(gen.target, ast.Tuple) and isinstance(right.elt, ast.Name):
            names = [unparse(e) for e in gen.target.elts]
            if names.index(right.elt.id) != 0 if right.elt.id in names else True:
                problems.append(f"subtrahend takes `{right.elt.id}`, not the index symbol (first tuple element)")
        else:
            problems.append("subtrahend shape not recognised")
    else:
        txt = unparse(right)
        if "indices" not in txt:
            problems.append(f"subtrahend `{txt}` does not derive from the indices")
    ctx.verdict(not problems, "R-FREE", f"{POOLSUM}.free_symbols::subtrahend", tree.loc(fs.node),
                f"PoolSum.free_symbols = {unparse(sub)[:80]}", problems or None)


PAIRS = {"self.indices", "self.args[1:]"}


def _unwrap(e: ast.AST) -> ast.AST:
    """list(x) / tuple(x) / iter(x): the same elements in the same order."""
    while isinstance(e, ast.Call) and isinstance(e.func, ast.Name) and e.func.id in {"list", "tuple", "iter"} and len(e.args) == 1 and not e.keywords:
        e = e.args[0]
    return e


def _element_role(e: ast.AST, target: ast.AST) -> str | None:
    """Role of an expression built from one (symbol, pool) pair bound to ``target``."""
    e = _unwrap(e)
    if isinstance(target, ast.Tuple) and len(target.elts) == 2 and all(isinstance(t, ast.Name) for t in target.elts):
        first, second = (t.id for t in target.elts)
        if isinstance(e, ast.Name):
            return "symbols" if e.id == first else "pools" if e.id == second else None
        if isinstance(e, ast.Tuple) and len(e.elts) == 2 and _element_role(e.elts[0], target) == "symbols" and _element_role(e.elts[1], target) == "pools":
            return "pairs"
        return None
    if isinstance(target, ast.Name):
        if isinstance(e, ast.Name) and e.id == target.id:
            return "pairs"
        if isinstance(e, ast.Subscript) and isinstance(e.value, ast.Name) and e.value.id == target.id and isinstance(e.slice, ast.Constant) and e.slice.value in (0, 1):
            return "symbols" if e.slice.value == 0 else "pools"
    return None


def _mapping_roles(e: ast.AST) -> tuple[str, str, bool] | None:
    """(role of the keys, role of the values, complete) of a dictionary built from the index pairs."""
    if isinstance(e, ast.Call) and unparse(e.func).split(".")[-1] in {"dict", "OrderedDict"} and len(e.args) == 1 and not e.keywords:
        r = seq_role(e.args[0])
        if r is not None and r[0] == "pairs":
            return "symbols", "pools", r[1]
        return None
    if isinstance(e, ast.DictComp) and len(e.generators) == 1:
        gen = e.generators[0]
        src = seq_role(gen.iter)
        if src is None or src[0] != "pairs":
            return None
        k, v = _element_role(e.key, gen.target), _element_role(e.value, gen.target)
        if k is None or v is None:
            return None
        return k, v, src[1] and not gen.ifs
    return None


def seq_role(e: ast.AST) -> tuple[str, bool] | None:
    """What an (inlined) expression enumerates, in the order of the indices: ("symbols" | "pools" | "pairs",
    complete?) - None if it is not recognisably derived from ``self.indices``.  complete=False: a slice or a
    filtered comprehension (some indices are missing)."""
    e = _unwrap(e)
    if unparse(e) in PAIRS:
        return "pairs", True
    if isinstance(e, ast.Call) and isinstance(e.func, ast.Attribute) and e.func.attr in {"keys", "values", "items"} and not e.args and not e.keywords:
        m = _mapping_roles(_unwrap(e.func.value)) if not isinstance(e.func.value, ast.Name) else None
        if m is None:
            return None
        k, v, complete = m
        if e.func.attr == "items":
            return ("pairs", complete) if (k, v) == ("symbols", "pools") else None
        return (k if e.func.attr == "keys" else v), complete
    m = _mapping_roles(e)
    if m is not None:  # iterating a dictionary gives its keys
        return m[0], m[2]
    if isinstance(e, (ast.ListComp, ast.GeneratorExp, ast.SetComp)) and len(e.generators) == 1:
        gen = e.generators[0]
        src = seq_role(gen.iter)
        if src is None or src[0] != "pairs":
            return None
        role = _element_role(e.elt, gen.target)
        return None if role is None else (role, src[1] and not gen.ifs)
    if isinstance(e, ast.Subscript):
        if isinstance(e.slice, ast.Slice):
            r = seq_role(e.value)
            return None if r is None else (r[0], False)
        # symbols, pools = zip(*self.indices)
        z = e.value
        if (isinstance(z, ast.Call) and isinstance(z.func, ast.Name) and z.func.id == "zip" and len(z.args) == 1 and isinstance(z.args[0], ast.Starred)
                and isinstance(e.slice, ast.Constant) and e.slice.value in (0, 1)):
            r = seq_role(z.args[0].value)
            if r is not None and r[0] == "pairs":
                return ("symbols" if e.slice.value == 0 else "pools"), r[1]
    return None


def index_role(expr: ast.AST) -> str | None:
    """Is this (inlined) expression the complete sequence of index symbols or of index pools?"""
    r = seq_role(expr)
    return r[0] if r is not None and r[1] and r[0] in {"symbols", "pools"} else None


WRONG_COMBINATORS = {"zip", "itertools.zip_longest", "itertools.combinations", "itertools.permutations", "itertools.combinations_with_replacement", "itertools.chain", "map", "enumerate"}


def check_evaluate(ctx: Check, tree: Tree) -> None:
    """The value of evaluate() in closed form (locals inlined, accumulator loops already comprehensions):
    Add(*[summand.subs(zip(index symbols, combi)) for combi in itertools.product(*all pools)]).  ``problems`` are
    recognised deviations (violation); ``unknown`` are shapes the rule cannot interpret (ANALYSIS-ERROR unless a
    definite problem was found as well)."""
    cls = tree.cls(POOLSUM)
    ev = cls.methods.get("evaluate")
    if ev is None:
        raise AnalysisError("vanished anchor: PoolSum.evaluate")
    rd = RD(ev.node)
    inl = CallInliner(tree, ev, rd)  # locals and extracted helpers read through
    key = f"{POOLSUM}.evaluate::shape"
    problems: list[str] = []
    unknown: list[str] = []
    ret = [n for n in walk_function(ev.node, nested=False) if isinstance(n, ast.Return)]
    if len(ret) != 1:
        raise AnalysisError("PoolSum.evaluate: expected exactly one return")
    val = inl.expr(ret[0].value)

    def resolved(call: ast.AST) -> str | None:
        if isinstance(call, ast.Call) and getattr(call, "_module", None) is not None:
            return tree.callee(call, ev)
        return None

    comp = None
    if isinstance(val, ast.Call):
        q = resolved(val) or unparse(val.func)
        if q == "sympy.Add" or (q == "sum" and len(val.args) == 1 and not val.keywords):
            pass
        elif q.startswith("sympy.") or q in {"max", "min", "math.prod"}:
            problems.append(f"result is `{unparse(val.func)}`, not sp.Add(...)")
        else:
            unknown.append(f"result is built by `{unparse(val.func)}`")
        for a in val.args:
            inner = a.value if isinstance(a, ast.Starred) else a
            if isinstance(inner, (ast.ListComp, ast.GeneratorExp)):
                comp = inner
    else:
        unknown.append(f"result `{unparse(val)[:60]}` is not a call")
    if comp is None:
        unknown.append("no comprehension over the index combinations")
    else:
        if any(g.ifs for g in comp.generators):
            problems.append("combinations are filtered")
        if len(comp.generators) != 1:
            unknown.append("combinations are nested differently")
        gen = comp.generators[0]
        it = gen.iter
        callee = resolved(it)
        if callee != "itertools.product":
            if callee in WRONG_COMBINATORS or (isinstance(it, ast.Call) and unparse(it.func) in WRONG_COMBINATORS):
                problems.append(f"combinations come from `{callee or unparse(it)[:40]}`, not itertools.product")
            else:
                unknown.append(f"combinations come from `{unparse(it)[:60]}`")
        elif not (isinstance(it, ast.Call) and len(it.args) == 1 and isinstance(it.args[0], ast.Starred) and not it.keywords):
            unknown.append("itertools.product is not applied to one starred sequence of pools")
        else:
            pools = it.args[0].value
            r = seq_role(pools)
            if r is None:
                stored = [n for n in ast.walk(pools) if isinstance(n, ast.Name) and any(d.kind in {"store", "aug"} for d in rd.reaching(getattr(n, "_origin", n)))]
                (problems if stored else unknown).append(f"`{unparse(pools)[:70]}` is not the sequence of all index pools" + (f" (`{stored[0].id}` is modified after it was built)" if stored else ""))
            elif r != ("pools", True):
                problems.append(f"`{unparse(pools)[:70]}` is not the sequence of all index pools ({r[0]}{'' if r[1] else ', incomplete'})")
        # element: self.expression.subs(zip(<index symbols>, combi)) / xreplace(dict(zip(...)))
        elt = comp.elt
        combi = unparse(gen.target)
        if isinstance(elt, ast.Call) and isinstance(elt.func, ast.Attribute) and elt.func.attr in {"subs", "xreplace"}:
            base = elt.func.value
            if unparse(base) not in {"self.expression", "self.args[0]"}:
                # a local with several definitions: is every one of them the summand?
                defs = rd.reaching(getattr(base, "_origin", base)) if isinstance(base, ast.Name) else set()
                others = [unparse(d.value)[:40] for d in defs if d.value is not None and unparse(inl.expr(d.value)) not in {"self.expression", "self.args[0]"}]
                if others or not isinstance(base, ast.Name):
                    problems.append(f"substitution is applied to `{unparse(base)[:40]}`, not the summand" + (f" (it may hold `{others[0]}`)" if others else ""))
                else:
                    unknown.append(f"substitution is applied to `{unparse(base)[:40]}`")
            arg = elt.args[0] if elt.args else None
            while isinstance(arg, ast.Call) and isinstance(arg.func, ast.Name) and arg.func.id in {"list", "tuple", "dict"} and len(arg.args) == 1 and not arg.keywords:
                arg = arg.args[0]
            zips = [arg] if isinstance(arg, ast.Call) and isinstance(arg.func, ast.Name) and arg.func.id == "zip" else []
            if len(zips) == 1 and len(zips[0].args) == 2:
                a0, a1 = (unparse(x) for x in zips[0].args)
                if a1 != combi:
                    problems.append(f"zip pairs `{a0[:40]}` with `{a1[:40]}` instead of the combination `{combi}`")
                r = seq_role(zips[0].args[0])
                if r is None:
                    unknown.append(f"zip keys `{a0[:60]}`")
                elif r != ("symbols", True):
                    problems.append(f"zip keys `{a0[:60]}` are not the index symbols ({r[0]}{'' if r[1] else ', incomplete'})")
            else:
                unknown.append(f"summand element `{unparse(elt)[:60]}` is not <summand>.subs(zip(<indices>, <combination>))")
        else:
            unknown.append(f"summand element `{unparse(elt)[:60]}` is not <summand>.subs(zip(<indices>, <combination>))")
    if unknown and not problems:
        raise AnalysisError("PoolSum.evaluate: cannot interpret - " + "; ".join(unknown))
    ctx.verdict(not problems, "R-SUMSHAPE", key, tree.loc(ev.node),
                "PoolSum.evaluate = Add(*[summand.subs(zip(index symbols, combi)) for combi in itertools.product(*all pools)])", (problems + [f"(not interpreted: {u})" for u in unknown]) or None)
    # doit delegates to evaluate
    doit = cls.methods.get("doit")
    if doit is not None:
        calls_eval = any(isinstance(n, ast.Call) and unparse(n.func) == "self.evaluate" for n in walk_function(doit.node))
        ctx.verdict(calls_eval, "R-SUMSHAPE", f"{POOLSUM}.doit::delegates", tree.loc(doit.node), "PoolSum.doit unfolds through self.evaluate()")


def check_new(ctx: Check, tree: Tree) -> bool:
    """__new__ rejects empty pools (makes the `len(values) == 0` path of cleanup dead)."""
    from ..canon import emptiness_fact

    new = tree.cls(POOLSUM).methods.get("__new__")
    if new is None:
        return False
    # ... in __new__ itself or in a helper of the same module that it calls (extracted validation):
    # a branch that raises exactly when a container taken from the loop over the indices is empty
    reach = [q for q in tree.reachable(new.qual) if q in tree.funcs and tree.funcs[q].module is new.module]
    for q in reach:
        g = tree.funcs[q]
        rd = RD(g.node)

        def from_loop(e: ast.AST, rd=rd, g=g) -> bool:
            if not isinstance(e, ast.Name):
                return False
            deps = rd.closure(rd.reaching(e))
            if any(d.kind == "for" for d in deps):
                return True
            # a validating helper receives the pool of ONE index as a parameter (the loop over the indices is at its call site)
            return g.qual != new.qual and any(d.kind == "param" for d in deps)

        for node in walk_function(g.node):
            if not isinstance(node, ast.If):
                continue
            for outcome, branch in ((True, node.body), (False, node.orelse)):
                if any(isinstance(s, ast.Raise) for s in branch) and emptiness_fact(node.test, outcome, from_loop) == "empty":
                    return True
    return False


def _name_safe(text: str, idx: str, values: str) -> str:
    import re

    text = re.sub(rf"\b{re.escape(idx)}\b", "<index>", text)
    return re.sub(rf"\b{re.escape(values)}\b", "<pool>", text)


def _poolsum_call(tree: Tree, fn: FuncInfo, e: ast.AST) -> bool:
    if not isinstance(e, ast.Call):
        return False
    q = tree.callee(e, fn) if getattr(e, "_module", None) is not None else None
    return q == POOLSUM or "PoolSum" in unparse(e.func) or unparse(e.func) in {"type(self)", "self.__class__", "self.func"}


def _stores_into(st: ast.AST) -> tuple[str, ast.AST] | None:
    """(container, what is put in) for the statements that put something into a local container."""
    if isinstance(st, ast.Assign) and len(st.targets) == 1 and isinstance(st.targets[0], ast.Subscript) and isinstance(st.targets[0].value, ast.Name):
        return st.targets[0].value.id, ast.Tuple(elts=[st.targets[0].slice, st.value], ctx=ast.Load())
    if isinstance(st, ast.Expr) and isinstance(st.value, ast.Call) and isinstance(st.value.func, ast.Attribute) and isinstance(st.value.func.value, ast.Name) \
            and st.value.func.attr in {"append", "add", "insert", "update", "extend", "setdefault", "__setitem__"}:
        return st.value.func.value.id, ast.Tuple(elts=list(st.value.args), ctx=ast.Load())
    if isinstance(st, ast.AugAssign) and isinstance(st.target, ast.Name) and isinstance(st.op, (ast.Add, ast.BitOr)):
        return st.target.id, st.value
    if isinstance(st, ast.Assign) and len(st.targets) == 1 and isinstance(st.targets[0], ast.Name) and any(
            isinstance(n, ast.Name) and n.id == st.targets[0].id for n in ast.walk(st.value)):
        return st.targets[0].id, st.value  # acc = [*acc, x] / acc = acc + [x]
    return None


def _pool_sizes(test: ast.AST, outcome: bool, is_pool) -> set[int] | None:
    """The abstract sizes of the pool (0, 1, 2 = two or more) for which the test can have this outcome; None
    if the test does not compare the size of the pool with a constant.  `len(v) == 1`, `len(v) != 1`, `len(v) > 1`,
    `1 < len(v)`, `not v`, `v == ()` ... all become statements about the same three cases."""
    from ..canon import normal_test

    test, outcome = normal_test(test, outcome)

    def is_len(e):
        return isinstance(e, ast.Call) and isinstance(e.func, ast.Name) and e.func.id == "len" and len(e.args) == 1 and not e.keywords and is_pool(e.args[0])

    def empty_display(e):
        return (isinstance(e, (ast.List, ast.Tuple, ast.Set)) and not e.elts) or (isinstance(e, ast.Dict) and not e.keys) or (
            isinstance(e, ast.Call) and isinstance(e.func, ast.Name) and e.func.id in {"tuple", "list", "set", "frozenset"} and not e.args and not e.keywords)

    if is_pool(test) or is_len(test):
        return {1, 2} if outcome else {0}
    if not (isinstance(test, ast.Compare) and len(test.ops) == 1):
        return None
    a, op, b = test.left, test.ops[0], test.comparators[0]
    if isinstance(op, ast.Eq) and ((is_pool(a) and empty_display(b)) or (is_pool(b) and empty_display(a))):
        return {0} if outcome else {1, 2}
    mirror = {ast.Lt: ast.Gt, ast.Gt: ast.Lt, ast.LtE: ast.GtE, ast.GtE: ast.LtE, ast.Eq: ast.Eq}
    if is_len(b) and isinstance(a, ast.Constant) and type(op) in mirror:
        a, op, b = b, mirror[type(op)](), a
    if not (is_len(a) and isinstance(b, ast.Constant) and isinstance(b.value, int) and not isinstance(b.value, bool)):
        return None
    k = b.value
    holds = {ast.Eq: lambda n: n == k, ast.Lt: lambda n: n < k, ast.LtE: lambda n: n <= k, ast.Gt: lambda n: n > k, ast.GtE: lambda n: n >= k}.get(type(op))
    if holds is None:
        return None
    out = set()
    for size, members in ((0, [0]), (1, [1]), (2, range(2, max(k, 2) + 3))):
        if any(holds(n) == outcome for n in members):
            out.add(size)
    return out


def check_cleanup(ctx: Check, tree: Tree) -> None:
    from ..canon import emptiness_fact, normal_test
    from ..paths import atomic_tests

    cls = tree.cls(POOLSUM)
    fn = cls.methods.get("cleanup")
    if fn is None:
        raise AnalysisError("vanished anchor: PoolSum.cleanup")
    rd = RD(fn.node)
    inl = CallInliner(tree, fn, rd)
    loops = [n for n in walk_function(fn.node) if isinstance(n, ast.For) and "indices" in unparse(inl.expr(n.iter))]
    if len(loops) != 1:
        raise AnalysisError("PoolSum.cleanup: expected one loop over self.indices")
    loop = loops[0]
    if not (isinstance(loop.target, ast.Tuple) and len(loop.target.elts) == 2):
        raise AnalysisError("PoolSum.cleanup: loop target is not (idx, values)")
    idx, values = (unparse(e) for e in loop.target.elts)
    empty_rejected = check_new(ctx, tree)
    # roles of the local containers: what goes into the rebuilt PoolSum(...) is retained, what is substituted into the summand is substituted
    returns = [r for r in walk_function(fn.node, nested=False) if isinstance(r, ast.Return) and r.value is not None]
    retained_names: set[str] = set()
    subst_names: set[str] = set()
    for c in [c for c in walk_function(fn.node, nested=False) if isinstance(c, ast.Call) and _poolsum_call(tree, fn, c)]:
        for a in inl.expr(c).args[1:]:
            retained_names |= {n.id for n in ast.walk(a) if isinstance(n, ast.Name)}
    for node in walk_function(fn.node, nested=False):
        if isinstance(node, ast.Call) and isinstance(node.func, ast.Attribute) and node.func.attr in {"subs", "xreplace", "replace"} and node.args:
            if unparse(inl.expr(node.func.value)) in {"self.expression", "self.args[0]"}:
                subst_names |= {n.id for n in ast.walk(inl.expr(node.args[0])) if isinstance(n, ast.Name)}
    containers = {c for st in walk_function(loop, nested=False) for c in [(_stores_into(st) or (None,))[0]] if c}
    retained_names &= containers
    subst_names &= containers
    if not retained_names:
        raise AnalysisError("PoolSum.cleanup: no container of retained indices flows into the rebuilt PoolSum(...)")
    walker = PathWalker(tree)

    def is_pool(e: ast.AST) -> bool:
        return isinstance(e, ast.Name) and e.id == values

    domain = {1, 2} if empty_rejected else {0, 1, 2}
    render = {frozenset({0}): "len(<pool>) == 0", frozenset({1}): "len(<pool>) == 1", frozenset({2}): "len(<pool>) > 1", frozenset({0, 1}): "len(<pool>) <= 1",
              frozenset({1, 2}): "len(<pool>) >= 1", frozenset({0, 2}): "len(<pool>) != 1"}
    # paths through one loop iteration only: wrap the body
    seen: dict[str, tuple] = {}
    for events0, status, _ in walker._block(loop.body, fn, 0):
        for events in atomic_tests(events0):
            tests = []  # conditions that are not about the size of the pool, in positive normal form
            raw = []
            sizes = set(domain)  # abstract pool sizes (0, 1, 2 = several) this path is taken for
            for e in events:
                if e[0] == "test":
                    inlined = inl.expr(e[1])
                    t_, o_ = normal_test(inlined, e[2])
                    raw.append((_name_safe(unparse(t_), idx, values), o_))
                    possible = _pool_sizes(inlined, e[2], is_pool)
                    if possible is None:
                        tests.append(raw[-1])
                    else:
                        sizes &= possible
            if len({t for t, _ in tests}) < len(set(tests)):
                continue  # contradictory alternative (a test with both outcomes): not a path
            stmts = [e[1] for e in events if e[0] == "stmt"]
            stores = [s_ for s_ in map(_stores_into, stmts) if s_ is not None and idx in {n.id for n in ast.walk(s_[1]) if isinstance(n, ast.Name)}]
            retained = any(c in retained_names for c, _ in stores)
            substituted = any(c in subst_names for c, _ in stores)
            # compensation: a product with the pool size
            compensated = False
            for s_ in stmts:
                if isinstance(s_, (ast.Assign, ast.AugAssign)) and s_.value is not None:
                    val = inl.expr(s_.value)
                    mult = (isinstance(s_, ast.AugAssign) and isinstance(s_.op, ast.Mult)) or any(
                        isinstance(n, ast.BinOp) and isinstance(n.op, ast.Mult) for n in ast.walk(val)) or any(
                        isinstance(n, ast.Call) and unparse(n.func).split(".")[-1] == "Mul" for n in ast.walk(val))
                    if mult and f"len({values})" in unparse(val):
                        compensated = True
            if not sizes:
                cond = " and ".join(f"{'' if o else 'not '}({t})" for t, o in raw) or "always"
                seen[cond] = ("dead", sizes)
                continue
            shown = list(tests)
            if sizes != domain:
                shown.append((render[frozenset(sizes)], True))
            cond = " and ".join(f"{'' if o else 'not '}({t})" for t, o in shown) or "always"
            fate = "retained" if retained else "substituted" if substituted else "compensated" if compensated else "dropped"
            seen[cond] = (fate, sizes)
    if len(seen) < 3:
        raise AnalysisError(f"PoolSum.cleanup: only {len(seen)} paths through the loop body")
    for cond, (fate, sizes) in sorted(seen.items()):
        where = tree.loc(loop)
        what = f"PoolSum.cleanup, index with [{cond}]: {fate}"
        if fate == "dead":
            ctx.ok("R-DROP", where, f"PoolSum.cleanup, index with [{cond}]: dropped - dead path: PoolSum.__new__ rejects empty pools")
        elif fate == "substituted":
            # a substituted index must have exactly one value on this path
            single = sizes <= {1}
            ctx.verdict(single, "R-DROP", f"{POOLSUM}.cleanup::substitute::{cond}", where, what + " by its single value",
                        None if single else "substituted although the pool may hold several values")
        elif fate != "dropped":
            ctx.ok("R-DROP", where, what)
        else:
            ctx.violation(
                "R-DROP",
                f"{POOLSUM}.cleanup::drop::{cond}",
                where,
                what + " without the factor len(<pool>)",
                "PoolSum(x, (i, [0,1,2])): .doit() = 3*x, .cleanup() = x - an index that does not occur in the summand still multiplies the sum by its pool size",
            )
    # the rebuilt sum uses the substituted summand and all retained indices
    loop_containers = {c for st in walk_function(loop, nested=False) for c in [(_stores_into(st) or (None,))[0]] if c and isinstance(st, ast.Assign) and isinstance(st.targets[0], ast.Subscript)}
    function_paths = PathWalker(tree).paths(fn)

    def path_value(p, ret: ast.Return) -> ast.AST:
        """What this path returns: a returned local that was assigned in several branches is the value of
        the assignment the path went through."""
        v = ret.value
        for _ in range(5):
            if not (isinstance(v, ast.Name) and len(rd.reaching(v)) > 1):
                break
            last = None
            for e in p.events:
                if e[0] == "stmt" and isinstance(e[1], (ast.Assign, ast.AnnAssign)) and e[1].value is not None:
                    tgts = e[1].targets if isinstance(e[1], ast.Assign) else [e[1].target]
                    if any(isinstance(t, ast.Name) and t.id == v.id for t in tgts):
                        last = e[1].value
            if last is None:
                break
            v = last
        return inl.expr(v)

    def whole(e: ast.AST) -> bool:
        while isinstance(e, ast.Call) and isinstance(e.func, ast.Name) and e.func.id in {"tuple", "list"} and len(e.args) == 1 and not e.keywords:
            e = e.args[0]
        return isinstance(e, ast.Name) and e.id in retained_names

    for ret, _ in rd.returns:
        if ret.value is None:
            continue
        deps = {d.name for d in rd.closure(rd.uses(ret.value))}
        ok = bool((loop_containers | subst_names) & deps)
        ctx.verdict(ok, "R-DROP", f"{POOLSUM}.cleanup::return::{unparse(ret.value)[:40]}", tree.loc(ret),
                    f"PoolSum.cleanup `{unparse(ret)[:60]}` applies the collected substitutions", None if ok else "single-valued indices are dropped without being substituted")
        reaching = [p for p in function_paths if p.exit == "return" and p.exit_node is ret]
        if not reaching:
            raise AnalysisError(f"PoolSum.cleanup: no path reaches `{unparse(ret)[:50]}`")
        bare_paths, sum_values, bad_paths = 0, [], []
        for p in reaching:
            value = path_value(p, ret)
            if _poolsum_call(tree, fn, value):
                sum_values.append(value)
                continue
            bare_paths += 1
            # the bare summand may only be returned when no summation index is left: the path has established, after
            # the loop, that the container(s) of retained indices are empty
            after = p.events
            for i, e in enumerate(p.events):
                if (e[0] == "iter" and e[1] is loop) or (e[0] in {"stmt", "test"} and any(e[1] is n for n in ast.walk(loop))):
                    after = p.events[i + 1:]
            for alt in atomic_tests(after):
                for r_ in sorted(retained_names):
                    facts = {emptiness_fact(inl.expr(e[1]), e[2], lambda x, r_=r_: isinstance(x, ast.Name) and x.id == r_) for e in alt if e[0] == "test"}
                    if "empty" not in facts or "nonempty" in facts:
                        bad_paths.append(" and ".join(f"{'' if e[2] else 'not '}({unparse(e[1])[:40]})" for e in alt if e[0] == "test") or "unconditionally")
        if bare_paths:
            ok3 = not bad_paths
            ctx.verdict(ok3, "R-DROP", f"{POOLSUM}.cleanup::bare-summand-iff-no-index", tree.loc(ret),
                        "PoolSum.cleanup returns the bare summand only when no summation index is retained",
                        None if ok3 else {"returned-when": sorted(set(bad_paths))[:4]})
        if sum_values:
            ok2 = all(any(isinstance(a, ast.Starred) for a in v.args) and all(whole(a.value) for a in v.args if isinstance(a, ast.Starred)) for v in sum_values)
            ctx.verdict(ok2, "R-DROP", f"{POOLSUM}.cleanup::return-indices", tree.loc(ret), "PoolSum.cleanup rebuilds the sum with all retained indices")


def check_binding_aware_substitution(ctx: Check, tree: Tree) -> None:
    """R-BINDSUBST: wherever a binder class substitutes values for its OWN index symbols into
    the summand it must use the binding-aware primitive (`subs`, which consults the
    `_eval_subs` guard of nested sums).  `xreplace` is purely structural: it also rewrites
    an index of the same name that is bound by a nested PoolSum."""
    cls = tree.cls(POOLSUM)
    sites: dict[tuple, tuple] = {}
    for name, m in sorted(cls.methods.items()):
        rd = RD(m.node)
        inl = CallInliner(tree, m, rd)
        # every expression a statement of the method evaluates, in closed form: locals read through (`summand =
        # self.expression; summand.subs(...)` is the same call) and helper methods replaced by the value they return
        exprs = []
        for st in walk_function(m.node, nested=False):
            if isinstance(st, (ast.Return, ast.Assign, ast.AnnAssign, ast.AugAssign, ast.Expr)) and st.value is not None:
                exprs.append(st.value)
            elif isinstance(st, (ast.If, ast.While)):
                exprs.append(st.test)
            elif isinstance(st, ast.For):
                exprs.append(st.iter)
        for e in exprs:
            for node in ast.walk(inl.expr(e)):
                if not (isinstance(node, ast.Call) and isinstance(node.func, ast.Attribute) and node.func.attr in {"subs", "xreplace", "replace"}):
                    continue
                if unparse(node.func.value) not in {"self.expression", "self.args[0]"} or not node.args:
                    continue
                # does the mapping consist of this sum's own index symbols?
                arg = node.args[0]
                texts = [unparse(arg)]
                for n_ in ast.walk(arg):
                    if isinstance(n_, ast.Name) and isinstance(n_.ctx, ast.Load):
                        closure = rd.closure(rd.reaching(getattr(n_, "_origin", n_)))
                        texts += [unparse(inl.expr(d.value)) for d in closure if isinstance(d.value, ast.AST)]
                        texts += [unparse(inl.expr(d.node.iter)) for d in closure if d.kind == "for" and hasattr(d.node, "iter")]
                if not any("self.indices" in t or "self.args[1:]" in t for t in texts):
                    continue
                where = tree.func_of(node) or m  # the method the call is written in (a helper that was read through)
                sites.setdefault((tree.loc(node), getattr(node, "col_offset", 0)), (node, where))
    for (loc, _), (node, where) in sorted(sites.items()):
        ok = node.func.attr == "subs"
        ctx.verdict(ok, "R-BINDSUBST", f"{where.qual}::{node.func.attr} of own indices", loc,
                    f"PoolSum.{where.name}: `{unparse(node)[:60]}` substitutes the sum's own index symbols into the summand with {node.func.attr}()",
                    None if ok else "xreplace ignores binding: PoolSum(i + PoolSum(i**2, (i, (1, 2))), (i, (3,))).cleanup() rewrites the inner, shadowed index -> value 21 instead of 8")
    if len(sites) < 2:
        raise AnalysisError(f"only {len(sites)} substitutions of own indices found in PoolSum (evaluate and cleanup confirmed)")


def check_external_expansion(ctx: Check, tree: Tree) -> None:
    """R-BINDSUBST outside the class: any function of the package that substitutes the index symbols
    of a PoolSum (taken from `<sum>.indices`) into its summand (`<sum>.expression`) - a hand-written
    expansion next to PoolSum.evaluate(), e.g. inside HelicityModel.expression - must use subs();
    R-SINGLE: and whoever unfolds PoolSums should go through PoolSum.evaluate()."""
    n = 0
    for q, fn in sorted(tree.funcs.items()):
        if not q.startswith("ampform") or fn.outer is not None or (fn.cls is not None and fn.cls.qual == POOLSUM):
            continue
        rd = RD(fn.node)
        for node in walk_function(fn.node, nested=True):
            if not (isinstance(node, ast.Call) and isinstance(node.func, ast.Attribute) and node.func.attr in {"subs", "xreplace", "replace"} and node.args):
                continue
            recv = node.func.value
            if not (isinstance(recv, ast.Attribute) and recv.attr == "expression"):
                continue
            owner = unparse(recv.value)
            arg = node.args[0]
            texts = [unparse(arg)] + [unparse(d.value) for d in rd.closure(rd.uses(arg)) if isinstance(d.value, ast.AST)]
            texts += [unparse(d.node.iter) for d in rd.closure(rd.uses(arg)) if d.kind in {"for", "comp"} and hasattr(d.node, "iter")]
            if not any(f"{owner}.indices" in t for t in texts):
                continue
            n += 1
            ok = node.func.attr == "subs"
            ctx.verdict(ok, "R-BINDSUBST", f"{q}::{node.func.attr} of the indices of `{owner}`", tree.loc(node),
                        f"{q}: `{unparse(node)[:60]}` substitutes the index symbols of the PoolSum `{owner}` into its summand with {node.func.attr}()",
                        None if ok else "xreplace also rewrites an index of the same name bound by a nested PoolSum: the hand-written expansion and PoolSum.evaluate() disagree for shadowed indices")
    if n == 0:
        ctx.ok("R-BINDSUBST", "src/ampform", "no function outside PoolSum substitutes the indices of a PoolSum into its summand (all expansions go through PoolSum.evaluate)")


def check_subs_returns(ctx: Check, tree: Tree) -> None:
    """R-BINDER (returns): PoolSum._eval_subs may only answer `self` for a bound symbol and otherwise
    leave the substitution to SymPy (`return None`), which substitutes in the summand AND in the value
    pools.  A hand-made result that only visits the summand leaves the pools untouched
    (PoolSum(a**i, (i, (-J, J))).subs(J, 2)); a `return self` on any other condition (e.g. "old is not in
    my - possibly stale - free symbols") skips real substitutions."""
    cls = tree.cls(POOLSUM)
    m = cls.methods.get("_eval_subs")
    if m is None:
        raise AnalysisError("vanished anchor: PoolSum._eval_subs")
    self_, old = m.params[0], m.params[1]
    problems = []
    for r in [r for r in walk_function(m.node, nested=False) if isinstance(r, ast.Return)]:
        v = r.value
        guards = [a for a in ancestors(r) if isinstance(a, ast.If)]
        if v is None or (isinstance(v, ast.Constant) and v.value is None):
            continue
        if isinstance(v, ast.Name) and v.id == self_:
            own = any(any(isinstance(n, ast.Attribute) and n.attr == "indices" for n in ast.walk(g.test)) or _test_uses_bound_local(m, g.test) for g in guards)
            foreign = [unparse(g.test) for g in guards if not (any(isinstance(n, ast.Attribute) and n.attr in {"indices", "bound_symbols"} for n in ast.walk(g.test)) or _test_uses_bound_local(m, g.test))]
            if not own or foreign:
                problems.append(f"`return self` under `{' and '.join(unparse(g.test) for g in guards) or 'no condition'}` - not (only) the own-index test")
            continue
        problems.append(f"`{unparse(r)[:70]}` builds its own result: the value pools of the indices are not substituted")
    ctx.verdict(not problems, "R-BINDER", f"{m.qual}::returns", tree.loc(m.node),
                "PoolSum._eval_subs: `self` only for an own index, otherwise None (SymPy substitutes in the summand and in the pools)", problems or None)
    fs = cls.methods.get("free_symbols")
    decs = [unparse(d) for d in fs.node.decorator_list] if fs is not None else []
    ok = fs is not None and decs == ["property"]
    ctx.verdict(ok, "R-FREE", f"{POOLSUM}.free_symbols::recomputed", tree.loc(fs.node) if fs else tree.loc(cls.node),
                "PoolSum.free_symbols is a plain property: a fresh set on every access (a cached set is shared, mutable state of an immutable expression)",
                None if ok else f"decorators {decs}: callers routinely modify the set they get (`symbols = expr.free_symbols; symbols |= ...`)")


# ---------------------------------------------------------------------------------------------------------------------
# R-MULTISET: a pool is a sequence, not a set - repeated values count as often as they are listed
# ---------------------------------------------------------------------------------------------------------------------

M_PAIRS, M_PAIR, M_MAP, M_POOLS, M_POOL, M_VALUE, M_SYMS, M_SYM, M_COMBIS, M_COMBI = "pairs", "pair", "map", "pools", "pool", "value", "symbols", "symbol", "combinations", "combination"
_ELEM = {M_PAIRS: M_PAIR, M_POOLS: M_POOL, M_POOL: M_VALUE, M_SYMS: M_SYM, M_MAP: M_SYM, M_COMBIS: M_COMBI, M_COMBI: M_VALUE}
_SEQ_OF = {v: k for k, v in _ELEM.items() if k != M_MAP and k != M_COMBI}
_KEEP = {"tuple", "list", "sorted", "reversed", "iter", "sympy.sympify", "sympy.core.sympify._sympify", "sympy.Tuple", "sympy.S"}
_DEDUP = {"set", "frozenset", "dict.fromkeys", "sympy.FiniteSet", "numpy.unique", "collections.OrderedDict.fromkeys"}
_COUNTING = {"collections.Counter", "Counter"}


class _Roles:
    """Flow-insensitive roles of the locals of one function (what part of the index pools a name holds).  Only
    definite roles are recorded: a name with two different roles has none."""

    def __init__(self, tree: Tree, fn: FuncInfo, params: dict[str, str], seeds: dict[str, str] | None = None):
        self.tree, self.fn = tree, fn
        self.seeds = seeds if seeds is not None else {"self.indices": M_PAIRS, "self.args[1:]": M_PAIRS}
        self.env: dict[str, str | None] = dict(params)
        self.conflict: set[str] = set()
        for _ in range(4):
            before = dict(self.env)
            for n in walk_function(fn.node, nested=False):
                if isinstance(n, ast.Assign):
                    for t in n.targets:
                        self.bind(t, self.role(n.value))
                elif isinstance(n, ast.AnnAssign) and n.value is not None:
                    self.bind(n.target, self.role(n.value))
                elif isinstance(n, (ast.For, ast.comprehension)):
                    self.bind(n.target, _ELEM.get(self.role(n.iter) or ""), self.pair_of(n.iter))
            if before == self.env:
                break

    def pair_of(self, it: ast.AST) -> tuple[str, str] | None:
        r = self.role(it)
        if r == M_PAIRS:
            return M_SYM, M_POOL
        if isinstance(it, ast.Call) and isinstance(it.func, ast.Name) and it.func.id == "zip" and len(it.args) == 2:
            a, b = (self.role(x) for x in it.args)
            ea, eb = _ELEM.get(a or ""), _ELEM.get(b or "")
            if ea and eb:
                return ea, eb
        if isinstance(it, ast.Call) and isinstance(it.func, ast.Name) and it.func.id == "enumerate" and it.args:
            e = _ELEM.get(self.role(it.args[0]) or "")
            if e:
                return "", e
        return None

    def bind(self, target: ast.AST, role: str | None, pair: tuple[str, str] | None = None) -> None:
        if isinstance(target, ast.Name):
            if role is None:
                return
            if target.id in self.conflict:
                return
            old = self.env.get(target.id)
            if old is not None and old != role:
                self.conflict.add(target.id)
                self.env[target.id] = None
            else:
                self.env[target.id] = role
        elif isinstance(target, (ast.Tuple, ast.List)) and len(target.elts) == 2:
            if pair is None and role == "unzipped":
                pair = (M_SYMS, M_POOLS)
            if pair is None and role == M_PAIR:
                pair = (M_SYM, M_POOL)
            if pair is not None:
                for t, r in zip(target.elts, pair):
                    if isinstance(t, (ast.Tuple, ast.List)) and r == M_PAIR:
                        self.bind(t, M_PAIR)
                    else:
                        self.bind(t, r or None)

    def role(self, e: ast.AST | None) -> str | None:
        if e is None:
            return None
        if isinstance(e, ast.Starred):
            return self.role(e.value)
        if isinstance(e, ast.Name):
            return self.env.get(e.id)
        text = unparse(e)
        if text in self.seeds:
            return self.seeds[text]
        if isinstance(e, ast.Subscript):
            base = self.role(e.value)
            if isinstance(e.slice, ast.Slice):
                return base if base in {M_PAIRS, M_POOLS, M_POOL, M_SYMS} else None
            if base == M_PAIR and isinstance(e.slice, ast.Constant):
                return {0: M_SYM, 1: M_POOL}.get(e.slice.value)
            if base == M_MAP:
                return M_POOL
            return _ELEM.get(base or "") if base != M_MAP else None
        if isinstance(e, ast.Tuple) and len(e.elts) == 2 and self.role(e.elts[0]) == M_SYM and self.role(e.elts[1]) == M_POOL:
            return M_PAIR
        if isinstance(e, (ast.ListComp, ast.GeneratorExp)):
            sub = self
            return _SEQ_OF.get(sub.role(e.elt) or "")
        if isinstance(e, ast.DictComp):
            if self.role(e.key) == M_SYM and self.role(e.value) == M_POOL:
                return M_MAP
            return None
        if isinstance(e, ast.Call):
            if isinstance(e.func, ast.Attribute) and not e.args:
                base = self.role(e.func.value)
                if base == M_MAP:
                    return {"items": M_PAIRS, "values": M_POOLS, "keys": M_SYMS, "copy": M_MAP}.get(e.func.attr)
                if e.func.attr == "copy":
                    return base
            q = self.tree.callee(e, self.fn) or unparse(e.func)
            if q in _KEEP and len(e.args) == 1:
                return self.role(e.args[0])
            if q == "dict" and len(e.args) == 1 and self.role(e.args[0]) in {M_PAIRS, M_MAP}:
                return M_MAP
            if q == "itertools.product" and len(e.args) == 1 and isinstance(e.args[0], ast.Starred) and self.role(e.args[0]) == M_POOLS:
                return M_COMBIS
            if q == "zip" and len(e.args) == 1 and isinstance(e.args[0], ast.Starred) and self.role(e.args[0]) == M_PAIRS:
                return "unzipped"
            if q == "zip" and len(e.args) == 2 and self.role(e.args[0]) == M_SYMS and self.role(e.args[1]) == M_POOLS:
                return M_PAIRS
        return None


def _dedup_sites(tree: Tree, fn: FuncInfo, roles: _Roles):
    """(node, text, container name or None) for every construct that keeps each distinct pool value once."""
    for n in walk_function(fn.node, nested=False):
        if isinstance(n, ast.Call):
            q = tree.callee(n, fn) or unparse(n.func)
            if q in _DEDUP and n.args and roles.role(n.args[0]) == M_POOL:
                yield n, f"`{unparse(n)[:60]}` keeps each distinct value of the pool once"
        elif isinstance(n, ast.SetComp) and roles.role(n.elt) == M_VALUE:
            yield n, f"set comprehension `{unparse(n)[:60]}` over the values of a pool"
        elif isinstance(n, ast.DictComp) and roles.role(n.key) == M_VALUE:
            yield n, f"dictionary `{unparse(n)[:60]}` keyed by the values of a pool"
        elif isinstance(n, ast.Set) and any(isinstance(x, ast.Starred) and roles.role(x) == M_POOL for x in n.elts):
            yield n, f"set display `{unparse(n)[:60]}` of the values of a pool"


def _keyed_containers(fn: FuncInfo, roles: _Roles) -> dict[str, ast.AST]:
    """Locals that are filled under a pool value as key: D[value] = ..., D.add(value), D.setdefault(value, ...)."""
    out: dict[str, ast.AST] = {}
    for n in walk_function(fn.node, nested=False):
        if isinstance(n, (ast.Assign, ast.AugAssign)):
            for t in n.targets if isinstance(n, ast.Assign) else [n.target]:
                if isinstance(t, ast.Subscript) and isinstance(t.value, ast.Name) and roles.role(t.slice) == M_VALUE:
                    out.setdefault(t.value.id, n)
        elif isinstance(n, ast.Call) and isinstance(n.func, ast.Attribute) and isinstance(n.func.value, ast.Name) and n.func.attr in {"add", "setdefault"} and n.args and roles.role(n.args[0]) == M_VALUE:
            out.setdefault(n.func.value.id, n)
    return out


def _harmless_use(node: ast.AST) -> bool:
    """A use of a de-duplicated container that cannot lose a multiplicity: lookup, membership test, filling."""
    from ..loader import parent

    p = parent(node)
    if isinstance(p, ast.Subscript) and p.value is node:
        return True
    if isinstance(p, ast.Compare) and node in p.comparators and all(isinstance(o, (ast.In, ast.NotIn)) for o in p.ops):
        return True
    if isinstance(p, ast.Attribute) and p.value is node and p.attr in {"get", "add", "setdefault", "update", "__contains__", "pop"}:
        return True
    return False


def multiset_scan(tree: Tree, work: list[tuple[FuncInfo, dict[str, str]]], seeds: dict[str, str] | None, follow_prefix: str | None):
    """Shared core of R-MULTISET (C18) and R-OPERANDS (C08).  Returns (per function: findings, counting?), the functions
    read and the number of names that hold a tracked sequence / its elements."""
    from ..loader import parent

    seen: dict[str, dict[str, str]] = {}
    results: list[tuple[FuncInfo, list[tuple[ast.AST, str]], bool]] = []
    tracked_names = 0
    work = list(work)
    while work:
        fn, params = work.pop()
        if fn.qual in seen and seen[fn.qual] == params:
            continue
        if fn.qual in seen:  # called with different roles: keep only the agreeing ones
            params = {k: v for k, v in params.items() if seen[fn.qual].get(k, v) == v}
        seen[fn.qual] = params
        roles = _Roles(tree, fn, params, seeds)
        tracked_names += sum(1 for r in roles.env.values() if r in {M_POOL, M_POOLS, M_PAIRS, M_MAP, M_VALUE})
        counting = any(isinstance(n, ast.Call) and ((tree.callee(n, fn) or unparse(n.func)) in _COUNTING or (isinstance(n.func, ast.Attribute) and n.func.attr == "count")) for n in walk_function(fn.node, nested=False))
        findings: list[tuple[ast.AST, str]] = []
        named: dict[str, tuple[ast.AST, str]] = {}
        for node, text in _dedup_sites(tree, fn, roles):
            p = parent(node)
            if isinstance(p, ast.Assign) and len(p.targets) == 1 and isinstance(p.targets[0], ast.Name) and p.value is node:
                named[p.targets[0].id] = (node, text)
            elif not _harmless_use(node):
                findings.append((node, text + " and the result is used as the sequence of values"))
        for nm, st in _keyed_containers(fn, roles).items():
            named.setdefault(nm, (st, f"`{nm}` is filled under the elements of the sequence as key (`{unparse(st)[:50]}`)"))
        for nm, (node, text) in named.items():
            for use in walk_function(fn.node, nested=False):
                if isinstance(use, ast.Name) and use.id == nm and isinstance(use.ctx, ast.Load) and not _harmless_use(use):
                    findings.append((use, f"{text}; `{unparse(parent(use) or use)[:60]}` then reads it as a collection - repeated elements count once"))
                    break
        results.append((fn, findings, counting))
        # follow calls into the package with the roles of the arguments
        for call, callee in tree.calls_in(fn, nested=False):
            if not callee or callee not in tree.funcs:
                continue
            target = tree.funcs[callee]
            names = target.params
            if target.cls is not None and names and names[0] in {"self", "cls"} and isinstance(call.func, ast.Attribute):
                names = names[1:]
            bound = {}
            for a, pn in zip(call.args, names):
                r = roles.role(a)
                if r:
                    bound[pn] = r
            for kw in call.keywords:
                r = roles.role(kw.value)
                if kw.arg and r:
                    bound[kw.arg] = r
            if bound or (follow_prefix is not None and callee.startswith(follow_prefix)):
                work.append((target, bound))
    return results, sorted(seen), tracked_names


def check_multiplicity(ctx: Check, tree: Tree) -> None:
    """Along evaluate / cleanup / __new__ / doit and the package functions they reach, the values of a pool are never
    collapsed to the distinct ones: a set / dict keyed by pool values may serve as a memo (lookup, membership), but
    nothing may iterate, count or return it - the sum runs over the pool as listed (duplicates included)."""
    cls = tree.cls(POOLSUM)
    work: list[tuple[FuncInfo, dict[str, str]]] = []
    for name in ("__new__", "evaluate", "cleanup", "doit"):
        m = cls.methods.get(name)
        if m is None:
            continue
        params = {}
        if name == "__new__" and m.node.args.vararg is not None:
            params[m.node.args.vararg.arg] = M_PAIRS
        work.append((m, params))
    results, seen, pool_names = multiset_scan(tree, work, None, POOLSUM + ".")
    for fn, findings, counting in results:
        if findings and counting:
            raise AnalysisError(f"{fn.qual}: pool values are collapsed to the distinct ones and counted - cannot decide whether the multiplicities are restored")
        ctx.verdict(not findings, "R-MULTISET", f"{fn.qual}::multiset", tree.loc(findings[0][0] if findings else fn.node),
                    f"{fn.qual}: the values of an index pool are never collapsed to the distinct ones", [t for _, t in findings] or None)
    ctx.info("R-MULTISET", tree.loc(cls.node), f"read {len(seen)} functions with {pool_names} names that hold pools / pool values: {seen}")
    if len(seen) < 3 or pool_names < 2:
        raise AnalysisError(f"R-MULTISET: only {len(seen)} functions / {pool_names} pool-holding names read (evaluate, cleanup, __new__ confirmed)")


def run(ctx: Check, tree: Tree) -> None:
    ctx.decided += [
        "R-BINDER: every expression class that removes bound symbols from free_symbols guards substitution of those symbols",
        "R-SUMSHAPE: PoolSum.evaluate is Add over itertools.product of all pools with zip(index symbols, combination) substituted into the summand; doit delegates to it",
        "R-FREE: the subtrahend of PoolSum.free_symbols is exactly the index symbols",
        "R-BINDSUBST: PoolSum substitutes its own index symbols into the summand with the binding-aware subs(), never with xreplace()",
        "R-DROP: on every path of cleanup() an index is retained, substituted by its single value, or compensated by its pool size",
        "R-MULTISET: along __new__ / evaluate / cleanup / doit and the package functions they call, the values of a pool are never collapsed to the distinct ones (set, dict key) and then read as a collection",
    ]
    ctx.not_decided += ["evaluation for arbitrary summands (SymPy's subs on the summand)", "three-level nesting inside HelicityModel.expression"]
    ctx.assumptions += ["sympy.Basic.subs consults _eval_subs before descending into args; ExprWithLimits (Sum, Integral) guards its own bound variables"]
    ctx.section(check_binder, ctx, tree)
    ctx.section(check_free_symbols, ctx, tree)
    ctx.section(check_evaluate, ctx, tree)
    ctx.section(check_cleanup, ctx, tree)
    ctx.section(check_multiplicity, ctx, tree)
    ctx.section(check_binding_aware_substitution, ctx, tree)
    ctx.section(check_external_expansion, ctx, tree)
    ctx.section(check_subs_returns, ctx, tree)
