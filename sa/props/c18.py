"""C18 - PoolSum denotes the finite sum over its index pools.

R-BINDER  a class that subtracts bound symbols in ``free_symbols`` guards substitution.
R-SUMSHAPE ``evaluate`` is Add over itertools.product of all pools, substituting
          zip(index symbols, combination) into the summand.
R-FREE    the subtrahend of ``free_symbols`` is exactly the index symbols.
R-DROP    ``cleanup`` keeps, substitutes or compensates every index.
"""

from __future__ import annotations

import ast

from ..dataflow import RD
from ..exprmodel import handwritten_expr_classes
from ..inline import Inliner
from ..loader import ancestors, AnalysisError, ClassInfo, FuncInfo, Tree, unparse, walk_function
from ..paths import PathWalker
from ..report import Check

PID = "C18"
POOLSUM = "ampform.sympy::PoolSum"
# SymPy's own binders guard substitution (ExprWithLimits defines free_symbols and _eval_subs)
EXTERNAL_BINDERS = {"sympy.Integral", "sympy.Sum", "sympy.Product"}


def _is_property(fn: FuncInfo) -> bool:
    return any(unparse(d) in {"property", "cached_property", "functools.cached_property"} for d in fn.node.decorator_list)


def subtracting_free_symbols(cls: ClassInfo) -> ast.BinOp | None:
    fs = cls.methods.get("free_symbols")
    if fs is None:
        return None
    for node in walk_function(fs.node):
        if isinstance(node, ast.Return) and isinstance(node.value, ast.BinOp) and isinstance(node.value.op, ast.Sub):
            return node.value
    rd = RD(fs.node)
    for ret, _ in rd.returns:
        for d in rd.closure(rd.uses(ret.value)) if ret.value is not None else ():
            if isinstance(d.value, ast.BinOp) and isinstance(d.value.op, ast.Sub):
                return d.value
            if isinstance(d.node, ast.AugAssign) and isinstance(d.node.op, ast.Sub):
                return ast.BinOp(left=ast.Name(id=d.name, ctx=ast.Load()), op=ast.Sub(), right=d.node.value)
    for node in walk_function(fs.node):
        if isinstance(node, ast.Call) and isinstance(node.func, ast.Attribute) and node.func.attr in {"difference", "difference_update", "discard", "remove"}:
            return ast.BinOp(left=node.func.value, op=ast.Sub(), right=node.args[0] if node.args else ast.Constant(None))
    return None


def subs_guard(tree: Tree, cls: ClassInfo) -> tuple[bool, str]:
    """Does the class guard substitution of its bound symbols?"""
    for c in tree.mro(cls):
        for name in ("_eval_subs", "_subs", "subs"):
            m = c.methods.get(name)
            if m is None:
                continue
            params = m.params
            if len(params) < 2:
                return False, f"{name} has no `old` parameter"
            old = params[1]
            # an `if` whose test mentions `old` and whose body returns self
            for node in walk_function(m.node):
                if isinstance(node, ast.If) and any(isinstance(n, ast.Name) and n.id == old for n in ast.walk(node.test)):
                    mentions_bound = any(
                        isinstance(n, ast.Attribute) and n.attr in {"indices", "limits", "variables", "bound_symbols"} for n in ast.walk(node.test)
                    ) or _test_uses_bound_local(m, node.test)
                    returns_self = any(
                        isinstance(s, ast.Return) and isinstance(s.value, ast.Name) and s.value.id == params[0] for s in ast.walk(node) if s in _direct_stmts(node.body)
                    )
                    if mentions_bound and returns_self:
                        cmps = [n_ for n_ in ast.walk(node.test) if isinstance(n_, ast.Compare) and any(isinstance(x, ast.Name) and x.id == old for x in ast.walk(n_))]
                        if any(not all(isinstance(o, (ast.Eq, ast.In, ast.Is)) for o in n_.ops) for n_ in cmps) or (isinstance(node.test, ast.UnaryOp) and isinstance(node.test.op, ast.Not)):
                            return False, f"{c.name}.{name}: `if {unparse(node.test)[:60]}: return self` does not test that `{old}` IS one of the bound symbols"
                        wider = _guard_wider_than_own(tree, c, m, node.test)
                        if wider:
                            return False, f"{c.name}.{name}: `if {unparse(node.test)[:60]}: return self` also refuses symbols that are NOT bound by this sum ({wider}): their free occurrences in the summand are never substituted"
                        return True, f"{c.name}.{name}: `if {unparse(node.test)[:60]}: return self`"
            return False, f"{c.name}.{name} never returns self for a bound symbol"
    return False, "no _eval_subs/_subs/subs override: Basic.subs rewrites the bound index symbols"


def _guard_wider_than_own(tree: Tree, cls: ClassInfo, m: FuncInfo, test: ast.AST) -> str | None:
    """The substitution guard must refuse exactly the symbols this instance binds (what
    free_symbols subtracts).  A guard that consults a property / helper which also collects the
    indices of sums nested in the summand is wider: `k` bound by an inner sum is then treated as
    bound in the whole outer summand, where it may occur free."""
    for n in ast.walk(test):
        if isinstance(n, ast.Attribute) and isinstance(n.value, ast.Name) and n.value.id == m.params[0] and n.attr not in {"indices", "limits", "variables"}:
            prop = None
            for c in tree.mro(cls):
                if n.attr in c.methods:
                    prop = c.methods[n.attr]
                    break
            if prop is None:
                continue
            other = sorted({a.attr for a in walk_function(prop.node) if isinstance(a, ast.Attribute) and isinstance(a.value, ast.Name) and a.value.id == prop.params[0]
                            and a.attr not in {"indices", "limits", "variables"}})
            if other:
                return f"`{n.attr}` also reads self.{', self.'.join(other)}"
    return None


def _direct_stmts(body):
    return list(body)


def _test_uses_bound_local(m: FuncInfo, test: ast.AST) -> bool:
    rd = RD(m.node)
    for d in rd.closure(rd.uses(test)):
        if d.value is not None and any(isinstance(n, ast.Attribute) and n.attr in {"indices", "limits", "variables"} for n in ast.walk(d.value)):
            return True
    return False


def check_binder(ctx: Check, tree: Tree) -> None:
    n = 0
    for q, cls in sorted(handwritten_expr_classes(tree).items()):
        sub = subtracting_free_symbols(cls)
        ext = set(tree.external_bases(cls))
        if sub is None:
            if ext & EXTERNAL_BINDERS:
                n += 1
                own = {"free_symbols", "_eval_subs"} & set(cls.methods)
                ctx.verdict(
                    own != {"free_symbols"},
                    "R-BINDER",
                    f"{q}::inherited-binder",
                    tree.loc(cls.node),
                    f"{cls.name} inherits its binding discipline from {sorted(ext & EXTERNAL_BINDERS)} (overrides: {sorted(own) or 'none'})",
                    "overrides free_symbols but not _eval_subs" if own == {"free_symbols"} else None,
                )
            continue
        n += 1
        ok, why = subs_guard(tree, cls)
        ctx.verdict(
            ok,
            "R-BINDER",
            f"{q}::binder-without-subs-guard",
            tree.loc(cls.methods["free_symbols"].node),
            f"{cls.name}.free_symbols removes `{unparse(sub.right)[:50]}` (bound symbols) - substitution must leave them alone: {why}",
            None if ok else "PoolSum(f(i,j),(i,(1,2)),...).subs(i,5) rewrites the bound index; evaluate() itself substitutes with .subs, so a nested sum with a shadowed index is corrupted",
        )
    if n < 2:
        raise AnalysisError(f"only {n} binder classes found (PoolSum, UnevaluatableIntegral, _SymbolicSum confirmed)")


def check_free_symbols(ctx: Check, tree: Tree) -> None:
    cls = tree.cls(POOLSUM)
    sub = subtracting_free_symbols(cls)
    fs = cls.methods.get("free_symbols")
    if fs is None or sub is None:
        raise AnalysisError("vanished anchor: PoolSum.free_symbols no longer subtracts the indices")
    problems = []
    if "free_symbols" not in unparse(sub.left):
        problems.append(f"minuend `{unparse(sub.left)}` is not the summand's/super's free_symbols")
    right = sub.right
    if isinstance(right, ast.SetComp) and len(right.generators) == 1:
        gen = right.generators[0]
        if gen.ifs:
            problems.append("subtrahend is filtered")
        if "indices" not in unparse(gen.iter):
            problems.append(f"subtrahend iterates `{unparse(gen.iter)}`, not the indices")
        if isinstance(gen.target, ast.Tuple) and isinstance(right.elt, ast.Name):
            names = [unparse(e) for e in gen.target.elts]
            if names.index(right.elt.id) != 0 if right.elt.id in names else True:
                problems.append(f"subtrahend takes `{right.elt.id}`, not the index symbol (first tuple element)")
        else:
            problems.append("subtrahend shape not recognised")
    else:
        txt = unparse(right)
        if "indices" not in txt:
            problems.append(f"subtrahend `{txt}` does not derive from the indices")
    ctx.verdict(not problems, "R-FREE", f"{POOLSUM}.free_symbols::subtrahend", tree.loc(fs.node),
                f"PoolSum.free_symbols = {unparse(sub)[:80]}", problems or None)


def index_role(expr: ast.AST) -> str | None:
    """Is this (inlined) expression the sequence of index symbols or of index pools?"""
    method = None
    if isinstance(expr, ast.Call) and isinstance(expr.func, ast.Attribute) and expr.func.attr in {"keys", "values"} and not expr.args:
        method, expr = expr.func.attr, expr.func.value
    if isinstance(expr, ast.Call) and isinstance(expr.func, ast.Name) and expr.func.id in {"list", "tuple"} and len(expr.args) == 1:
        return index_role(expr.args[0]) if method is None else None
    if isinstance(expr, ast.Call) and isinstance(expr.func, ast.Name) and expr.func.id == "dict" and len(expr.args) == 1 and unparse(expr.args[0]) == "self.indices":
        return {"keys": "symbols", None: "symbols", "values": "pools"}[method]
    if isinstance(expr, (ast.DictComp, ast.ListComp, ast.GeneratorExp, ast.SetComp)) and len(expr.generators) == 1:
        gen = expr.generators[0]
        if gen.ifs or unparse(gen.iter) != "self.indices" or not (isinstance(gen.target, ast.Tuple) and len(gen.target.elts) == 2):
            return None
        first, second = (unparse(e) for e in gen.target.elts)

        def role_of(e: ast.AST) -> str | None:
            names = {n.id for n in ast.walk(e) if isinstance(n, ast.Name)} - {"tuple", "list"}
            if names == {first}:
                return "symbols"
            if names == {second}:
                return "pools"
            return None

        if isinstance(expr, ast.DictComp):
            if method in {None, "keys"}:
                return role_of(expr.key)
            return role_of(expr.value)
        return role_of(expr.elt) if method is None else None
    return None


def check_evaluate(ctx: Check, tree: Tree) -> None:
    cls = tree.cls(POOLSUM)
    ev = cls.methods.get("evaluate")
    if ev is None:
        raise AnalysisError("vanished anchor: PoolSum.evaluate")
    rd = RD(ev.node)
    inl = Inliner(ev.node, rd)
    key = f"{POOLSUM}.evaluate::shape"
    problems = []
    ret = [n for n in walk_function(ev.node) if isinstance(n, ast.Return)]
    if len(ret) != 1:
        raise AnalysisError("PoolSum.evaluate: expected exactly one return")
    val = inl.expr(ret[0].value)
    if not (isinstance(val, ast.Call) and tree.resolve(ev.module, val.func, ev) == "sympy.Add"):
        problems.append(f"result is `{unparse(val.func) if isinstance(val, ast.Call) else type(val).__name__}`, not sp.Add(...)")
    comp = None
    if isinstance(val, ast.Call):
        for a in val.args:
            inner = a.value if isinstance(a, ast.Starred) else a
            if isinstance(inner, (ast.ListComp, ast.GeneratorExp)):
                comp = inner
    if comp is None:
        problems.append("no comprehension over the index combinations")
    else:
        if len(comp.generators) != 1 or comp.generators[0].ifs:
            problems.append("combinations are filtered or nested differently")
        gen = comp.generators[0]
        it = gen.iter
        # the iterable is evaluated in the function scope: look at the un-inlined one for resolution
        orig_comp = next((n for n in walk_function(ev.node) if isinstance(n, (ast.ListComp, ast.GeneratorExp))), None)
        callee = tree.callee(orig_comp.generators[0].iter, ev) if orig_comp is not None and isinstance(orig_comp.generators[0].iter, ast.Call) else None
        if callee != "itertools.product":
            problems.append(f"combinations come from `{callee or unparse(it)[:40]}`, not itertools.product")
        elif not (isinstance(it, ast.Call) and len(it.args) == 1 and isinstance(it.args[0], ast.Starred) and not it.keywords):
            problems.append("itertools.product is not applied to *all pools")
        else:
            pools_txt = unparse(it.args[0].value)
            if index_role(it.args[0].value) != "pools":
                problems.append(f"`{pools_txt[:70]}` is not the sequence of all index pools")
        # element: self.expression.subs(zip(<index symbols>, combi)) / xreplace(dict(zip(...)))
        elt = comp.elt
        combi = unparse(gen.target)
        ok_elt = False
        if isinstance(elt, ast.Call) and isinstance(elt.func, ast.Attribute) and elt.func.attr in {"subs", "xreplace"}:
            base = unparse(elt.func.value)
            if base not in {"self.expression", "self.args[0]"}:
                problems.append(f"substitution is applied to `{base}`, not the summand")
            zips = [c for c in ast.walk(elt) if isinstance(c, ast.Call) and isinstance(c.func, ast.Name) and c.func.id == "zip"]
            if len(zips) == 1 and len(zips[0].args) == 2:
                a0, a1 = (unparse(x) for x in zips[0].args)
                if a1 != combi:
                    problems.append(f"zip pairs `{a0[:40]}` with `{a1[:40]}` instead of the combination `{combi}`")
                if index_role(zips[0].args[0]) != "symbols":
                    problems.append(f"zip keys `{a0[:60]}` are not the index symbols")
                ok_elt = True
        if not ok_elt and not problems:
            problems.append(f"summand element `{unparse(elt)[:60]}` is not <summand>.subs(zip(<indices>, <combination>))")
    ctx.verdict(not problems, "R-SUMSHAPE", key, tree.loc(ev.node),
                "PoolSum.evaluate = Add(*[summand.subs(zip(index symbols, combi)) for combi in itertools.product(*all pools)])", problems or None)
    # doit delegates to evaluate
    doit = cls.methods.get("doit")
    if doit is not None:
        calls_eval = any(isinstance(n, ast.Call) and unparse(n.func) == "self.evaluate" for n in walk_function(doit.node))
        ctx.verdict(calls_eval, "R-SUMSHAPE", f"{POOLSUM}.doit::delegates", tree.loc(doit.node), "PoolSum.doit unfolds through self.evaluate()")


def check_new(ctx: Check, tree: Tree) -> bool:
    """__new__ rejects empty pools (makes the `len(values) == 0` path of cleanup dead)."""
    new = tree.cls(POOLSUM).methods.get("__new__")
    if new is None:
        return False
    import re

    # ... in __new__ itself or in a helper of the same module that it calls (extracted validation)
    reach = [q for q in tree.reachable(new.qual) if q in tree.funcs and tree.funcs[q].module is new.module]
    for q in reach:
        for node in walk_function(tree.funcs[q].node):
            if isinstance(node, ast.If) and any(isinstance(s, ast.Raise) for s in node.body):
                t = unparse(node.test).replace(" ", "")
                if re.fullmatch(r"len\(\w+\)==0|notlen\(\w+\)|not\w+", t) or re.fullmatch(r"len\(\w+\)<1", t):
                    return True
    return False


def _name_safe(text: str, idx: str, values: str) -> str:
    import re

    text = re.sub(rf"\b{re.escape(idx)}\b", "<index>", text)
    return re.sub(rf"\b{re.escape(values)}\b", "<pool>", text)


def check_cleanup(ctx: Check, tree: Tree) -> None:
    cls = tree.cls(POOLSUM)
    fn = cls.methods.get("cleanup")
    if fn is None:
        raise AnalysisError("vanished anchor: PoolSum.cleanup")
    loops = [n for n in walk_function(fn.node) if isinstance(n, ast.For) and "indices" in unparse(n.iter)]
    if len(loops) != 1:
        raise AnalysisError("PoolSum.cleanup: expected one loop over self.indices")
    loop = loops[0]
    if not (isinstance(loop.target, ast.Tuple) and len(loop.target.elts) == 2):
        raise AnalysisError("PoolSum.cleanup: loop target is not (idx, values)")
    idx, values = (unparse(e) for e in loop.target.elts)
    empty_rejected = check_new(ctx, tree)
    walker = PathWalker(tree)
    # paths through one loop iteration only: wrap the body
    seen: dict[str, tuple] = {}
    for events, status, _ in walker._block(loop.body, fn, 0):
        from ..canon import normal_test

        tests = []
        for e in events:
            if e[0] == "test":
                t_, o_ = normal_test(e[1], e[2])
                tests.append((_name_safe(unparse(t_), idx, values), o_))
        stmts = [e[1] for e in events if e[0] == "stmt"]
        retained = any(
            isinstance(s, ast.Expr) and isinstance(s.value, ast.Call) and isinstance(s.value.func, ast.Attribute) and s.value.func.attr in {"append", "add"}
            and idx in {n.id for n in ast.walk(s.value) if isinstance(n, ast.Name)} for s in stmts
        )
        substituted = any(
            isinstance(s, ast.Assign) and isinstance(s.targets[0], ast.Subscript) and unparse(s.targets[0].slice) == idx for s in stmts
        )
        compensated = any(f"len({values})" in unparse(s) and isinstance(s, (ast.Assign, ast.AugAssign)) for s in stmts)
        cond = " and ".join(f"{'' if o else 'not '}({t})" for t, o in tests) or "always"

        fate = "retained" if retained else "substituted" if substituted else "compensated" if compensated else "dropped"
        seen[cond] = (fate, tests)
    if len(seen) < 3:
        raise AnalysisError(f"PoolSum.cleanup: only {len(seen)} paths through the loop body")
    for cond, (fate, tests) in sorted(seen.items()):
        where = tree.loc(loop)
        what = f"PoolSum.cleanup, index with [{cond}]: {fate}"
        if fate != "dropped":
            if fate == "substituted":
                # a substituted index must have exactly one value on this path
                single = any("== 1" in t and o for t, o in tests)
                ctx.verdict(single, "R-DROP", f"{POOLSUM}.cleanup::substitute::{cond}", where, what + " by its single value",
                            None if single else "substituted although the pool may hold several values")
            else:
                ctx.ok("R-DROP", where, what)
            continue
        if any("len(<pool>) == 0" in t and o for t, o in tests) and empty_rejected:
            ctx.ok("R-DROP", where, what + " - dead path: PoolSum.__new__ rejects empty pools")
            continue
        ctx.violation(
            "R-DROP",
            f"{POOLSUM}.cleanup::drop::{cond}",
            where,
            what + " without the factor len(<pool>)",
            "PoolSum(x, (i, [0,1,2])): .doit() = 3*x, .cleanup() = x - an index that does not occur in the summand still multiplies the sum by its pool size",
        )
    # the rebuilt sum uses the substituted summand and all retained indices
    rd = RD(fn.node)
    for ret, _ in rd.returns:
        if ret.value is None:
            continue
        deps = {d.name for d in rd.closure(rd.uses(ret.value))}
        subs_names = {unparse(s.targets[0].value) for s in walk_function(loop) if isinstance(s, ast.Assign) and isinstance(s.targets[0], ast.Subscript)}
        ok = bool(subs_names & deps)
        ctx.verdict(ok, "R-DROP", f"{POOLSUM}.cleanup::return::{unparse(ret.value)[:40]}", tree.loc(ret),
                    f"PoolSum.cleanup `{unparse(ret)[:60]}` applies the collected substitutions", None if ok else "single-valued indices are dropped without being substituted")
        if not (isinstance(ret.value, ast.Call) and "PoolSum" in unparse(ret.value.func)):
            # the bare summand may only be returned when no summation index is left
            retained_names = {unparse(s.value.func.value) for s in walk_function(loop) if isinstance(s, ast.Expr) and isinstance(s.value, ast.Call)
                              and isinstance(s.value.func, ast.Attribute) and s.value.func.attr in {"append", "add"}}
            guards = [a for a in ancestors(ret) if isinstance(a, ast.If) and any(ret is n for b in a.body for n in ast.walk(b))]
            def empty_test(t):
                t_ = unparse(t).replace(" ", "")
                return any(t_ in {f"len({r})==0", f"not{r}", f"{r}==[]", f"len({r})<1"} for r in retained_names)
            ok3 = bool(guards) and all(empty_test(g.test) for g in guards)
            ctx.verdict(ok3, "R-DROP", f"{POOLSUM}.cleanup::bare-summand-iff-no-index", tree.loc(ret),
                        f"PoolSum.cleanup returns the bare summand only when no summation index is retained",
                        None if ok3 else {"guards": [unparse(g.test) for g in guards]})
        if isinstance(ret.value, ast.Call) and "PoolSum" in unparse(ret.value.func):
            star = [a for a in ret.value.args if isinstance(a, ast.Starred)]
            ok2 = bool(star) and not isinstance(star[0].value, ast.Subscript)
            ctx.verdict(ok2, "R-DROP", f"{POOLSUM}.cleanup::return-indices", tree.loc(ret), "PoolSum.cleanup rebuilds the sum with all retained indices")


def check_binding_aware_substitution(ctx: Check, tree: Tree) -> None:
    """R-BINDSUBST: wherever a binder class substitutes values for its OWN index symbols into
    the summand it must use the binding-aware primitive (`subs`, which consults the
    `_eval_subs` guard of nested sums).  `xreplace` is purely structural: it also rewrites
    an index of the same name that is bound by a nested PoolSum."""
    cls = tree.cls(POOLSUM)
    n = 0
    for name, m in sorted(cls.methods.items()):
        rd = RD(m.node)
        for node in walk_function(m.node):
            if not (isinstance(node, ast.Call) and isinstance(node.func, ast.Attribute) and node.func.attr in {"subs", "xreplace", "replace"}):
                continue
            recv = unparse(node.func.value)
            if recv not in {"self.expression", "self.args[0]"} or not node.args:
                continue
            # does the mapping consist of this sum's own index symbols?
            srcs = [unparse(node.args[0])] + [unparse(d.value) for d in rd.closure(rd.uses(node.args[0])) if d.value is not None]
            iter_srcs = [unparse(d.node.iter) for d in rd.closure(rd.uses(node.args[0])) if d.kind == "for" and hasattr(d.node, "iter")]
            if not any("self.indices" in t for t in srcs + iter_srcs):
                continue
            n += 1
            ok = node.func.attr == "subs"
            ctx.verdict(ok, "R-BINDSUBST", f"{m.qual}::{node.func.attr} of own indices", tree.loc(node),
                        f"PoolSum.{name}: `{unparse(node)[:60]}` substitutes the sum's own index symbols into the summand with {node.func.attr}()",
                        None if ok else "xreplace ignores binding: PoolSum(i + PoolSum(i**2, (i, (1, 2))), (i, (3,))).cleanup() rewrites the inner, shadowed index -> value 21 instead of 8")
    if n < 2:
        raise AnalysisError(f"only {n} substitutions of own indices found in PoolSum (evaluate and cleanup confirmed)")


def check_external_expansion(ctx: Check, tree: Tree) -> None:
    """R-BINDSUBST outside the class: any function of the package that substitutes the index symbols
    of a PoolSum (taken from `<sum>.indices`) into its summand (`<sum>.expression`) - a hand-written
    expansion next to PoolSum.evaluate(), e.g. inside HelicityModel.expression - must use subs();
    R-SINGLE: and whoever unfolds PoolSums should go through PoolSum.evaluate()."""
    n = 0
    for q, fn in sorted(tree.funcs.items()):
        if not q.startswith("ampform") or fn.outer is not None or (fn.cls is not None and fn.cls.qual == POOLSUM):
            continue
        rd = RD(fn.node)
        for node in walk_function(fn.node, nested=True):
            if not (isinstance(node, ast.Call) and isinstance(node.func, ast.Attribute) and node.func.attr in {"subs", "xreplace", "replace"} and node.args):
                continue
            recv = node.func.value
            if not (isinstance(recv, ast.Attribute) and recv.attr == "expression"):
                continue
            owner = unparse(recv.value)
            arg = node.args[0]
            texts = [unparse(arg)] + [unparse(d.value) for d in rd.closure(rd.uses(arg)) if isinstance(d.value, ast.AST)]
            texts += [unparse(d.node.iter) for d in rd.closure(rd.uses(arg)) if d.kind in {"for", "comp"} and hasattr(d.node, "iter")]
            if not any(f"{owner}.indices" in t for t in texts):
                continue
            n += 1
            ok = node.func.attr == "subs"
            ctx.verdict(ok, "R-BINDSUBST", f"{q}::{node.func.attr} of the indices of `{owner}`", tree.loc(node),
                        f"{q}: `{unparse(node)[:60]}` substitutes the index symbols of the PoolSum `{owner}` into its summand with {node.func.attr}()",
                        None if ok else "xreplace also rewrites an index of the same name bound by a nested PoolSum: the hand-written expansion and PoolSum.evaluate() disagree for shadowed indices")
    if n == 0:
        ctx.ok("R-BINDSUBST", "src/ampform", "no function outside PoolSum substitutes the indices of a PoolSum into its summand (all expansions go through PoolSum.evaluate)")


def check_subs_returns(ctx: Check, tree: Tree) -> None:
    """R-BINDER (returns): PoolSum._eval_subs may only answer `self` for a bound symbol and otherwise
    leave the substitution to SymPy (`return None`), which substitutes in the summand AND in the value
    pools.  A hand-made result that only visits the summand leaves the pools untouched
    (PoolSum(a**i, (i, (-J, J))).subs(J, 2)); a `return self` on any other condition (e.g. "old is not in
    my - possibly stale - free symbols") skips real substitutions."""
    cls = tree.cls(POOLSUM)
    m = cls.methods.get("_eval_subs")
    if m is None:
        raise AnalysisError("vanished anchor: PoolSum._eval_subs")
    self_, old = m.params[0], m.params[1]
    problems = []
    for r in [r for r in walk_function(m.node, nested=False) if isinstance(r, ast.Return)]:
        v = r.value
        guards = [a for a in ancestors(r) if isinstance(a, ast.If)]
        if v is None or (isinstance(v, ast.Constant) and v.value is None):
            continue
        if isinstance(v, ast.Name) and v.id == self_:
            own = any(any(isinstance(n, ast.Attribute) and n.attr == "indices" for n in ast.walk(g.test)) or _test_uses_bound_local(m, g.test) for g in guards)
            foreign = [unparse(g.test) for g in guards if not (any(isinstance(n, ast.Attribute) and n.attr in {"indices", "bound_symbols"} for n in ast.walk(g.test)) or _test_uses_bound_local(m, g.test))]
            if not own or foreign:
                problems.append(f"`return self` under `{' and '.join(unparse(g.test) for g in guards) or 'no condition'}` - not (only) the own-index test")
            continue
        problems.append(f"`{unparse(r)[:70]}` builds its own result: the value pools of the indices are not substituted")
    ctx.verdict(not problems, "R-BINDER", f"{m.qual}::returns", tree.loc(m.node),
                "PoolSum._eval_subs: `self` only for an own index, otherwise None (SymPy substitutes in the summand and in the pools)", problems or None)
    fs = cls.methods.get("free_symbols")
    decs = [unparse(d) for d in fs.node.decorator_list] if fs is not None else []
    ok = fs is not None and decs == ["property"]
    ctx.verdict(ok, "R-FREE", f"{POOLSUM}.free_symbols::recomputed", tree.loc(fs.node) if fs else tree.loc(cls.node),
                "PoolSum.free_symbols is a plain property: a fresh set on every access (a cached set is shared, mutable state of an immutable expression)",
                None if ok else f"decorators {decs}: callers routinely modify the set they get (`symbols = expr.free_symbols; symbols |= ...`)")


def run(ctx: Check, tree: Tree) -> None:
    ctx.decided += [
        "R-BINDER: every expression class that removes bound symbols from free_symbols guards substitution of those symbols",
        "R-SUMSHAPE: PoolSum.evaluate is Add over itertools.product of all pools with zip(index symbols, combination) substituted into the summand; doit delegates to it",
        "R-FREE: the subtrahend of PoolSum.free_symbols is exactly the index symbols",
        "R-BINDSUBST: PoolSum substitutes its own index symbols into the summand with the binding-aware subs(), never with xreplace()",
        "R-DROP: on every path of cleanup() an index is retained, substituted by its single value, or compensated by its pool size",
    ]
    ctx.not_decided += ["evaluation for arbitrary summands (SymPy's subs on the summand)", "three-level nesting inside HelicityModel.expression"]
    ctx.assumptions += ["sympy.Basic.subs consults _eval_subs before descending into args; ExprWithLimits (Sum, Integral) guards its own bound variables"]
    ctx.section(check_binder, ctx, tree)
    ctx.section(check_free_symbols, ctx, tree)
    ctx.section(check_evaluate, ctx, tree)
    ctx.section(check_cleanup, ctx, tree)
    ctx.section(check_binding_aware_substitution, ctx, tree)
    ctx.section(check_external_expansion, ctx, tree)
    ctx.section(check_subs_returns, ctx, tree)
