"""C18 - PoolSum denotes the finite sum over its index pools.

How the code is read.  Every rule of this property states what a method of ``PoolSum`` COMPUTES.  The methods
are therefore *interpreted* (``sa/pyexec.py``: nothing of the package is imported or run by CPython) on model
sums built in a small SymPy world (``SymWorld``: hash-consed expression nodes, symbols, values, ``subs`` that
consults the class's own ``_eval_subs``, structural ``xreplace``) and the result is compared with the
DENOTATION of the model sum, computed by this file from the definition: the multiset of summand instances
over the cartesian product of the pools, with binding-aware substitution.  The spelling of the method -
comprehension, loop, ``map`` over a closure, a module-level helper, a generator method, merged or split guards -
is invisible to the rules; a construct or external callable without a model is a ``ModelError`` (exit 2).

R-SUMSHAPE ``evaluate()`` (and ``doit()``) of every model sum denotes the same finite sum as the model itself.
R-FREE     ``free_symbols`` is (free symbols of the summand and of the pools) minus the own index symbols, and a
           fresh set on every access.
R-BINDER   substituting an own index symbol leaves the sum unchanged; every other substitution equals the
           binding-aware substitution into summand AND pools.
R-DROP     ``cleanup()`` never changes the denotation: an index is retained, substituted by its single value, or
           compensated by its pool size (K2: an index that does not occur in the summand is dropped).
R-BINDSUBST own index symbols are substituted into the summand with ``subs`` (binding aware), never ``xreplace``.
"""

from __future__ import annotations

import ast
import itertools

from ..dataflow import RD
from ..exprmodel import handwritten_expr_classes
from ..loader import AnalysisError, ClassInfo, FuncInfo, Tree, unparse, walk_function
from ..pyexec import ClassObj, Instance, MObj, ModelError, ModelRaise, PyExec, SymWorld
from ..report import Check

PID = "C18"
POOLSUM = "ampform.sympy::PoolSum"
MODEL = "ampform.helicity::HelicityModel"
# SymPy's own binders guard substitution (ExprWithLimits defines free_symbols and _eval_subs)
EXTERNAL_BINDERS = {"sympy.Integral", "sympy.Sum", "sympy.Product"}


# --------------------------------------------------------------------------- the model world
class PoolSumWorld:
    """Model sums: instances of the repository class ``PoolSum`` whose methods are interpreted, inside a SymPy
    model world.  What SymPy's ``Basic`` provides (``args``, ``subs``, ``xreplace``, ``atoms``, ``has``, the
    inherited ``free_symbols`` = union over the arguments) is modelled here; what the class defines is taken
    from the class."""

    def __init__(self, tree: Tree) -> None:
        self.tree = tree
        self.cls = tree.cls(POOLSUM)
        self.ex = PyExec(tree)
        self.w = SymWorld(self.ex)
        self._instances: dict = {}
        w = self.w
        self.class_obj = ClassObj(self.cls, {"__call__": self.construct, "__super__": MObj("super() of class PoolSum", {"__new__": lambda a, k: self.make(a[1:])}, open=False)})
        self.ex.class_refs[POOLSUM] = self.class_obj
        new = lambda a, k: self.make(a[1:])  # noqa: E731
        self.ex.externals.update(w.externals())
        self.ex.externals.update({
            POOLSUM: self.class_obj,
            "sympy.sympify": lambda a, k: self.sympify(a[0]),
            "sympy.Expr.__new__": new, "sympy.Basic.__new__": new, "sympy.core.expr.Expr.__new__": new, "sympy.core.basic.Basic.__new__": new,
            "sympy.postorder_traversal": lambda a, k: self.postorder(a[0]),
            "sympy.preorder_traversal": lambda a, k: list(reversed(self.postorder(a[0]))),
        })

    # ---- objects
    def sympify(self, x):
        if isinstance(x, (tuple, list)):
            return tuple(self.sympify(c) for c in x)
        if isinstance(x, (int, float)) and not isinstance(x, bool):
            return self.w.value(repr(x))
        return x

    def construct(self, args, kwargs):
        """``PoolSum(...)`` as interpreted code sees it: through the class's own ``__new__``."""
        m = self.tree.lookup_method(self.cls, "__new__")
        if m is None:
            return self.make(args)
        return self.ex.call_function(m, [self.class_obj, *args], kwargs)

    def make(self, args) -> Instance:
        args = tuple(self.sympify(a) for a in args)
        key = self._key(args)
        if key in self._instances:
            return self._instances[key]
        label = "PoolSum(" + ", ".join(self.text(a) for a in args) + ")"
        inst = Instance(label, self.cls, kinds={POOLSUM, "PoolSum", *SymWorld.EXPR_KINDS})
        inst._keep = args  # type: ignore[attr-defined]
        inst.attrs.update({"args": args, "func": self.class_obj, "__class__": self.class_obj, "is_Symbol": False, "is_symbol": False, "is_Atom": False,
                           "__rebuild__": lambda children: self.make(children), "__str__": lambda a, k: label,
                           "__eq__": lambda a, k: a[0] is inst, "__hash__": lambda a, k: id(inst)})
        inst.attrs.update(self.w.arithmetic(inst))
        basic = Instance(f"super() of {label}", None, kinds=inst.kinds)
        basic.dynamic["free_symbols"] = lambda: set().union(*[self.w.free(a) for a in args]) if args else set()
        api = {
            "subs": lambda a, k: self.w._logged("subs", inst, a, k),
            "xreplace": lambda a, k: self.w._logged("xreplace", inst, a, k),
            "_subs": lambda a, k: self.w.subs1(inst, a[0], a[1]),
            "atoms": lambda a, k: self.w.atoms(inst, a),
            "has": lambda a, k: any(x in self.w.subtree(inst) for x in a),
            "_eval_subs": lambda a, k: None,
            "doit": lambda a, k: inst,
        }
        basic.attrs.update(api)
        inst.attrs["__super__"] = basic
        defined = {n for c in self.tree.mro(self.cls) for n in c.methods}
        for name, f in api.items():
            if name not in defined:
                inst.attrs[name] = f
        if "free_symbols" not in defined:
            inst.dynamic["free_symbols"] = basic.dynamic["free_symbols"]
        else:
            inst.attrs["__free__"] = lambda: self.ex.getattr(inst, "free_symbols")  # SymPy asks the object itself
        if "_eval_subs" in defined:
            inst.attrs["_eval_subs_hook"] = lambda old, new: self.ex.call_method(inst, "_eval_subs", [old, new])
        self._instances[key] = inst
        return inst

    def _key(self, x):
        if isinstance(x, (tuple, list)):
            return tuple(self._key(c) for c in x)
        return id(x)

    def text(self, x) -> str:
        if isinstance(x, (tuple, list)):
            return "(" + ", ".join(self.text(c) for c in x) + ")"
        if isinstance(x, MObj):
            return x.attrs["__str__"]([], {}) if "__str__" in x.attrs else x.label
        return repr(x)

    def is_sum(self, x) -> bool:
        return isinstance(x, Instance) and x.cls is self.cls

    def postorder(self, e) -> list:
        out = []
        for c in self.w.children(e):
            out += self.postorder(c)
        if isinstance(e, MObj):
            out.append(e)
        return out

    # ---- reference semantics (the specification; never interpreted code)
    def indices(self, s: Instance):
        """[(symbol, pool)] of a well-formed sum, else None."""
        out = []
        for entry in s.attrs["args"][1:]:
            if not (isinstance(entry, tuple) and len(entry) == 2 and isinstance(entry[1], tuple)):
                return None
            out.append((entry[0], entry[1]))
        return out

    def ref_subs(self, x, sigma: dict):
        """Binding-aware simultaneous substitution."""
        if isinstance(x, MObj) and x in sigma:
            return sigma[x]
        if isinstance(x, (tuple, list)):
            return tuple(self.ref_subs(c, sigma) for c in x)
        if self.is_sum(x):
            idx = self.indices(x)
            if idx is None:
                return x
            own = {s for s, _ in idx}
            inner = {k: v for k, v in sigma.items() if k not in own}
            return self.make((self.ref_subs(x.attrs["args"][0], inner), *[(s, tuple(self.ref_subs(v, sigma) for v in pool)) for s, pool in idx]))
        kids = self.w.children(x)
        if not kids:
            return x
        return self.w.rebuild(x, tuple(self.ref_subs(c, sigma) for c in kids))

    def ref_free(self, x) -> set:
        if isinstance(x, (tuple, list)):
            return set().union(*[self.ref_free(c) for c in x]) if x else set()
        if self.is_sum(x):
            idx = self.indices(x) or []
            own = {s for s, _ in idx}
            out = self.ref_free(x.attrs["args"][0]) - own
            for _, pool in idx:
                out |= self.ref_free(pool)
            return out
        if self.w.is_symbol(x):
            return {x}
        return set().union(*[self.ref_free(c) for c in self.w.children(x)]) if self.w.children(x) else set()

    def normal(self, x):
        """Canonical form of the value an expression denotes: every pool sum (at any depth) expanded into the
        sum of its summand over the cartesian product of its pools, sums flattened and ordered."""
        if isinstance(x, (tuple, list)):
            return ("tuple", tuple(self.normal(c) for c in x))
        if self.is_sum(x):
            idx = self.indices(x)
            if idx is None:
                return ("malformed sum", self.text(x))
            summand = x.attrs["args"][0]
            symbols = [s for s, _ in idx]
            return self._add([self.normal(self.ref_subs(summand, dict(zip(symbols, combo)))) for combo in itertools.product(*[p for _, p in idx])])
        if not isinstance(x, MObj):
            return ("python", repr(x))
        kids = self.w.children(x)
        if x.attrs.get("head") == "Add":
            return self._add([self.normal(c) for c in kids])
        if not kids:
            return ("atom", x.label)
        return (x.attrs.get("head", x.label), tuple(self.normal(c) for c in kids))

    @staticmethod
    def _add(terms: list):
        flat = []
        for t in terms:
            if isinstance(t, tuple) and t and t[0] == "Add":
                flat += list(t[1])
            else:
                flat.append(t)
        if len(flat) == 1:
            return flat[0]
        return ("Add", tuple(sorted(flat, key=repr)))

    def show(self, n, depth: int = 0) -> str:
        if not isinstance(n, tuple):
            return str(n)
        if n[0] == "atom":
            return n[1].replace("Symbol ", "").replace("value ", "")
        if n[0] == "Add":
            if not n[1]:
                return "0"
            return " + ".join(self.show(t, depth + 1) for t in n[1][:6]) + (f" + ... ({len(n[1])} terms)" if len(n[1]) > 6 else "")
        if n[0] in {"tuple"}:
            return "(" + ", ".join(self.show(t, depth + 1) for t in n[1]) + ")"
        if len(n) == 2 and isinstance(n[1], tuple):
            return f"{n[0]}({', '.join(self.show(t, depth + 1) for t in n[1])})"
        return str(n)


class Models:
    """The model sums.  Symbols: i, j, k, l (used as indices), x, y (free), J (free, inside a pool); values a1 ...
    (`zero` is falsy, like the number 0)."""

    def __init__(self, world: PoolSumWorld) -> None:
        self.world = world
        w = world.w
        self.i, self.j, self.k, self.l, self.x, self.y, self.J, self.z = (w.symbol(n) for n in ("i", "j", "k", "l", "x", "y", "J", "z"))  # noqa: E741
        self.zero = w.value("0")
        self.zero.truth = False
        self.v = {n: w.value(n) for n in ("a1", "a2", "a3", "b1", "b2", "b3", "c1", "c2", "d1")}

    def F(self, *children):  # noqa: N802
        return self.world.w.node("F", *children)

    def G(self, *children):  # noqa: N802
        return self.world.w.node("G", *children)

    def sum(self, summand, *indices) -> Instance:
        """Built through the class's own constructor (so that what ``__new__`` does to the arguments is part of the model)."""
        try:
            return self.world.construct([summand, *indices], {})
        except ModelRaise as exc:
            return exc


def _interpret(what: str, thunk):
    """Run an interpretation; a Python-level exception raised by the interpreted code is a fact about the code
    (returned as ModelRaise), a gap of the interpreter is an AnalysisError."""
    try:
        return thunk()
    except ModelRaise as exc:
        return exc
    except ModelError as exc:
        raise AnalysisError(f"{what}: cannot interpret - {exc}") from exc
    except RecursionError:
        raise AnalysisError(f"{what}: cannot interpret - recursion too deep") from None
    except AnalysisError:
        raise
    except Exception as exc:  # noqa: BLE001 - a gap of the interpreter must never look like a verdict
        raise AnalysisError(f"{what}: cannot interpret - the model interpreter failed: {type(exc).__name__}: {exc}") from exc


def _run_method(world: PoolSumWorld, inst: Instance, name: str, *args, **kwargs):
    return _interpret(f"PoolSum.{name}", lambda: world.ex.call_method(inst, name, list(args), kwargs))


# --------------------------------------------------------------------------- R-BINDER (classes)
def _defines(tree: Tree, cls: ClassInfo, name: str) -> bool:
    return any(name in c.methods for c in tree.mro(cls))


def check_binder(ctx: Check, tree: Tree) -> None:
    """Every expression class that takes part in binding: a subclass of one of SymPy's binders must not override
    ``free_symbols`` alone; PoolSum (its own binder) is decided on models (check_subs_returns / check_free_symbols);
    any other hand-written class that defines ``free_symbols`` cannot be decided."""
    n = 0
    for q, cls in sorted(handwritten_expr_classes(tree).items()):
        ext = set(tree.external_bases(cls))
        own = {m for m in ("free_symbols", "_eval_subs") if _defines(tree, cls, m)}
        if q == POOLSUM:
            n += 1
            continue
        if ext & EXTERNAL_BINDERS:
            n += 1
            ctx.verdict(
                own != {"free_symbols"},
                "R-BINDER",
                f"{q}::inherited-binder",
                tree.loc(cls.node),
                f"{cls.name} inherits its binding discipline from {sorted(ext & EXTERNAL_BINDERS)} (overrides: {sorted(own) or 'none'})",
                "overrides free_symbols but not _eval_subs" if own == {"free_symbols"} else None,
            )
            continue
        if "free_symbols" in own:
            raise AnalysisError(f"{q} defines free_symbols: a new binder class - no model for it, its substitution guard cannot be decided")
    if n < 2:
        raise AnalysisError(f"only {n} binder classes found (PoolSum, UnevaluatableIntegral, _SymbolicSum confirmed)")


# --------------------------------------------------------------------------- R-FREE
def check_free_symbols(ctx: Check, tree: Tree) -> None:
    world = PoolSumWorld(tree)
    cls = world.cls
    fs = tree.lookup_method(cls, "free_symbols")
    if fs is None:
        raise AnalysisError("vanished anchor: PoolSum.free_symbols (without it Basic.free_symbols reports the bound index symbols as free)")
    m = Models(world)
    inner = m.sum(m.F(m.k, m.y), (m.k, (m.v["c1"], m.v["c2"])))
    cases = [
        ("several indices, one single-valued, a symbol inside a pool, a nested sum",
         m.sum(m.G(m.i, m.j, m.l, m.x, inner), (m.i, (m.v["a1"], m.v["a2"])), (m.j, (m.J, m.v["b1"])), (m.l, (m.v["d1"],)))),
        ("no index", m.sum(m.F(m.x, m.y))),
        ("index that does not occur in the summand", m.sum(m.F(m.x), (m.i, (m.v["a1"], m.v["a2"])))),
    ]
    problems = []
    for label, inst in cases:
        if isinstance(inst, ModelRaise):
            raise AnalysisError(f"PoolSum(...) raises {inst} for the model `{label}`")
        want = world.ref_free(inst)
        got = _interpret("PoolSum.free_symbols", lambda inst=inst: world.ex.getattr(inst, "free_symbols"))
        if isinstance(got, ModelRaise):
            problems.append(f"{label}: raises {got}")
            continue
        if not isinstance(got, (set, frozenset)):
            problems.append(f"{label}: returns a {type(got).__name__}, not a set")
            continue
        if set(got) != want:
            extra, missing = set(got) - want, want - set(got)
            problems.append(f"{label}: {world.text(inst)}.free_symbols" + (f" contains {sorted(world.text(s) for s in extra)}" if extra else "")
                            + (f" lacks {sorted(world.text(s) for s in missing)}" if missing else ""))
    ctx.verdict(not problems, "R-FREE", f"{POOLSUM}.free_symbols::subtrahend", tree.loc(fs.node),
                f"PoolSum.free_symbols = (free symbols of the summand and the pools) minus the own index symbols, on {len(cases)} model sums", problems or None)


def check_free_symbols_fresh(ctx: Check, tree: Tree, world: PoolSumWorld | None = None) -> None:
    """A caller may modify the set it gets (``symbols = expr.free_symbols; symbols |= ...`` is the normal SymPy idiom,
    used by HelicityModel.__collect_symbols): the next access must not see that."""
    world = world or PoolSumWorld(tree)
    fs = tree.lookup_method(world.cls, "free_symbols")
    if fs is None:
        raise AnalysisError("vanished anchor: PoolSum.free_symbols")
    m = Models(world)
    inst = m.sum(m.F(m.i, m.x, m.y), (m.i, (m.v["a1"], m.v["a2"])))
    first = _interpret("PoolSum.free_symbols", lambda: world.ex.getattr(inst, "free_symbols"))
    problem = None
    if isinstance(first, ModelRaise) or not isinstance(first, (set, frozenset)):
        raise AnalysisError(f"PoolSum.free_symbols of a model sum gives {first!r}")
    if isinstance(first, set):
        first.discard(m.x)
        first.add(m.z)
    second = _interpret("PoolSum.free_symbols", lambda: world.ex.getattr(inst, "free_symbols"))
    if second is first:
        problem = "the same set object is handed out on every access"
    elif isinstance(second, (set, frozenset)) and set(second) != world.ref_free(inst):
        problem = "a modification of the returned set by the caller is visible to the next access"
    decs = [unparse(d) for d in fs.node.decorator_list]
    ctx.verdict(problem is None, "R-FREE", f"{POOLSUM}.free_symbols::recomputed", tree.loc(fs.node),
                "PoolSum.free_symbols: a fresh set on every access (a cached set is shared, mutable state of an immutable expression)",
                None if problem is None else f"{problem} (decorators {decs}): callers routinely modify the set they get (`symbols = expr.free_symbols; symbols |= ...`)")


# --------------------------------------------------------------------------- R-SUMSHAPE
def _evaluate_models(m: Models) -> list[tuple[str, Instance]]:
    v = m.v
    inner_shadow = m.sum(m.F(m.i, m.y), (m.i, (v["b1"], v["b2"])))
    inner_free_i = m.sum(m.F(m.i, m.j, m.y), (m.j, (v["b1"], v["b2"])))
    inner_same_j = m.sum(m.F(m.j, m.y), (m.j, (v["b1"], v["b2"])))
    return [
        ("no index", m.sum(m.F(m.x))),
        ("one index, three values", m.sum(m.F(m.i, m.x), (m.i, (v["a1"], v["a2"], v["a3"])))),
        ("three indices with 2, 3 and 1 values", m.sum(m.F(m.i, m.j, m.k, m.x), (m.i, (v["a1"], v["a2"])), (m.j, (v["b1"], v["b2"], v["b3"])), (m.k, (v["c1"],)))),
        ("a pool with a repeated value", m.sum(m.F(m.i, m.x), (m.i, (v["a1"], v["a1"])))),
        ("a pool that contains 0", m.sum(m.F(m.i, m.j), (m.i, (m.zero, v["a1"])), (m.j, (m.zero, v["b1"])))),
        ("an index that does not occur in the summand", m.sum(m.F(m.x), (m.i, (v["a1"], v["a2"], v["a3"])))),
        ("a nested sum inside the summand that binds the same symbol", m.sum(m.G(m.i, inner_shadow), (m.i, (v["a1"], v["a2"])))),
        ("the summand is itself a sum in which the index occurs free", m.sum(inner_free_i, (m.i, (v["a1"], v["a2"])))),
        ("the summand is itself a sum over the same symbol", m.sum(inner_same_j, (m.j, (v["a1"], v["a2"], v["a3"])))),
    ]


def _own_index_xreplaces(world: PoolSumWorld, inst: Instance, start: int) -> list[tuple[FuncInfo | None, str]]:
    """(function, method) for every substitution call made since ``start`` whose keys contain an index symbol of ``inst``."""
    own = {s for s, _ in (world.indices(inst) or [])}
    out = []
    for method, _recv, arg, where in world.w.log[start:]:
        keys = set(arg) if isinstance(arg, dict) else {k for k, _ in arg}
        if keys & own:
            out.append((where, method))
    return out


def check_evaluate(ctx: Check, tree: Tree) -> dict:
    """evaluate() and doit() of every model sum denote the sum itself.  Returns the substitution sites seen."""
    world = PoolSumWorld(tree)
    ev = tree.lookup_method(world.cls, "evaluate")
    if ev is None:
        raise AnalysisError("vanished anchor: PoolSum.evaluate")
    m = Models(world)
    problems, doit_problems = [], []
    sites: dict = {}
    models = _evaluate_models(m)
    for label, inst in models:
        if isinstance(inst, ModelRaise):
            raise AnalysisError(f"PoolSum(...) raises {inst} for the model `{label}`")
        want = world.normal(inst)
        for method, bucket in (("evaluate", problems), ("doit", doit_problems)):
            if tree.lookup_method(world.cls, method) is None:
                continue
            start = len(world.w.log)
            got = _run_method(world, inst, method)
            for where, how in _own_index_xreplaces(world, inst, start):
                sites.setdefault((where.qual if isinstance(where, FuncInfo) else f"{POOLSUM}.{method}", how), where)
            if isinstance(got, ModelRaise):
                bucket.append(f"{label}: {world.text(inst)}.{method}() raises {got}")
            elif world.normal(got) != want:
                bucket.append(f"{label}: {world.text(inst)}.{method}() = {world.show(world.normal(got))[:160]}, the sum denotes {world.show(want)[:160]}")
    ctx.verdict(not problems, "R-SUMSHAPE", f"{POOLSUM}.evaluate::shape", tree.loc(ev.node),
                f"PoolSum.evaluate() = the sum of the summand over the cartesian product of all pools, index symbols substituted binding-aware ({len(models)} model sums)",
                problems[:4] or None)
    doit = tree.lookup_method(world.cls, "doit")
    if doit is not None:
        ctx.verdict(not doit_problems, "R-SUMSHAPE", f"{POOLSUM}.doit::delegates", tree.loc(doit.node), "PoolSum.doit() unfolds to the same finite sum as evaluate()", doit_problems[:4] or None)
    return sites


# --------------------------------------------------------------------------- R-DROP
K2_COND = "not (<index> in self.expression.free_symbols)"


def _cleanup_models(m: Models) -> list[tuple[str, str, object]]:
    """(key suffix, description, thunk building the model sum).  Every model isolates one kind of index; the kinds
    that K2 concerns (an index that does not occur in the summand, with several values) have models of their own."""
    v = m.v
    keep = (m.j, (v["b1"], v["b2"]))  # an index that must survive: occurs in the summand, two values
    inner_shadow = lambda: m.sum(m.F(m.i, m.y), (m.i, (v["b1"], v["b2"])))  # noqa: E731
    return [
        ("no-index", "no index at all", lambda: m.sum(m.F(m.x))),
        ("occurs::single-value", "an index that occurs in the summand and has one value", lambda: m.sum(m.F(m.i, m.x), (m.i, (v["a1"],)))),
        ("occurs::several-values", "an index that occurs in the summand and has two values", lambda: m.sum(m.F(m.i, m.x), (m.i, (v["a1"], v["a2"])))),
        ("occurs::three-values", "an index that occurs in the summand and has three values", lambda: m.sum(m.F(m.i, m.x), (m.i, (v["a1"], v["a2"], v["a3"])))),
        ("occurs::repeated-value", "an index that occurs in the summand and has the same value twice", lambda: m.sum(m.F(m.i, m.x), (m.i, (v["a1"], v["a1"])))),
        ("absent::single-value", "an index that does not occur in the summand and has one value", lambda: m.sum(m.F(m.x), (m.i, (v["a1"],)))),
        ("mixed::single-and-several", "a single-valued index between two indices with several values",
         lambda: m.sum(m.F(m.i, m.j, m.k, m.x), (m.i, (v["a1"], v["a2"])), (m.k, (v["c1"],)), keep)),
        ("mixed::all-single", "two single-valued indices", lambda: m.sum(m.F(m.i, m.k, m.x), (m.i, (v["a1"],)), (m.k, (v["c1"],)))),
        ("mixed::several-last", "a single-valued index followed by one with three values", lambda: m.sum(m.F(m.i, m.k), (m.k, (v["c1"],)), (m.i, (v["a1"], v["a2"], v["a3"])))),
        ("nested::shadowed-single", "a single-valued index whose symbol is bound again by a nested sum", lambda: m.sum(m.G(m.i, inner_shadow()), (m.i, (v["a1"],)))),
        ("absent::several-values", "an index that does not occur in the summand and has several values", lambda: m.sum(m.F(m.x), (m.i, (v["a1"], v["a2"], v["a3"])))),
        ("absent::several-values-next-to-others", "an index that does not occur in the summand, next to one that does",
         lambda: m.sum(m.F(m.j, m.x), (m.i, (v["a1"], v["a2"])), keep)),
        ("empty::occurs", "an index that occurs in the summand and has no value", lambda: m.sum(m.F(m.i, m.x), (m.i, ()))),
        ("empty::absent", "an index that does not occur in the summand and has no value", lambda: m.sum(m.F(m.x), (m.i, ()), keep)),
    ]


def check_cleanup(ctx: Check, tree: Tree) -> dict:
    world = PoolSumWorld(tree)
    fn = tree.lookup_method(world.cls, "cleanup")
    if fn is None:
        raise AnalysisError("vanished anchor: PoolSum.cleanup")
    m = Models(world)
    where = tree.loc(fn.node)
    sites: dict = {}
    n_decided = 0
    for suffix, description, build in _cleanup_models(m):
        inst = _interpret("PoolSum.__new__", build)
        if isinstance(inst, ModelRaise):
            if suffix.startswith("empty::") and inst.kind == "ValueError":
                ctx.ok("R-DROP", where, f"PoolSum.cleanup, {description}: dead case - PoolSum.__new__ rejects empty pools")
                continue
            raise AnalysisError(f"PoolSum(...) raises {inst} for the model `{description}`")
        want = world.normal(inst)
        start = len(world.w.log)
        got = _run_method(world, inst, "cleanup")
        for fn_, how in _own_index_xreplaces(world, inst, start):
            sites.setdefault((fn_.qual if isinstance(fn_, FuncInfo) else fn.qual, how), fn_)
        n_decided += 1
        what = f"PoolSum.cleanup, {description}: value unchanged"
        k2 = suffix.startswith("absent::several-values")
        key = f"{POOLSUM}.cleanup::drop::{K2_COND}" if k2 else f"{POOLSUM}.cleanup::{suffix}"
        if isinstance(got, ModelRaise):
            ctx.violation("R-DROP", key, where, f"PoolSum.cleanup, {description}: raises {got}")
            continue
        if world.normal(got) == want:
            ctx.ok("R-DROP", where, what)
            continue
        # diagnosis (for the reader; the verdict is the inequality of the two denotations)
        retained_wanted = [s for s, pool in (world.indices(inst) or []) if len(pool) != 1 and s in world.ref_free(inst.attrs["args"][0])]
        notes = []
        if not world.is_sum(got) and retained_wanted:
            notes.append("returns the bare-summand although a summation index is left (bare-summand-iff-no-index)")
        if k2:
            what = f"PoolSum.cleanup, index with [{K2_COND}]: dropped without the factor len(<pool>)"
            detail = "PoolSum(x, (i, [0,1,2])): .doit() = 3*x, .cleanup() = x - an index that does not occur in the summand still multiplies the sum by its pool size"
        else:
            what = f"PoolSum.cleanup, {description}: the value changes" + (f" - {notes[0]}" if notes else "")
            detail = f"{world.text(inst)}.cleanup() = {world.text(got)[:120]} denotes {world.show(world.normal(got))[:140]}, the sum denotes {world.show(want)[:140]}"
        ctx.violation("R-DROP", key, where, what, detail)
    if n_decided < 8:
        raise AnalysisError(f"PoolSum.cleanup: only {n_decided} model sums could be built")
    return sites


# --------------------------------------------------------------------------- R-BINDSUBST
def check_binding_aware_substitution(ctx: Check, tree: Tree, sites: dict) -> None:
    """R-BINDSUBST: wherever PoolSum substitutes values for its OWN index symbols into the summand it must use the
    binding-aware primitive (`subs`, which consults the `_eval_subs` guard of nested sums).  `xreplace` is purely
    structural: it also rewrites an index of the same name that is bound by a nested PoolSum.  ``sites``: the
    substitution calls observed while evaluate() / cleanup() were interpreted on the model sums."""
    for (qual, how), where in sorted(sites.items(), key=lambda kv: kv[0]):
        ok = how == "subs"
        node = where.node if isinstance(where, FuncInfo) else None
        ctx.verdict(ok, "R-BINDSUBST", f"{qual}::{how} of own indices", tree.loc(node) if node is not None else "src/ampform/sympy/__init__.py",
                    f"{qual}: substitutes the sum's own index symbols into the summand with {how}()",
                    None if ok else "xreplace ignores binding: PoolSum(i + PoolSum(i**2, (i, (1, 2))), (i, (3,))).cleanup() rewrites the inner, shadowed index -> value 21 instead of 8")
    if len(sites) < 2:
        raise AnalysisError(f"only {len(sites)} substitutions of own indices observed in PoolSum (evaluate and cleanup confirmed)")


def check_external_expansion(ctx: Check, tree: Tree) -> None:
    """R-BINDSUBST outside the class.  (1) ``HelicityModel.expression`` unfolds the pool sums of the intensity: it is
    interpreted on a model whose intensity nests a sum that binds the same symbol again, and must denote the same
    value.  (2) any function of the package that substitutes the index symbols of a PoolSum (taken from
    ``<sum>.indices``) into its summand (``<sum>.expression``) with a structural primitive is a hand-written expansion
    next to PoolSum.evaluate() that disagrees with it for shadowed indices (positive evidence only: what this scan does
    not recognise is covered by (1))."""
    world = PoolSumWorld(tree)
    m = Models(world)
    v = m.v
    model_cls = tree.classes.get(MODEL)
    prop = tree.lookup_method(model_cls, "expression") if model_cls is not None else None
    if prop is None:
        raise AnalysisError("vanished anchor: HelicityModel.expression")
    w = world.w
    amp = w.node("A", m.i)  # an amplitude symbol A[i] ...
    amp_definition = m.F(m.i, m.x)
    inner = m.sum(w.node("Abs2", w.node("A", m.i)), (m.i, (v["b1"], v["b2"])))
    cases = [
        ("a sum whose summand contains a sum over the same symbol", m.sum(m.G(m.i, inner), (m.i, (v["a1"], v["a2"]))), {}),
        ("a sum inside an expression", w.node("Mul", m.x, m.sum(m.F(m.j, m.x), (m.j, (v["b1"], v["b2"])))), {}),
        ("amplitude symbols are replaced by their definitions", m.sum(w.node("Abs2", amp), (m.i, (v["a1"], v["a2"]))),
         {w.node("A", v["a1"]): m.F(v["a1"], m.x), w.node("A", v["a2"]): m.F(v["a2"], m.x)}),
    ]
    del amp_definition
    problems = []
    for label, intensity, amplitudes in cases:
        model = Instance("HelicityModel", model_cls, {"intensity": intensity, "amplitudes": amplitudes}, kinds={MODEL})
        want = world.normal(world.w.xreplace(_expand_all(world, intensity), amplitudes))
        got = _interpret("HelicityModel.expression", lambda model=model: world.ex.getattr(model, "expression"))
        if isinstance(got, ModelRaise):
            problems.append(f"{label}: raises {got}")
        elif world.normal(got) != want or any(world.is_sum(n) for n in world.postorder(got)):
            problems.append(f"{label}: expression = {world.show(world.normal(got))[:150]}, the intensity denotes {world.show(want)[:150]}"
                            + (" (a pool sum is left unexpanded)" if any(world.is_sum(n) for n in world.postorder(got)) else ""))
    ctx.verdict(not problems, "R-BINDSUBST", f"{prop.qual}::unfolds-like-evaluate", tree.loc(prop.node),
                "HelicityModel.expression unfolds the pool sums of the intensity to the value PoolSum.evaluate() gives (shadowed index included)", problems or None)
    n = 0
    for q, fn in sorted(tree.funcs.items()):
        if not q.startswith("ampform") or fn.outer is not None or (fn.cls is not None and fn.cls.qual == POOLSUM):
            continue
        rd = RD(fn.node)
        for node in walk_function(fn.node, nested=True):
            if not (isinstance(node, ast.Call) and isinstance(node.func, ast.Attribute) and node.func.attr in {"subs", "xreplace", "replace"} and node.args):
                continue
            recv = node.func.value
            if not (isinstance(recv, ast.Attribute) and recv.attr == "expression"):
                continue
            owner = unparse(recv.value)
            arg = node.args[0]
            texts = [unparse(arg)] + [unparse(d.value) for d in rd.closure(rd.uses(arg)) if isinstance(d.value, ast.AST)]
            texts += [unparse(d.node.iter) for d in rd.closure(rd.uses(arg)) if d.kind in {"for", "comp"} and hasattr(d.node, "iter")]
            if not any(f"{owner}.indices" in t for t in texts):
                continue
            n += 1
            ok = node.func.attr == "subs"
            ctx.verdict(ok, "R-BINDSUBST", f"{q}::{node.func.attr} of the indices of `{owner}`", tree.loc(node),
                        f"{q}: `{unparse(node)[:60]}` substitutes the index symbols of the PoolSum `{owner}` into its summand with {node.func.attr}()",
                        None if ok else "xreplace also rewrites an index of the same name bound by a nested PoolSum: the hand-written expansion and PoolSum.evaluate() disagree for shadowed indices")
    if n == 0:
        ctx.ok("R-BINDSUBST", "src/ampform", "no function outside PoolSum substitutes the indices of a PoolSum into its summand (all expansions go through PoolSum.evaluate)")


def _expand_all(world: PoolSumWorld, x):
    """The expression with every pool sum (at any depth) replaced by the explicit sum (specification side)."""
    if isinstance(x, (tuple, list)):
        return tuple(_expand_all(world, c) for c in x)
    if world.is_sum(x):
        idx = world.indices(x) or []
        symbols = [s for s, _ in idx]
        terms = [_expand_all(world, world.ref_subs(x.attrs["args"][0], dict(zip(symbols, combo)))) for combo in itertools.product(*[p for _, p in idx])]
        return world.w.node("Add", *terms) if len(terms) != 1 else terms[0]
    kids = world.w.children(x)
    if not kids:
        return x
    return world.w.rebuild(x, tuple(_expand_all(world, c) for c in kids))


# --------------------------------------------------------------------------- R-BINDER (substitution)
def check_subs_returns(ctx: Check, tree: Tree) -> None:
    """R-BINDER: substitution into a model sum, through SymPy's protocol (``Basic.subs`` asks ``_eval_subs`` first and
    otherwise substitutes in every argument - the summand AND the pools).  For an own index symbol the sum must come
    back unchanged; for anything else the result must equal the binding-aware substitution (a hand-made result that
    only visits the summand leaves the pools untouched: PoolSum(a**i, (i, (-J, J))).subs(J, 2); a ``return self`` on
    any other condition skips real substitutions)."""
    world = PoolSumWorld(tree)
    cls = world.cls
    m = Models(world)
    v = m.v
    hook = tree.lookup_method(cls, "_eval_subs")
    fs = tree.lookup_method(cls, "free_symbols")
    where = tree.loc(hook.node) if hook is not None else tree.loc(fs.node) if fs is not None else tree.loc(cls.node)
    new = v["d1"]
    inner_k = m.sum(m.F(m.k, m.y), (m.k, (v["c1"], v["c2"])))
    main = m.sum(m.G(m.i, m.j, m.x, m.k, inner_k), (m.i, (v["a1"], v["a2"])), (m.j, (m.J, v["b1"])))
    plain_sum = m.sum(m.F(m.x), )
    for inst in (main, plain_sum):
        if isinstance(inst, ModelRaise):
            raise AnalysisError(f"PoolSum(...) raises {inst} for a model sum")
    own_problems, other_problems = [], []
    for inst, old, role in ((main, m.i, "the first own index"), (main, m.j, "the last own index")):
        got = _interpret("PoolSum.subs", lambda inst=inst, old=old: world.ex.call_method(inst, "subs", [old, new]))
        if isinstance(got, ModelRaise):
            own_problems.append(f"substituting {role}: raises {got}")
        elif got is not inst:
            own_problems.append(f"{world.text(inst)}.subs({world.text(old)}, {world.text(new)}) = {world.text(got)[:140]}: {role} is rewritten")
    if fs is not None:
        ctx.verdict(not own_problems, "R-BINDER", f"{POOLSUM}::binder-without-subs-guard", tree.loc(fs.node),
                    "PoolSum.free_symbols removes the index symbols (bound symbols) - substitution leaves them alone: "
                    + (f"{hook.qual} answers `self` for an own index" if hook is not None else "no _eval_subs/_subs/subs override: Basic.subs rewrites the bound index symbols"),
                    None if not own_problems else own_problems + ["PoolSum(f(i,j),(i,(1,2)),...).subs(i,5) rewrites the bound index; evaluate() itself substitutes with .subs, so a nested sum with a shadowed index is corrupted"])
    elif own_problems:
        ctx.violation("R-BINDER", f"{POOLSUM}::binder-without-subs-guard", where, "substituting an own index symbol of a PoolSum changes the sum", own_problems)
    others = [
        (main, m.x, "a free symbol of the summand"),
        (main, m.J, "a symbol that occurs in a pool"),
        (main, m.k, "a symbol that is free in the summand and bound by a nested sum"),
        (main, m.y, "a free symbol of a nested sum"),
        (main, m.z, "a symbol that does not occur"),
        (plain_sum, m.x, "a free symbol of a sum without indices"),
    ]
    for inst, old, role in others:
        want = world.normal(world.ref_subs(inst, {old: new}))
        got = _interpret("PoolSum.subs", lambda inst=inst, old=old: world.ex.call_method(inst, "subs", [old, new]))
        if isinstance(got, ModelRaise):
            other_problems.append(f"substituting {role}: raises {got}")
        elif world.normal(got) != want:
            other_problems.append(f"{world.text(inst)}.subs({world.text(old)}, {world.text(new)}) for {role} = {world.text(got)[:140]}, expected {world.text(world.ref_subs(inst, {old: new}))[:140]}")
    key = f"{hook.qual}::returns" if hook is not None else f"{POOLSUM}._eval_subs::returns"
    ctx.verdict(not other_problems, "R-BINDER", key, where,
                "PoolSum._eval_subs: `self` only for an own index, otherwise SymPy substitutes in the summand and in the pools", other_problems or None)
    check_free_symbols_fresh(ctx, tree)


def run(ctx: Check, tree: Tree) -> None:
    ctx.decided += [
        "R-BINDER: every expression class that removes bound symbols from free_symbols guards substitution of those symbols (PoolSum: decided on model sums through SymPy's subs protocol)",
        "R-SUMSHAPE: PoolSum.evaluate() / doit() of every model sum (0-3 indices, singleton / repeated / zero values, nested and directly nested sums with shadowed index) denote the sum of the summand over the cartesian product of the pools",
        "R-FREE: PoolSum.free_symbols is the free symbols of summand and pools minus the own index symbols, a fresh set per access",
        "R-BINDSUBST: PoolSum substitutes its own index symbols into the summand with the binding-aware subs(), never with xreplace(); HelicityModel.expression unfolds like evaluate()",
        "R-DROP: cleanup() of every model sum denotes the same value (an index is retained, substituted by its single value, or compensated by its pool size)",
    ]
    ctx.not_decided += ["evaluation for arbitrary summands (SymPy's subs on the summand)", "three-level nesting inside HelicityModel.expression"]
    ctx.assumptions += [
        "sympy.Basic.subs consults _eval_subs before descending into args; ExprWithLimits (Sum, Integral) guards its own bound variables",
        "the methods of PoolSum are interpreted on model sums (sa/pyexec.py); SymPy itself is represented by a model: hash-consed nodes, structural xreplace, sequential subs, free_symbols as the union over the arguments",
    ]
    sites: dict = {}
    ctx.section(check_binder, ctx, tree)
    ctx.section(check_free_symbols, ctx, tree)
    sites.update(ctx.section(check_evaluate, ctx, tree) or {})
    sites.update(ctx.section(check_cleanup, ctx, tree) or {})
    ctx.section(check_binding_aware_substitution, ctx, tree, sites)
    ctx.section(check_external_expansion, ctx, tree)
    ctx.section(check_subs_returns, ctx, tree)
