"""R-PROV: key and value of a named kinematic-variable store share provenance.

``store_pairs``            every way one entry is put into a mapping (subscript store, setdefault, dict display /
                           comprehension, ``zip`` or ``(k, v)`` pairs handed to ``dict`` / ``update``),
``named_stores``           those whose key comes from a naming function, with the definitions that name the entry
                           (``source_defs``: plain copies / aliases are looked through) and the closure of the value,
``stores_through_helpers`` the same, with stores that were extracted into a helper function LIFTED to the call site
                           (parameters of the helper stand for what reaches the arguments),
``describe`` / ``positional_call`` / ``canon_scope``  local-name and keyword/positional independent texts for keys,
``PathValues`` / ``CallInliner`` / ``ifexp_alternatives`` / ``as_display``  path-wise forward substitution (AST level).
"""

from __future__ import annotations

import ast
from dataclasses import dataclass

from .dataflow import RD, Def
from .loader import FuncInfo, Tree, unparse, walk_function

# naming functions: qualname -> index of the identity argument
NAMING_FUNCTIONS = {
    "ampform.helicity.naming::get_helicity_angle_symbols": 1,
    "ampform.kinematics.lorentz::get_invariant_mass_symbol": 1,
    "ampform.helicity.naming::get_boost_chain_suffix": 1,
    "ampform.helicity.naming::get_helicity_suffix": 1,
}


@dataclass
class ProvStore:
    fn: FuncInfo  # the function the store is judged in (a store inside a helper is lifted to the helper's caller)
    stmt: ast.AST
    key_expr: ast.AST
    value_expr: ast.AST
    naming_call: ast.Call
    identity_defs: set[Def]
    value_closure: set[Def]
    target: ast.AST | None = None  # the mapping that is written (None: a dict display / comprehension)
    origin: FuncInfo | None = None  # the function that contains the statement (differs from ``fn`` after lifting)

    @property
    def missing(self) -> set[Def]:
        return {d for d in self.identity_defs if d not in self.value_closure}


def describe(d: Def, canonical: bool = False, tree: Tree | None = None, fn: FuncInfo | None = None) -> str:
    """Human readable (or, with ``canonical``, local-name independent) description.  With ``tree``/``fn`` a
    call of a package function is written with its arguments in declaration order (keyword or positional: same text)."""
    from .canon import canon

    name = "<id>" if canonical and d.kind != "param" else d.name
    if d.kind == "param":
        return f"{d.name}:param"
    if d.kind == "for":
        it = canon(d.node.iter) if canonical else unparse(d.node.iter)
        return f"{name}:for {it[:40]}"
    if d.value is not None:
        value = d.value
        if canonical and tree is not None and isinstance(value, ast.Call):
            value = positional_call(tree, fn, value)
        v = canon(value, canon_scope(d.value)) if canonical else unparse(value)
        return f"{name}={v[:60]}"
    return f"{name}:{d.kind}"


def canon_scope(node: ast.AST):
    """Locals for ``canon`` when the node to be printed is a rebuilt copy (no parent links)."""
    from .canon import local_names, top_function

    top = top_function(node)
    return local_names(top) if top is not None else set()


def positional_call(tree: Tree, fn: FuncInfo | None, call: ast.Call) -> ast.Call:
    """``f(b=y, a=x)`` as ``f(x, y)`` when f is a function of the package whose parameters can be bound."""
    if not call.keywords or any(k.arg is None for k in call.keywords) or any(isinstance(a, ast.Starred) for a in call.args):
        return call
    q = tree.callee(call, fn) if hasattr(call, "_module") or fn is not None else None
    callee = tree.funcs.get(q) if q else None
    if callee is None:
        return call
    a = callee.node.args
    if a.vararg or a.kwarg or a.kwonlyargs:
        return call
    pos = [x.arg for x in [*a.posonlyargs, *a.args]]
    if callee.cls is not None and pos and pos[0] in {"self", "cls"} and not any(unparse(d) == "staticmethod" for d in callee.node.decorator_list):
        pos = pos[1:]
    bound = dict(zip(pos, call.args))
    for k in call.keywords:
        if k.arg in bound or k.arg not in pos:
            return call
        bound[k.arg] = k.value
    args = []
    for p_ in pos:
        if p_ not in bound:
            break
        args.append(bound[p_])
    if len(args) != len(bound):
        return call
    return ast.Call(func=call.func, args=args, keywords=[])


def _rd_for(fn: FuncInfo, cache: dict) -> RD:
    top = fn
    while top.outer is not None:
        top = top.outer
    if top.qual not in cache:
        cache[top.qual] = RD(top.node)
    root = cache[top.qual]
    if fn is top:
        return root

    def find(rd: RD):
        for child in rd.children.values():
            if child.fn is fn.node:
                return child
            r = find(child)
            if r is not None:
                return r
        return None

    return find(root) or root


def source_defs(rd: RD, defs, _seen: set | None = None) -> set[Def]:
    """The definitions behind plain copies: ``a = b`` (also ``(a := b)`` and ``a: T = b``) stands for whatever
    reaches ``b`` there.  An alias of the state id is the state id."""
    seen = _seen if _seen is not None else set()
    out: set[Def] = set()
    for d in defs:
        if id(d) in seen:
            continue
        seen.add(id(d))
        if d.kind == "assign" and d.index is None and isinstance(d.value, ast.Name) and not isinstance(d.node, ast.AugAssign):
            behind = rd.reaching(d.value)
            if behind:
                out |= source_defs(rd, behind, seen)
                continue
        out.add(d)
    return out


def _is_call_of(node: ast.AST, names: set[str]) -> bool:
    return isinstance(node, ast.Call) and ((isinstance(node.func, ast.Name) and node.func.id in names) or (isinstance(node.func, ast.Attribute) and node.func.attr in names))


def store_pairs(fn_node: ast.AST):
    """(statement-like node, key expression, value expression, written mapping | None) of everything in the function
    that puts ONE entry (or one zipped group of entries) into a mapping - whichever way it is spelled:
    ``D[k] = v``, ``D.setdefault(k, v)`` / ``D.__setitem__(k, v)``, a dict comprehension, every ``k: v`` of a dict
    display (returned, merged with ``update`` / ``|=`` / ``{**D, k: v}``), and ``zip(keys, values)`` or a
    comprehension of ``(k, v)`` pairs handed to ``dict(...)`` / ``D.update(...)``."""
    for node in walk_function(fn_node, nested=False):
        if isinstance(node, ast.DictComp):
            yield node, node.key, node.value, None
        elif isinstance(node, ast.Assign) and len(node.targets) == 1 and isinstance(node.targets[0], ast.Subscript):
            yield node, node.targets[0].slice, node.value, node.targets[0].value
        elif isinstance(node, ast.AnnAssign) and isinstance(node.target, ast.Subscript) and node.value is not None:
            yield node, node.target.slice, node.value, node.target.value
        elif isinstance(node, ast.Dict):
            for k, v in zip(node.keys, node.values):
                if k is not None:
                    yield node, k, v, None
        elif isinstance(node, ast.Call) and isinstance(node.func, ast.Attribute) and node.func.attr in {"setdefault", "__setitem__"} and len(node.args) == 2 and not node.keywords:
            yield node, node.args[0], node.args[1], node.func.value
        elif (_is_call_of(node, {"update"}) or (isinstance(node.func if isinstance(node, ast.Call) else None, ast.Name) and node.func.id in {"dict", "OrderedDict"})) \
                and len(node.args) == 1 and isinstance(node.args[0], (ast.GeneratorExp, ast.ListComp)) and isinstance(node.args[0].elt, ast.Tuple) and len(node.args[0].elt.elts) == 2:
            # dict((k, v) for ...) / D.update((k, v) for ...): the comprehension form of the store
            yield node.args[0], node.args[0].elt.elts[0], node.args[0].elt.elts[1], (node.func.value if isinstance(node.func, ast.Attribute) else None)
        elif (_is_call_of(node, {"update"}) or (isinstance(node.func if isinstance(node, ast.Call) else None, ast.Name) and node.func.id in {"dict", "OrderedDict"})) \
                and len(node.args) == 1 and _is_call_of(node.args[0], {"zip"}) and len(node.args[0].args) == 2 and not node.args[0].keywords:
            z = node.args[0]
            tgt = node.func.value if isinstance(node.func, ast.Attribute) else None
            vals = z.args[1].elts if isinstance(z.args[1], (ast.Tuple, ast.List)) and not any(isinstance(x, ast.Starred) for x in z.args[1].elts) else [z.args[1]]
            keys = z.args[0].elts if isinstance(z.args[0], (ast.Tuple, ast.List)) and len(z.args[0].elts) == len(vals) else None
            for i, v in enumerate(vals):  # one entry per value (zip pairs them in order)
                yield node, (keys[i] if keys is not None else z.args[0]), v, tgt


def named_stores(tree: Tree, fn: FuncInfo, cache: dict | None = None) -> list[ProvStore]:
    """Entries ``key -> value`` written in ``fn`` (see ``store_pairs``) whose key comes from a naming function.
    The identity definitions are taken behind plain copies (``source_defs``)."""
    cache = cache if cache is not None else {}
    rd = _rd_for(fn, cache)
    out: list[ProvStore] = []
    for node, key_expr, value_expr, target in store_pairs(fn.node):
        # the naming call: inline in the key, or in the definition of the key variable(s)
        calls = []
        for n in ast.walk(key_expr):
            if isinstance(n, ast.Call) and tree.callee(n, fn) in NAMING_FUNCTIONS:
                calls.append(n)
        if not calls:
            for d in rd.closure(rd.uses(key_expr)):
                if d.value is not None and d.kind == "assign":
                    for n in ast.walk(d.value):
                        if isinstance(n, ast.Call) and tree.callee(n, fn) in NAMING_FUNCTIONS:
                            calls.append(n)
        if not calls:
            continue
        call = calls[0]
        idx = NAMING_FUNCTIONS[tree.callee(call, fn)]
        ident = next((k.value for k in call.keywords if k.arg in {"state_id", "edge_id"}), None)
        positional = expanded_args(rd, call)
        if ident is None and positional is not None and len(positional) > idx:
            ident = positional[idx]
        if ident is None:
            from .loader import AnalysisError

            raise AnalysisError(f"{fn.qual}: cannot read the state argument of `{unparse(call)[:70]}` (splatted / unusual argument list)")
        identity_defs = source_defs(rd, rd.uses(ident))
        value_closure = rd.closure(rd.uses(value_expr))
        out.append(ProvStore(fn, node, key_expr, value_expr, call, identity_defs, value_closure, target, fn))
    return out


def expanded_args(rd: RD, call: ast.Call) -> list[ast.AST] | None:
    """The positional arguments of a call with ``*args`` of a statically known tuple / list spread out
    (``args = (a, b); f(*args)`` is ``f(a, b)``); None if a splatted value is not known element by element."""
    out: list[ast.AST] = []
    for a in call.args:
        if not isinstance(a, ast.Starred):
            out.append(a)
            continue
        v = a.value
        if isinstance(v, ast.Name):
            defs = rd.reaching(v)
            if len(defs) != 1:
                return None
            d = next(iter(defs))
            if d.kind != "assign" or d.index is not None or isinstance(d.node, ast.AugAssign):
                return None
            v = d.value
        if not isinstance(v, (ast.Tuple, ast.List)) or any(isinstance(e, ast.Starred) for e in v.elts):
            return None
        out += list(v.elts)
    return out


def bind_call(callee: FuncInfo, call: ast.Call) -> dict[str, ast.AST] | None:
    """parameter name -> argument expression of ``call`` (None if the call cannot be bound statically)."""
    a = callee.node.args
    if a.vararg or a.kwarg or any(isinstance(x, ast.Starred) for x in call.args) or any(k.arg is None for k in call.keywords):
        return None
    pos = [x.arg for x in [*a.posonlyargs, *a.args]]
    if callee.cls is not None and callee.outer is None and pos and pos[0] in {"self", "cls"} \
            and not any(unparse(d) == "staticmethod" for d in callee.node.decorator_list):
        pos = pos[1:]
    if len(call.args) > len(pos):
        return None
    bound: dict[str, ast.AST] = dict(zip(pos, call.args))
    for k in call.keywords:
        if k.arg in bound or k.arg not in [*pos, *[x.arg for x in a.kwonlyargs]]:
            return None
        bound[k.arg] = k.value
    return bound


def stores_through_helpers(tree: Tree, fn: FuncInfo, cache: dict, _stack: tuple = (), max_depth: int = 3, skip: frozenset = frozenset()) -> list[ProvStore]:
    """``named_stores`` of ``fn`` plus those of the package helpers it calls (a block of stores extracted into a
    function - module level, static method or method - is still a block of stores of the caller): a store found
    in a helper is LIFTED to the call site - a parameter of the helper among the identity definitions stands
    for what reaches the corresponding argument, a parameter in the value closure for the closure of the
    argument.  (Functions nested in ``fn`` are closures: they are analysed with ``fn``'s definitions by
    ``named_stores`` directly; functions listed in ``skip`` are judged on their own.)"""
    from .loader import AnalysisError

    out = list(named_stores(tree, fn, cache))
    if len(_stack) >= max_depth:
        return out
    rd = _rd_for(fn, cache)
    for call, q in tree.calls_in(fn, nested=False):
        helper = tree.funcs.get(q) if q else None
        if helper is None or helper is fn or helper.qual in _stack or helper.qual in NAMING_FUNCTIONS or helper.qual in skip or not helper.qual.startswith("ampform."):
            continue
        if helper.outer is not None:
            continue  # closure of some function: analysed with its definer
        inner = stores_through_helpers(tree, helper, cache, (*_stack, fn.qual), max_depth, skip)
        if not inner:
            continue
        bound = bind_call(helper, call)
        hrd = _rd_for(helper, cache)
        params = {d.name: d for d in hrd.defs if d.kind == "param"}
        for s in inner:
            p_ident = [d for d in s.identity_defs if d.kind == "param" and params.get(d.name) is d]
            p_value = [d for d in s.value_closure if d.kind == "param" and params.get(d.name) is d]
            if bound is None or any(d.name not in bound for d in [*p_ident, *p_value] if d.name not in _defaults(helper)):
                raise AnalysisError(f"{fn.qual}: `{unparse(call)[:60]}` reaches a named kinematic-variable store in {helper.qual}, but its arguments cannot be bound to the parameters")
            ident = {d for d in s.identity_defs if d not in p_ident}
            for d in p_ident:
                if d.name in bound:
                    ident |= source_defs(rd, rd.uses(bound[d.name]))
            closure = set(s.value_closure)
            for d in p_value:
                if d.name in bound:
                    closure |= rd.closure(rd.uses(bound[d.name]))
            # what names the entry in the caller: kept in the value closure only if it really flows into the value
            out.append(ProvStore(fn, s.stmt, s.key_expr, s.value_expr, s.naming_call, ident, closure, s.target, s.origin or helper))
    return out


def _defaults(fn: FuncInfo) -> set[str]:
    a = fn.node.args
    pos = [x.arg for x in [*a.posonlyargs, *a.args]]
    return set(pos[len(pos) - len(a.defaults):]) | {x.arg for x, d in zip(a.kwonlyargs, a.kw_defaults) if d is not None}


# ---------------------------------------------------------------------------------------------
# values of locals along ONE path (path-sensitive forward substitution)


def as_display(e: ast.AST) -> list[ast.AST] | None:
    """The elements of ``e`` in order, if ``e`` is a collection with a statically known element list: a
    tuple / list display, ``tuple(x)`` / ``list(x)`` of one, or a comprehension / generator expression
    (one ``for``, no filter) over one - ``(f(i) for i in (a, b))`` has the elements ``f(a), f(b)``."""
    if isinstance(e, (ast.Tuple, ast.List)):
        return None if any(isinstance(x, ast.Starred) for x in e.elts) else list(e.elts)
    if isinstance(e, ast.Call) and isinstance(e.func, ast.Name) and e.func.id in {"tuple", "list"} and len(e.args) == 1 and not e.keywords:
        return as_display(e.args[0])
    if isinstance(e, (ast.GeneratorExp, ast.ListComp)) and len(e.generators) == 1:
        g = e.generators[0]
        if g.ifs or g.is_async:
            return None
        src = as_display(g.iter)
        if src is None:
            return None
        out = []
        for item in src:
            binding: dict[str, ast.AST] = {}
            if not _match_target(g.target, item, binding):
                return None
            out.append(_replace_names(e.elt, binding))
        return out
    return None


def _match_target(target: ast.AST, value: ast.AST, binding: dict[str, ast.AST]) -> bool:
    if isinstance(target, ast.Name):
        binding[target.id] = value
        return True
    if isinstance(target, (ast.Tuple, ast.List)):
        elts = as_display(value)
        if elts is None or len(elts) != len(target.elts) or any(isinstance(t, ast.Starred) for t in target.elts):
            return False
        return all(_match_target(t, v, binding) for t, v in zip(target.elts, elts))
    return False


def _replace_names(node: ast.AST, binding: dict[str, ast.AST], returned: dict[int, ast.AST] | None = None) -> ast.AST:
    """Copy of ``node`` with loads of the bound names replaced (names rebound by an inner comprehension /
    lambda are left alone); Call nodes listed in ``returned`` (by identity) are replaced by their value."""
    import copy

    if returned and isinstance(node, ast.Call) and id(node) in returned:
        return returned[id(node)]
    if isinstance(node, ast.Name):
        if isinstance(node.ctx, ast.Load) and node.id in binding:
            return binding[node.id]
        return copy.copy(node)
    inner = binding
    if isinstance(node, (ast.ListComp, ast.SetComp, ast.GeneratorExp, ast.DictComp)):
        bound = {n.id for g in node.generators for n in ast.walk(g.target) if isinstance(n, ast.Name)}
        inner = {k: v for k, v in binding.items() if k not in bound}
    elif isinstance(node, ast.Lambda):
        bound = {a.arg for a in [*node.args.posonlyargs, *node.args.args, *node.args.kwonlyargs]}
        inner = {k: v for k, v in binding.items() if k not in bound}
    new = copy.copy(node)
    for fld, value in ast.iter_fields(node):
        if isinstance(value, ast.AST):
            setattr(new, fld, _replace_names(value, inner, returned))
        elif isinstance(value, list):
            setattr(new, fld, [_replace_names(v, inner, returned) if isinstance(v, ast.AST) else v for v in value])
    return new


class PathValues:
    """Values of the local names along ONE path of a function (the events of ``sa.paths.PathWalker``).

    On a single path every name has exactly one value at every point, so the defining expressions can be
    substituted into each other without the "single reaching definition" restriction of ``Inliner``:
    ``x = a; if c: x = b; use(x)`` is ``use(b)`` on the path where ``c`` holds and ``use(a)`` on the other.
    Values are ASTs over the parameters (and over calls / attribute chains that are left as they are).
    Branch conditions are recorded in ``tests`` as (substituted test, outcome) in positive normal form.
    Calls expanded by the walker (call-enter / call-return) are replaced by the value the callee returns on
    this path.  A name whose object is mutated in place (``x.remove(..)``, ``x[k] = v``) gets a fresh opaque
    value."""

    def __init__(self) -> None:
        self.frames: list[dict[str, ast.AST]] = [{}]
        self.tests: list[tuple[ast.AST, bool]] = []
        self.returned: dict[int, ast.AST] = {}
        self._fresh = 0

    @property
    def env(self) -> dict[str, ast.AST]:
        return self.frames[-1]

    def value(self, expr: ast.AST) -> ast.AST:
        return _replace_names(expr, self.env, self.returned)

    def _opaque(self, name: str) -> ast.AST:
        self._fresh += 1
        return ast.Name(id=f"{name}′{self._fresh}", ctx=ast.Load())

    def bind(self, target: ast.AST, v: ast.AST) -> None:
        if isinstance(target, ast.Name):
            self.env[target.id] = v
        elif isinstance(target, ast.Starred):
            self.bind(target.value, v)
        elif isinstance(target, (ast.Tuple, ast.List)):
            elts = as_display(v)
            star = [i for i, t in enumerate(target.elts) if isinstance(t, ast.Starred)]
            if elts is not None and not star and len(elts) == len(target.elts):
                for t, x in zip(target.elts, elts):
                    self.bind(t, x)
                return
            n = len(target.elts)
            for i, t in enumerate(target.elts):
                if star and i == star[0]:
                    self.bind(t.value, self._opaque("rest"))
                    continue
                idx = i if not star or i < star[0] else i - n
                self.bind(t, ast.Subscript(value=v, slice=ast.Constant(idx), ctx=ast.Load()))
        elif isinstance(target, (ast.Subscript, ast.Attribute)):
            base = target
            while isinstance(base, (ast.Subscript, ast.Attribute)):
                base = base.value
            if isinstance(base, ast.Name):
                self.env[base.id] = self._opaque(base.id)

    def feed(self, event: tuple) -> None:
        from .canon import normal_test
        from .dataflow import MUTATORS

        kind = event[0]
        if kind == "stmt":
            st = event[1]
            if isinstance(st, ast.Assign):
                v = self.value(st.value)
                for t in st.targets:
                    self.bind(t, v)
            elif isinstance(st, ast.AnnAssign) and st.value is not None:
                self.bind(st.target, self.value(st.value))
            elif isinstance(st, ast.AugAssign):
                if isinstance(st.target, ast.Name):
                    old = self.env.get(st.target.id, ast.Name(id=st.target.id, ctx=ast.Load()))
                    self.env[st.target.id] = ast.BinOp(left=old, op=st.op, right=self.value(st.value))
                else:
                    self.bind(st.target, self._opaque("aug"))
            elif isinstance(st, ast.Expr) and isinstance(st.value, ast.Call) and isinstance(st.value.func, ast.Attribute) and st.value.func.attr in MUTATORS:
                base = st.value.func.value
                while isinstance(base, (ast.Subscript, ast.Attribute)):
                    base = base.value
                if isinstance(base, ast.Name):
                    self.env[base.id] = self._opaque(base.id)
            elif isinstance(st, (ast.FunctionDef, ast.AsyncFunctionDef, ast.ClassDef)):
                self.env.pop(st.name, None)
            elif isinstance(st, ast.Delete):
                for t in st.targets:
                    if isinstance(t, ast.Name):
                        self.env.pop(t.id, None)
        elif kind == "test":
            test, outcome = normal_test(event[1], event[2])
            self.tests.append((self.value(test), outcome))
        elif kind == "iter":
            loop = event[1]
            self.bind(loop.target, self._opaque("item"))
        elif kind == "with-enter":
            item = event[1]
            if item.optional_vars is not None:
                self.bind(item.optional_vars, self.value(item.context_expr))
        elif kind == "handler":
            h = event[1]
            if h is not None and getattr(h, "name", None):
                self.env[h.name] = self._opaque(h.name)
        elif kind == "call-enter":
            _, call, callee, bind = event
            frame = {p: self.value(a) for p, a in bind.items()}
            self.frames.append(frame)
        elif kind == "call-return":
            _, call, callee, value, target = event
            v = self.value(value) if value is not None else ast.Constant(None)
            if len(self.frames) > 1:
                self.frames.pop()
            self.returned[id(call)] = v


# ---------------------------------------------------------------------------------------------
# forward substitution through calls of straight-line package helpers


def free_names(expr: ast.AST) -> tuple[set[str], set[str]]:
    """(names loaded free in ``expr``, names bound inside it by comprehensions / lambdas)."""
    free: set[str] = set()
    bound_all: set[str] = set()

    def visit(n: ast.AST, bound: frozenset) -> None:
        if isinstance(n, ast.Name):
            if isinstance(n.ctx, ast.Load) and n.id not in bound:
                free.add(n.id)
            return
        if isinstance(n, (ast.ListComp, ast.SetComp, ast.GeneratorExp, ast.DictComp)):
            inner = bound
            for g in n.generators:
                visit(g.iter, inner)
                names = {x.id for x in ast.walk(g.target) if isinstance(x, ast.Name)}
                bound_all.update(names)
                inner = inner | names
                for c in g.ifs:
                    visit(c, inner)
            for part in ([n.key, n.value] if isinstance(n, ast.DictComp) else [n.elt]):
                visit(part, inner)
            return
        if isinstance(n, ast.Lambda):
            names = {a.arg for a in [*n.args.posonlyargs, *n.args.args, *n.args.kwonlyargs]}
            bound_all.update(names)
            visit(n.body, bound | names)
            return
        for c in ast.iter_child_nodes(n):
            visit(c, bound)

    visit(expr, frozenset())
    return free, bound_all


def straight_line_return(fn: FuncInfo) -> ast.Return | None:
    """The single ``return`` of a function whose body is: docstring, simple assignments, argument checks that
    only raise - i.e. a function whose value is ONE expression over its parameters."""
    ret = None
    for i, st in enumerate(fn.node.body):
        if isinstance(st, ast.Expr) and isinstance(st.value, ast.Constant):
            continue
        if isinstance(st, (ast.Assign, ast.AnnAssign, ast.Pass, ast.Import, ast.ImportFrom)):
            if isinstance(st, ast.Assign) and not all(isinstance(t, (ast.Name, ast.Tuple, ast.List)) for t in st.targets):
                return None
            continue
        if isinstance(st, ast.If) and not st.orelse and st.body and isinstance(st.body[-1], ast.Raise) \
                and all(isinstance(x, ast.Assign) and isinstance(x.value, (ast.Constant, ast.JoinedStr)) for x in st.body[:-1]):
            continue
        if isinstance(st, ast.Return) and st.value is not None and i == len(fn.node.body) - 1:
            ret = st
            continue
        return None
    return ret


class CallInliner:
    """``Inliner`` that also looks through calls of straight-line helper functions of the package:
    ``helper(a, b)`` becomes the helper's (inlined) return expression with the parameters replaced by the
    (inlined) arguments.  An extracted helper thereby reads like the block it was extracted from.  A call is
    left as it is when the helper branches, is a method, takes ``*args``/``**kwargs``, or when substituting
    would capture a name (a free name of an argument that a comprehension of the helper binds)."""

    def __init__(self, tree: Tree, fn: FuncInfo, rd: RD | None = None, call_depth: int = 3) -> None:
        from .inline import Inliner

        outer = self

        class _I(Inliner):
            def _sub(self, node, depth, stop):  # noqa: ANN001
                new = super()._sub(node, depth, stop)
                if isinstance(node, ast.Call) and isinstance(new, ast.Call) and outer.call_depth > 0:
                    r = outer._inline_call(node, new)
                    if r is not None:
                        return r
                return new

        self.tree, self.fn, self.call_depth = tree, fn, call_depth
        self.inl = _I(fn.node, rd)
        self.rd = self.inl.rd

    def expr(self, node: ast.AST, stop: set[str] | None = None) -> ast.AST:
        return self.inl.expr(node, stop=stop)

    def _inline_call(self, orig: ast.Call, new: ast.Call) -> ast.AST | None:
        from .loader import _local_names

        if not hasattr(orig, "_module"):
            return None
        callee_q = self.tree.callee(orig, self.fn)
        callee = self.tree.funcs.get(callee_q) if callee_q else None
        if callee is None or callee is self.fn or callee.cls is not None or callee.outer is not None:
            return None
        a = callee.node.args
        if a.vararg or a.kwarg or callee.node.decorator_list and any(unparse(d) not in {"cache", "lru_cache", "functools.cache", "lru_cache(maxsize=None)", "functools.lru_cache(maxsize=None)"} for d in callee.node.decorator_list):
            return None
        if any(isinstance(x, ast.Starred) for x in new.args) or any(k.arg is None for k in new.keywords):
            return None
        ret = straight_line_return(callee)
        if ret is None:
            return None
        pos = [*a.posonlyargs, *a.args]
        if len(new.args) > len(pos):
            return None
        mapping: dict[str, ast.AST] = {p.arg: v for p, v in zip(pos, new.args)}
        for k in new.keywords:
            if k.arg in mapping or k.arg not in {p.arg for p in [*pos, *a.kwonlyargs]}:
                return None
            mapping[k.arg] = k.value
        defaults = dict(zip([p.arg for p in pos][len(pos) - len(a.defaults):], a.defaults))
        defaults.update({p.arg: d for p, d in zip(a.kwonlyargs, a.kw_defaults) if d is not None})
        for p in [*pos, *a.kwonlyargs]:
            if p.arg not in mapping:
                if p.arg not in defaults:
                    return None
                mapping[p.arg] = defaults[p.arg]
        body = CallInliner(self.tree, callee, None, self.call_depth - 1).expr(ret.value)
        free, bound = free_names(body)
        locals_ = _local_names(callee.node)
        if any(n in locals_ and n not in mapping for n in free):
            return None  # a local of the helper with several definitions: its value is not one expression
        for v in mapping.values():
            if free_names(v)[0] & bound:
                return None  # capture
        return _replace_names(body, mapping)


def ifexp_alternatives(expr: ast.AST, limit: int = 4) -> list[tuple[ast.AST, list[tuple[ast.AST, bool]]]]:
    """``expr`` with every conditional expression resolved, once per combination of outcomes of the distinct
    tests: [(expression without IfExp, [(test, outcome), ...])].  Occurrences with the same test text take the
    same branch (a value that was substituted twice is one evaluation).  ``(a, b)[0]`` is reduced to ``a``."""
    import copy
    import itertools

    tests: dict[str, ast.AST] = {}
    for n in ast.walk(expr):
        if isinstance(n, ast.IfExp):
            tests.setdefault(ast.unparse(n.test), n.test)
    if not tests:
        return [(_reduce_indexing(expr), [])]
    if len(tests) > limit:
        from .loader import AnalysisError

        raise AnalysisError(f"more than {limit} distinct conditional expressions in `{ast.unparse(expr)[:60]}`")
    out = []
    keys = list(tests)
    for combo in itertools.product([True, False], repeat=len(keys)):
        choice = dict(zip(keys, combo))

        def pick(n: ast.AST) -> ast.AST:
            while isinstance(n, ast.IfExp):
                n = n.body if choice[ast.unparse(n.test)] else n.orelse
            new = copy.copy(n)
            for fld, value in ast.iter_fields(n):
                if isinstance(value, ast.AST):
                    setattr(new, fld, pick(value))
                elif isinstance(value, list):
                    setattr(new, fld, [pick(v) if isinstance(v, ast.AST) else v for v in value])
            return new

        out.append((_reduce_indexing(pick(expr)), [(tests[k], choice[k]) for k in keys]))
    return out


def _reduce_indexing(expr: ast.AST) -> ast.AST:
    class R(ast.NodeTransformer):
        def visit_Subscript(self, node: ast.Subscript):  # noqa: N802
            self.generic_visit(node)
            elts = as_display(node.value)
            if elts is not None and isinstance(node.slice, ast.Constant) and isinstance(node.slice.value, int) and -len(elts) <= node.slice.value < len(elts):
                return elts[node.slice.value]
            return node

    from .canon import clone  # deep copy that does not follow the loader's parent / module links

    return R().visit(clone(expr))
