"""R-PROV: key and value of a named kinematic-variable store share provenance."""

from __future__ import annotations

import ast
from dataclasses import dataclass

from .dataflow import RD, Def
from .loader import FuncInfo, Tree, unparse, walk_function

# naming functions: qualname -> index of the identity argument
NAMING_FUNCTIONS = {
    "ampform.helicity.naming::get_helicity_angle_symbols": 1,
    "ampform.kinematics.lorentz::get_invariant_mass_symbol": 1,
    "ampform.helicity.naming::get_boost_chain_suffix": 1,
    "ampform.helicity.naming::get_helicity_suffix": 1,
}


@dataclass
class ProvStore:
    fn: FuncInfo
    stmt: ast.AST
    key_expr: ast.AST
    value_expr: ast.AST
    naming_call: ast.Call
    identity_defs: set[Def]
    value_closure: set[Def]

    @property
    def missing(self) -> set[Def]:
        return {d for d in self.identity_defs if d not in self.value_closure}


def describe(d: Def, canonical: bool = False) -> str:
    """Human readable (or, with ``canonical``, local-name independent) description."""
    from .canon import canon

    name = "<id>" if canonical and d.kind != "param" else d.name
    if d.kind == "param":
        return f"{d.name}:param"
    if d.kind == "for":
        it = canon(d.node.iter) if canonical else unparse(d.node.iter)
        return f"{name}:for {it[:40]}"
    if d.value is not None:
        v = canon(d.value) if canonical else unparse(d.value)
        return f"{name}={v[:60]}"
    return f"{name}:{d.kind}"


def _rd_for(fn: FuncInfo, cache: dict) -> RD:
    top = fn
    while top.outer is not None:
        top = top.outer
    if top.qual not in cache:
        cache[top.qual] = RD(top.node)
    root = cache[top.qual]
    if fn is top:
        return root

    def find(rd: RD):
        for child in rd.children.values():
            if child.fn is fn.node:
                return child
            r = find(child)
            if r is not None:
                return r
        return None

    return find(root) or root


def named_stores(tree: Tree, fn: FuncInfo, cache: dict | None = None) -> list[ProvStore]:
    """Subscript stores ``D[key] = value`` in ``fn`` whose key comes from a naming function."""
    cache = cache if cache is not None else {}
    rd = _rd_for(fn, cache)
    out: list[ProvStore] = []
    for node in walk_function(fn.node, nested=False):
        if isinstance(node, ast.DictComp):
            # `{naming(...): value for ...}` - the comprehension form of the same store (also what the
            # loader's normal form turns `d = {}; for ..: d[k] = v` into)
            key_expr, value_expr = node.key, node.value
        elif isinstance(node, ast.Assign) and len(node.targets) == 1 and isinstance(node.targets[0], ast.Subscript):
            key_expr, value_expr = node.targets[0].slice, node.value
        else:
            continue
        # the naming call: inline in the key, or in the definition of the key variable(s)
        calls = []
        for n in ast.walk(key_expr):
            if isinstance(n, ast.Call) and tree.callee(n, fn) in NAMING_FUNCTIONS:
                calls.append(n)
        if not calls:
            for d in rd.closure(rd.uses(key_expr)):
                if d.value is not None and d.kind == "assign":
                    for n in ast.walk(d.value):
                        if isinstance(n, ast.Call) and tree.callee(n, fn) in NAMING_FUNCTIONS:
                            calls.append(n)
        if not calls:
            continue
        call = calls[0]
        idx = NAMING_FUNCTIONS[tree.callee(call, fn)]
        ident = next((k.value for k in call.keywords if k.arg in {"state_id", "edge_id"}), None)
        if ident is None and len(call.args) > idx:
            ident = call.args[idx]
        if ident is None:
            continue
        identity_defs = rd.uses(ident)
        value_closure = rd.closure(rd.uses(value_expr))
        out.append(ProvStore(fn, node, key_expr, value_expr, call, identity_defs, value_closure))
    return out
