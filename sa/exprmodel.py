"""E5 - model of the expression classes, read from the AST alone."""

from __future__ import annotations

import ast
from dataclasses import dataclass, field

from .loader import AnalysisError, ClassInfo, FuncInfo, Tree, unparse, walk_function

UNEVALUATED = "ampform.sympy._decorator::unevaluated"
ARGUMENT = "ampform.sympy._decorator::argument"
IMPLEMENT_NEW = "ampform.sympy._decorator::_implement_new_method"


@dataclass
class Field:
    name: str
    annotation: str
    sympify: bool
    default: ast.AST | None
    node: ast.AnnAssign


@dataclass
class ExprClass:
    info: ClassInfo
    decorated: bool
    implement_doit: bool
    assumptions: dict[str, ast.AST]
    fields: list[Field] = field(default_factory=list)

    @property
    def qual(self) -> str:
        return self.info.qual

    @property
    def name(self) -> str:
        return self.info.name

    @property
    def sympy_fields(self) -> list[Field]:
        return [f for f in self.fields if f.sympify]

    @property
    def non_sympy_fields(self) -> list[Field]:
        return [f for f in self.fields if not f.sympify]

    def method(self, name: str) -> FuncInfo | None:
        return self.info.methods.get(name)


def _is_classvar(ann: ast.AST) -> bool:
    text = unparse(ann)
    return text.startswith("ClassVar") or text.startswith("typing.ClassVar")


def class_fields(tree: Tree, cls: ClassInfo) -> list[Field]:
    """Dataclass fields in declaration order (bases first, like dataclasses do)."""
    out: dict[str, Field] = {}
    for c in reversed(tree.mro(cls)):
        for st in c.node.body:
            if not isinstance(st, ast.AnnAssign) or not isinstance(st.target, ast.Name):
                continue
            if _is_classvar(st.annotation):
                continue
            sympify = True
            default = st.value
            if isinstance(st.value, ast.Call):
                callee = tree.resolve(c.module, st.value.func)
                if callee in {ARGUMENT, "dataclasses.field"}:
                    default = None
                    for kw in st.value.keywords:
                        if kw.arg == "sympify" and isinstance(kw.value, ast.Constant):
                            sympify = bool(kw.value.value)
                        if kw.arg == "default":
                            default = kw.value
            out[st.target.id] = Field(st.target.id, unparse(st.annotation), sympify, default, st)
    return list(out.values())


def expression_classes(tree: Tree) -> dict[str, ExprClass]:
    """All classes decorated with @unevaluated[(...)] (resolved through imports)."""
    out: dict[str, ExprClass] = {}
    for q, cls in tree.classes.items():
        if not q.startswith("ampform"):
            continue
        for target, dec in cls.decorators:
            if target != UNEVALUATED:
                continue
            implement_doit = True
            assumptions: dict[str, ast.AST] = {}
            if isinstance(dec, ast.Call):
                for kw in dec.keywords:
                    if kw.arg == "implement_doit":
                        implement_doit = not (isinstance(kw.value, ast.Constant) and kw.value.value is False)
                    elif kw.arg:
                        assumptions[kw.arg] = kw.value
            out[q] = ExprClass(cls, True, implement_doit, assumptions, class_fields(tree, cls))
    return out


SYMPY_EXPR_BASES = ("sympy.Expr", "sympy.Integral", "sympy.Sum", "sympy.Function", "sympy.Basic")


def handwritten_expr_classes(tree: Tree) -> dict[str, ClassInfo]:
    """Non-decorated classes of the package that derive from a SymPy expression type."""
    decorated = expression_classes(tree)
    out = {}
    for q, cls in tree.classes.items():
        if q in decorated or not q.startswith("ampform"):
            continue
        ext = tree.external_bases(cls)
        if any(b.startswith("sympy.") for b in ext):
            out[q] = cls
    return out


def installed_hooks(tree: Tree) -> dict[str, tuple[ast.AST, bool, str | None]]:
    """``cls.<attr> = <callable>`` assignments in ``_implement_new_method``.

    Returns attr -> (value node, conditional?, resolved callee of the value).
    """
    fn = tree.func(IMPLEMENT_NEW)
    hooks: dict[str, tuple[ast.AST, bool, str | None]] = {}
    for node in walk_function(fn.node, nested=False):
        if isinstance(node, ast.Assign):
            for t in node.targets:
                if isinstance(t, ast.Attribute) and isinstance(t.value, ast.Name) and t.value.id == "cls":
                    conditional = any(isinstance(a, ast.If) for a in _ancestors_until(node, fn.node))
                    hooks[t.attr] = (node.value, conditional, tree.resolve(fn.module, node.value, fn))
    if "__new__" not in hooks:
        raise AnalysisError("vanished anchor: _implement_new_method installs no __new__")
    return hooks


def _ancestors_until(node: ast.AST, stop: ast.AST):
    from .loader import ancestors

    for a in ancestors(node):
        if a is stop:
            return
        yield a
